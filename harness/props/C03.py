"""C03 — tracing never changes what the traced program does (partial)."""
import collections
import json
import subprocess
from concurrent.futures import ThreadPoolExecutor

from harness import common

COQ_TARGETS = ["Check/EffectsCases.vo"]
TRUSTED_BASE = [
    "the classification of CPython primitives into hook-free / hook-invoking (Model/Effects.v: type(), issubclass on results "
    "of type(), callable, inspect.getattr_static, typing.cast, container protocol of EXACT builtin containers (guard on the "
    "very object) and of their views, truth tests of builtin bool/int results are hook-free; isinstance, getattr and the "
    "truth value of any other object are not): an assumption, validated by the tripwire journals, not proved",
    "harness/extract_effects.py and harness/extract_tracer.py (source -> Gen/EffectsConstants.v, Gen/TracerConstants.v), "
    "both on top of the normal form of harness/ast_canon.py (its assumptions [A1]-[A4]); extract_effects.py describes a "
    "primitive as (operation, origin of the object, attribute/class argument, exact-type guard, origin of the guarded "
    "object) by reaching definitions and by walking through private / fixed helper functions, and emits SETS: it does not "
    "describe operators (==, in, [], %), the order or the number of occurrences of an operation",
    "harness/tripwire_run.py (tripwire classes, workload, fault injection)",
]
ASSUMPTIONS = ["contained failures are reported through the `logging` module (stderr); only stdout, results, exceptions and the "
               "hook journal are compared between the traced and the untraced run",
               "BaseException (KeyboardInterrupt, SystemExit) is deliberately not contained"]
PARTIAL = ["'same results and output for arbitrary programs' is a statement about CPython: exercised by the differential runs, "
           "not proved; the theorems cover the regenerated primitive lists, the callback's try/except and the exit block",
           "hook-freedom of the primitives is an assumption about CPython"]

FAULTS = ["none", "log", "flush", "log+flush", "body_raises", "body_raises+flush", "body_raises+log", "hot_section",
          "hot_section+body_raises+flush", "stock_logger", "lookup_raises"]
WHAT = {5: ("kf_lookup_getattr", "function lookup reads __code__/__wrapped__ (getattr in _has_code) of a module global named like "
                                  "the traced function and of callable locals of outer frames: user attribute hooks run"),
        6: ("kf_metaclass_hash_eq", "the class of a traced value is hashed / compared when types are merged (typing.Union, dict "
                                     "keys): a metaclass-level __hash__/__eq__ runs")}


def one(args):
    seed, mode, fault = args
    p = subprocess.run([common.PY, "-m", "harness.tripwire_run", str(seed), mode, fault], capture_output=True, text=True,
                       env=common.sub_env(), timeout=120, cwd=common.VERIF)
    lines = [l for l in p.stdout.splitlines() if l.startswith("{")]
    if p.returncode != 0 or not lines:
        return {"crashed": True, "stderr": p.stderr[-800:], "rc": p.returncode, "journal": [], "results": None, "stdout": None,
                "exception": "process failed", "profiler_restored": False, "flushes": 0, "flush_exception": None}
    return json.loads(lines[-1])


CLI_PROG = '''
import os, pickle, random, sys
class Rec:
    def __init__(self, n):
        self.n = n
def work(a, b=None):
    return (a, b)
def main():
    print("argv0", os.path.basename(sys.argv[0]), "args", sys.argv[1:])
    print("main module", sys.modules["__main__"].__name__, getattr(sys.modules["__main__"], "__file__", None) is not None,
          hasattr(sys.modules["__main__"], "Rec"))
    try:
        import c03helper            # a project-local module; a same-named one sits further down sys.path
        print("helper", c03helper.WHO)
    except ImportError:
        print("helper missing")
    # the program configures logging itself: whatever the command does to the logging module must not pre-empt it
    import logging
    logging.basicConfig(stream=sys.stdout, format="LOG %(levelname)s %(name)s %(message)s", level=logging.DEBUG)
    logging.getLogger("c03prog").debug("debug record")
    logging.getLogger("c03prog").info("info record")
    random.seed(7)
    work(1, "x")
    print("draws", random.random(), random.randrange(100))
    try:
        print("pickle", len(pickle.loads(pickle.dumps(Rec(3))).__dict__))
    except Exception as e:
        print("pickle failed", type(e).__name__)
    work(Rec(1))
    if "fail" in sys.argv:
        raise SystemExit(3)
if __name__ == "__main__":
    main()
'''
CLI_CFG = '''
from monkeytype.config import DefaultConfig
from monkeytype.db.sqlite import SQLiteStore
class C(DefaultConfig):
    def trace_store(self):
        return SQLiteStore.make_store({db!r})
CONFIG = C()
'''


def cli_run_cases(ctx):
    """`monkeytype run` against plain `python`: same output, same exit status - for a script path and for -m module"""
    import os
    d = os.path.join(ctx.work, "clirun")
    os.makedirs(d, exist_ok=True)
    with open(os.path.join(d, "c03prog.py"), "w") as f:
        f.write(CLI_PROG)
    with open(os.path.join(d, "c03cfg.py"), "w") as f:
        f.write(CLI_CFG.format(db=os.path.join(d, "t.sqlite3")))
    with open(os.path.join(d, "c03helper.py"), "w") as f:
        f.write("WHO = 'local'\n")
    os.makedirs(os.path.join(d, "decoy"), exist_ok=True)
    with open(os.path.join(d, "decoy", "c03helper.py"), "w") as f:
        f.write("WHO = 'decoy'\n")
    env = common.sub_env()
    env["PYTHONPATH"] = d + os.pathsep + env.get("PYTHONPATH", "")
    # the installed console script: sys.path[0] is the script's bin directory, the project is found only because the
    # command puts the working directory in FRONT of sys.path (a same-named module further down must not win)
    env_console = common.sub_env()
    env_console["PYTHONPATH"] = env_console.get("PYTHONPATH", "") + os.pathsep + os.path.join(d, "decoy")
    console = os.path.join(os.path.dirname(common.PY), "monkeytype")
    forms = [("script", ["c03prog.py"], ["-m", "monkeytype"], ["run", "c03prog.py"], env),
             ("module", ["-m", "c03prog"], ["-m", "monkeytype"], ["run", "-m", "c03prog"], env)]
    forms.append(("script_verbose", ["c03prog.py"], ["-m", "monkeytype", "-v"], ["run", "c03prog.py"], env))
    if os.path.exists(console):
        forms.append(("console_script", ["c03prog.py"], [console], ["run", "c03prog.py"], env_console))
        forms.append(("console_script_module", ["-m", "c03prog"], [console], ["run", "-m", "c03prog"], env_console))
    out = []
    for form, plain, launcher, traced, env in forms:
        for extra in (["a", "b"], ["fail"], ["-x", "--flag=1", "a"], ["pos", "-m", "z", "-v"]):
            p1 = subprocess.run([common.PY] + plain + extra, capture_output=True, text=True, env=env, cwd=d, timeout=120)
            p2 = subprocess.run([common.PY] + launcher + ["-c", "c03cfg:CONFIG"] + traced + extra, capture_output=True,
                                text=True, env=env, cwd=d, timeout=120)
            out.append({"form": form, "args": extra, "plain": {"rc": p1.returncode, "stdout": p1.stdout, "stderr": p1.stderr[-300:]},
                        "traced": {"rc": p2.returncode, "stdout": p2.stdout, "stderr": p2.stderr[-300:]}})
    return out


def run(ctx):
    nseeds = 6 if ctx.tier == "quick" else 60
    jobs = []
    for s in range(nseeds):
        seed = ctx.seed * 100 + s
        for f in FAULTS:
            jobs.append((seed, "untraced", "body_raises" if "body_raises" in f else "none"))
            jobs.append((seed, "traced", f))
    with ThreadPoolExecutor(max_workers=common.NCPU) as ex:
        res = list(ex.map(one, jobs))
    cases, terms = [], []
    dist = collections.Counter()
    for i in range(0, len(jobs), 2):
        u, t = res[i], res[i + 1]
        seed, _, fault = jobs[i + 1]
        cu, ctt = collections.Counter(u["journal"]), collections.Counter(t["journal"])
        extra = sorted((ctt - cu).elements())
        missing = sorted((cu - ctt).elements())
        dist["hooks_journaled_untraced"] += len(u["journal"])
        dist["extra_hook_invocations_traced"] += len(extra)
        dist[f"fault={fault}"] += 1
        dist["traces_logged"] += t.get("logged") or 0
        if t.get("crashed") or u.get("crashed"):
            dist["crashed"] += 1
        term = "ECase %s %s %s %s %s %s %s %d %s %d" % (
            common.coq_str(fault), common.coq_list(common.coq_str(e) for e in sorted(set(extra))),
            common.coq_list(common.coq_str(e) for e in sorted(set(missing))),
            common.coq_bool(u["results"] == t["results"] and u["results"] is not None),
            common.coq_bool(u["stdout"] == t["stdout"] and u["stdout"] is not None),
            common.coq_bool(u["exception"] == t["exception"]), common.coq_bool(t["profiler_restored"]),
            t["flushes"], common.coq_bool(bool(t.get("flush_exception"))), max(0, t.get("residue") or 0))
        terms.append(term)
        cases.append({"seed": seed, "fault": fault, "extra": sorted(set(extra)), "missing": sorted(set(missing)),
                      "traced": {k: t.get(k) for k in ("exception", "flush_exception", "profiler_restored", "flushes", "logged", "residue", "stderr")},
                      "untraced_exception": u["exception"], "term": term})
    for c in cli_run_cases(ctx):
        same_out = c["plain"]["stdout"] == c["traced"]["stdout"] and c["plain"]["stdout"] != ""
        same_rc = c["plain"]["rc"] == c["traced"]["rc"]
        fault = f"cli_run_{c['form']}"
        dist[f"fault={fault}"] += 1
        term = "ECase %s [] [] %s %s %s true 1 false 0" % (common.coq_str(fault), common.coq_bool(same_out), common.coq_bool(same_out),
                                                            common.coq_bool(same_rc))
        terms.append(term)
        cases.append({"seed": 0, "fault": fault + " " + " ".join(c["args"]), "extra": [], "missing": [],
                      "traced": {"rc": c["traced"]["rc"], "stdout": c["traced"]["stdout"][:600], "stderr": c["traced"]["stderr"],
                                 "plain_rc": c["plain"]["rc"], "plain_stdout": c["plain"]["stdout"][:600]},
                      "untraced_exception": None, "term": term})
    outs = common.run_coq_shards(ctx.work, "c03", "From MT Require Import EffectsCases.\n", terms, "ecase",
                                 "bad verdict_effects 0 cases")
    failures, mismatches = [], []
    for i, code in common.parse_bad(outs):
        c = cases[i]
        codes = [5, 6] if code == 7 else [code]
        for cd in codes:
            rec = dict(c)
            if cd in WHAT:
                rec["finding"], rec["what"] = WHAT[cd][0], WHAT[cd][1] + f" (seed {c['seed']}, fault {c['fault']}: {c['extra'][:4]})"
            else:
                rec["what"] = (f"traced and untraced runs of the tripwire workload differ (seed {c['seed']}, fault {c['fault']}): "
                               f"extra hooks {c['extra'][:6]}, missing {c['missing'][:3]}, traced run: {c['traced']}")
            failures.append(rec)
    return {
        "evaluations": len(cases), "distinct_nontrivial": len({common.digest(c["term"]) for c in cases}),
        "rule": "the tripwire workload (objects overriding __getattribute__/__getattr__/__class__, descriptors and lazy "
                "properties, list/dict/set/tuple subclasses overriding the container protocol, journaling "
                "__hash__/__eq__/__bool__/__repr__, metaclasses with __instancecheck__/__hash__, an object whose every "
                "attribute read raises; passed as arguments, returns, yields, nested in containers; a hooked global named like "
                "a traced method, hooked non-class globals before and after the classes, a hooked callable local of an outer frame; "
                "the logging module configured with a handler that formats every record) run untraced and under the real trace_calls in "
                "fresh interpreters, x faults {log, flush, both, body exception, block switching the profiler off or replacing it, ...} x pre-installed profiler or none; plus `monkeytype run script` / `run -m module` against "
                "plain python on a program that looks at sys.argv, __main__, pickles its own class and draws from a seeded "
                "random generator (same stdout and exit status); every "
                "pair is non-trivial; distinct by hash of the reified comparison",
        "samples": [{k: c[k] for k in ("seed", "fault", "extra", "missing", "traced")} for c in cases[:3]],
        "distribution": dict(dist), "failures": failures, "mismatches": mismatches,
        "relation": "journal(traced) - journal(untraced) = hooks the model predicts (none from type collection; lookup sites only)",
    }


def replay(ctx, payload):
    print(json.dumps({k: payload.get(k) for k in ("seed", "fault", "extra", "missing", "traced", "what")}, indent=1))
    return 0


CLAIM = {
    "text": "Partial. Coq theorems over lists and tags regenerated from the source on every run: "
            "get_type_runs_no_user_code_partial (every primitive type collection applies to a traced value is hook-free: type(), "
            "issubclass on results of type(), container protocol only under an exact-builtin-type guard on that very object, "
            "truth tests only of builtin results), "
            "lookup_hooks_only_at_known_sites_partial (function lookup is hook-free except exactly the recorded sites: getattr "
            "of __code__/__wrapped__ on the eight kinds of lookup candidate, isinstance against three descriptor classes on "
            "the statically found class attribute), "
            "tracer_contains_failures (any Exception inside the profiler callback is contained), trace_calls_exit_discipline and "
            "trace_calls_always_restores_and_flushes_once (previous profiler restored, flush exactly once, the block's own outcome "
            "is what the program sees, also when flush fails). Behavioural half: differential runs of a tripwire workload, traced "
            "vs untraced, with fault injection; verdict computed in Coq.",
    "note": "Partial: 'same results for arbitrary programs' and the hook-freedom of CPython primitives are assumptions exercised "
            "by the differential runs, not proved. Findings kf_lookup_getattr, kf_metaclass_hash_eq recorded.",
    "technique": "source-regenerated primitive lists + Coq theorems by computation/case analysis; differential tripwire runs "
                 "with Coq-evaluated verdict",
    "ref": "4/C03",
}
