"""Seeded generator of runtime values from the property grammar."""
import collections
import copy
import random

from harness import fxclasses as fx

ATOM_MAKERS = [
    lambda r: None,
    lambda r: r.randrange(0, 50),
    lambda r: r.choice(["", "a", "b", "hello", "x y"]),
    lambda r: r.choice([0.5, 1.25, 3.0]),
    lambda r: r.choice([True, False]),
    lambda r: r.choice([b"", b"ab"]),
]
# instances of builtin / stdlib classes that are NOT the five containers the inference looks into: plain classes to it
EXOTIC = [lambda: frozenset({1, 2}), lambda: frozenset(), lambda: collections.OrderedDict(a=1), lambda: collections.deque([1, "s"]),
          lambda: range(3), lambda: complex(1, 2), lambda: bytearray(b"x"), lambda: collections.Counter("ab")]
SIMPLE_CLASSES = [fx.A, fx.B, fx.C, fx.D, fx.E, fx.F, fx.X, fx.Y, fx.XY1, fx.YX1, fx.Outer, fx.Outer.Inner, fx.Falsy, fx.WithCall]
CLASS_OBJS = [int, str, fx.A, fx.B, fx.D, fx.MyList, type(None), fx.Outer.Inner, fx.Falsy]
CALLABLES = [fx.some_function, len, (lambda: 0), [].append, fx.A().__init__]
KEYS = ["a", "b", "c", "x", "y", "k1", "k2", "long_key", "q", "z", "w", "v"]


class ValGen:
    def __init__(self, rnd: random.Random, max_depth=3, max_width=4):
        self.r = rnd
        self.max_depth = max_depth
        self.max_width = max_width

    def atom(self):
        r = self.r
        c = r.random()
        if c < 0.05:
            return r.choice(EXOTIC)()
        if c < 0.55:
            return r.choice(ATOM_MAKERS)(r)
        if c < 0.75:
            return r.choice(SIMPLE_CLASSES)()
        if c < 0.82:
            k = r.choice([fx.MyList, fx.MyDict, fx.MyInt, fx.MyStr, fx.MyTuple])
            return k()
        if c < 0.90:
            return r.choice(CLASS_OBJS)
        if c < 0.96:
            return r.choice(CALLABLES)
        return fx.some_generator()

    def hashable(self, depth):
        r = self.r
        if depth <= 0 or r.random() < 0.7:
            c = r.random()
            if c < 0.7:
                return r.choice(ATOM_MAKERS)(r)
            if c < 0.85:
                return r.choice(SIMPLE_CLASSES)()
            return r.choice(CLASS_OBJS)
        n = r.randrange(0, 3)
        return tuple(self.hashable(depth - 1) for _ in range(n))

    def width(self):
        r = self.r
        return r.choice([0, 1, 1, 2, 2, 3, self.max_width])

    def str_dict(self, depth, nkeys=None):
        r = self.r
        n = nkeys if nkeys is not None else r.choice([1, 1, 2, 2, 3, 4, r.randrange(1, 13)])
        keys = r.sample(KEYS, min(n, len(KEYS)))
        return {k: self.value(depth - 1) for k in keys}

    def value(self, depth=None):
        r = self.r
        if depth is None:
            depth = self.max_depth
        if depth <= 0 or r.random() < 0.3:
            return self.atom()
        c = r.random()
        if c < 0.22:
            return [self.value(depth - 1) for _ in range(self.width())]
        if c < 0.32:
            return {self.hashable(depth - 1) for _ in range(self.width())}
        if c < 0.50:
            return tuple(self.value(depth - 1) for _ in range(self.width()))
        if c < 0.72:
            if r.random() < 0.08:
                return {}
            return self.str_dict(depth)
        if c < 0.84:
            # mixed / non-string keys
            d = {}
            for _ in range(self.width()):
                k = self.hashable(1) if r.random() < 0.6 else r.choice(KEYS)
                d[k] = self.value(depth - 1)
            return d
        if c < 0.94:
            dd = collections.defaultdict(int)
            for _ in range(self.width()):
                k = r.choice(KEYS) if r.random() < 0.6 else self.hashable(1)
                dd[k] = self.value(depth - 1)
            return dd
        return self.atom()

    def mutate(self, v, depth=2):
        """A near-duplicate of v: same shape with a local change (drives the equal/list/TypedDict seams)."""
        r = self.r
        t = type(v)
        c = r.random()
        if c < 0.35:
            try:
                return copy.copy(v) if t in (list, dict, set, collections.defaultdict) else v
            except Exception:
                return v
        if t is list:
            w = list(v)
            if w and r.random() < 0.5:
                i = r.randrange(len(w))
                w[i] = self.mutate(w[i], depth - 1)
            else:
                w.append(self.value(max(depth - 1, 0)))
            return w
        if t is tuple:
            w = list(v)
            if w:
                i = r.randrange(len(w))
                w[i] = self.mutate(w[i], depth - 1)
            return tuple(w)
        if t is dict:
            w = dict(v)
            ks = list(w)
            c2 = r.random()
            if ks and c2 < 0.35:
                del w[r.choice(ks)]
            elif ks and c2 < 0.7:
                kk = r.choice(ks)
                w[kk] = self.mutate(w[kk], depth - 1)
            else:
                w[r.choice(KEYS)] = self.value(max(depth - 1, 0))
            return w
        if t is collections.defaultdict:
            w = collections.defaultdict(int, v)
            w[r.choice(KEYS)] = self.value(max(depth - 1, 0))
            return w
        return self.value(max(depth, 0))

    def values(self):
        """A non-empty collection of values observed at one position."""
        r = self.r
        n = r.choice([1, 2, 2, 3, 3, 4, 6])
        mode = r.random()
        vs = [self.value()]
        while len(vs) < n:
            if mode < 0.5:
                vs.append(self.mutate(r.choice(vs)))
            elif mode < 0.6:
                vs.append(r.choice(vs))
            else:
                vs.append(self.value())
        r.shuffle(vs)
        return vs
