#!/bin/bash
# tools/run_all.sh [quick|thorough]  — every claimed check on /repo, 4 at a time; one summary line each
cd "$(dirname "$0")/.."
tier=${1:-quick}
ids=$(python3 -c "import json; print(' '.join(c['property_id'] for c in json.load(open('MANIFEST.json'))['checks']))")
mkdir -p _work/runall
echo $ids | tr ' ' '\n' | xargs -P 4 -I{} sh -c "./check {} --tier $tier > _work/runall/{}.log 2>&1; echo \"{} rc=\$? \$(tail -1 _work/runall/{}.log | cut -c1-150)\""
