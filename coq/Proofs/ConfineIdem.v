(* Proofs/ConfineIdem.v — C16 (patch C16-5): imports already held by a module-level `if TYPE_CHECKING:` block get no
   second block. *)
From Coq Require Import List Bool Arith String Ascii Lia.
From MT Require Import Confine ConfineEmb ConfineItems ConfineSpec.
Import ListNotations.
Open Scope list_scope.

Lemma tcb_cons s m : tc_block_imps (s :: m) = match s with SIfTC b => b | _ => [] end ++ tc_block_imps m.
Proof. reflexivity. Qed.

Lemma tcb_add_first m : tc_block_imps (add_first m) = tc_block_imps m.
Proof.
  induction m as [|s r IH]; [reflexivity|]. destruct s; try reflexivity.
  destruct i; simpl; rewrite ?tcb_cons, ?IH; try reflexivity.
  destruct (String.eqb md "typing"); rewrite ?tcb_cons, ?IH; reflexivity.
Qed.

Lemma tcb_insert_after_block i m : tc_block_imps (insert_after_block (SImp i) m) = tc_block_imps m.
Proof.
  induction m as [|s r IH]; [reflexivity|]. destruct s; try reflexivity.
  unfold tc_block_imps in *. simpl. exact IH.
Qed.

Lemma tcb_add_tc m : tc_block_imps (add_tc m) = tc_block_imps m.
Proof.
  assert (B : forall m, tc_block_imps (add_tc_body m) = tc_block_imps m).
  { intro m0. unfold add_tc_body. destruct (_ || _); [reflexivity|].
    destruct (typing_from _); [apply tcb_add_first | apply tcb_insert_after_block]. }
  unfold add_tc. destruct m as [|s r]; [apply B|]. destruct s; try apply B.
  now rewrite !tcb_cons, B.
Qed.

Lemma tcb_remove moved m : tc_block_imps (remove moved m) = tc_block_imps m.
Proof.
  induction m as [|s r IH]; [reflexivity|].
  destruct s; simpl; rewrite ?tcb_cons, ?IH; try reflexivity.
  destruct (rm_imp moved i); rewrite ?tcb_cons, ?IH; reflexivity.
Qed.

Lemma already_confined_step moved m : already_confined (remove moved (add_tc m)) = already_confined m.
Proof. unfold already_confined. now rewrite tcb_remove, tcb_add_tc. Qed.

Lemma filter_none {A} (f : A -> bool) l : (forall x, In x l -> f x = false) -> filter f l = [].
Proof.
  induction l as [|x r IH]; intro H; [reflexivity|]. simpl. rewrite (H x (or_introl eq_refl)).
  apply IH. intros y Hy. apply H. now right.
Qed.

(* when every import to be moved is already held by an existing module-level block, no block is inserted:
   the module-level copies libcst added are removed and nothing else happens *)
Theorem no_second_block :
  forall stub src applied out,
    confine stub src applied = Some out ->
    (forall it, In it (moved_items stub src) -> In it (already_confined applied)) ->
    out = remove (moved_items stub src) (add_tc applied) /\ tc_block_imps out = tc_block_imps applied.
Proof.
  intros stub src applied out Hc H. apply confine_Some in Hc as [_ ->].
  unfold confine_with, to_block. rewrite already_confined_step.
  rewrite filter_none.
  - simpl. split; [reflexivity|]. now rewrite tcb_remove, tcb_add_tc.
  - intros it Hit. apply H in Hit. apply memb_In in Hit. now rewrite Hit.
Qed.

(* in general the inserted block never repeats what an existing block's symbol mapping holds *)
Theorem block_disjoint_from_existing :
  forall moved applied it,
    In it (to_block moved (remove moved (add_tc applied))) -> ~ In it (already_confined applied).
Proof.
  intros moved applied it H Hin. unfold to_block in H. apply filter_In in H as [_ H].
  rewrite already_confined_step in H. apply memb_In in Hin. rewrite Hin in H. discriminate.
Qed.
