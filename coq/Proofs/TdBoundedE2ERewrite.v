(* Proofs/TdBoundedE2ERewrite.v — C06 across the rewriters: no shipped rewriter (nor any chain of them) creates a
   TypedDict or enlarges one.  For every class table and every type. *)
From MT Require Import Types Infer Rewrite TypesFacts UnionFacts TdBounded RewriteMono.
From Coq Require Import Lia.
Open Scope list_scope.

(* a TypedDict-free type is bounded for every limit; with limit 0 the two notions coincide *)
Lemma no_td_bd k t : has_td t = false -> td_boundedb k t = true.
Proof.
  induction t as [ | c | x IH | | x IH | x IH | x IH | a b IHa IHb | a b IHa IHb | xs IH | x IH
                 | a1 a2 a3 IH1 IH2 IH3 | xs IH | r o IHr IHo | s ] using ty_ind';
    cbn [td_boundedb has_td]; intros H; auto; try discriminate H.
  - apply orb_false_iff in H. destruct H. rewrite IHa, IHb; auto.
  - apply orb_false_iff in H. destruct H. rewrite IHa, IHb; auto.
  - apply forallb_forall. intros x Hx. rewrite Forall_forall in IH. apply (IH x Hx).
    destruct (has_td x) eqn:E; [|reflexivity]. rewrite <- H. symmetry. apply existsb_exists. exists x. auto.
  - apply orb_false_iff in H. destruct H as [H H3]. apply orb_false_iff in H. destruct H. rewrite IH1, IH2, IH3; auto.
  - apply forallb_forall. intros x Hx. rewrite Forall_forall in IH. apply (IH x Hx).
    destruct (has_td x) eqn:E; [|reflexivity]. rewrite <- H. symmetry. apply existsb_exists. exists x. auto.
Qed.

Lemma bd0_iff_no_td t : td_boundedb 0 t = true <-> has_td t = false.
Proof. split; [apply bd_k0_no_td|apply no_td_bd]. Qed.

Section RwBounded.
Variable h : hierarchy.
Variable bt : bases_table.
Variable k : nat.
Notation bd := (td_boundedb k).
Notation rw := (rw h bt).

Lemma dict_key_bd t : bd t = true -> bd (dict_key t) = true.
Proof. destruct t; cbn [dict_key td_boundedb]; try reflexivity. intros H. apply andb_prop in H. tauto. Qed.
Lemma dict_val_bd t : bd t = true -> bd (dict_val t) = true.
Proof. destruct t; cbn [dict_val td_boundedb]; try reflexivity. intros H. apply andb_prop in H. tauto. Qed.

Lemma rcd_union_bd ts : forallb bd ts = true -> bd (rcd_union ts) = true.
Proof.
  intros B. unfold rcd_union. destruct ts as [|t0 rest]; [reflexivity|].
  destruct (forallb is_tdict (t0 :: rest) && _); [|exact B].
  cbn [td_boundedb]. apply andb_true_intro. split.
  - apply dict_key_bd. cbn [forallb] in B. apply andb_prop in B. tauto.
  - apply union_mk_bd. rewrite forallb_forall in *. intros x Hx. apply in_map_iff in Hx.
    destruct Hx as [e [<- He]]. apply dict_val_bd. apply B. exact He.
Qed.

Lemma scan_bd ts : forall vt r, to_tuple_scan vt ts = Some r -> forallb bd ts = true ->
  (forall v', vt = Some v' -> bd v' = true) -> forall v, r = Some v -> bd v = true.
Proof.
  induction ts as [|t ts IH]; intros vt r H B Hv v Hr; cbn [to_tuple_scan] in H.
  - injection H as <-. apply Hv. exact Hr.
  - cbn [forallb] in B. apply andb_prop in B. destruct B as [Bt B].
    destruct t; try discriminate H. destruct ts0 as [|a es].
    + eapply IH; eauto.
    + destruct (forallb _ (a :: es)); [|discriminate H].
      apply (IH _ _ H B); [|exact Hr]. intros v' E. injection E as <-.
      destruct vt as [v'|]; [apply Hv; reflexivity|].
      cbn [td_boundedb forallb] in Bt. apply andb_prop in Bt. tauto.
Qed.

Lemma rlu_union_bd n ts : forallb bd ts = true -> bd (rlu_union h n ts) = true.
Proof.
  intros B. unfold rlu_union. destruct (Nat.leb _ _); [exact B|].
  destruct (rlu_to_tuple ts) as [t|] eqn:RT.
  - unfold rlu_to_tuple in RT. destruct (to_tuple_scan None ts) as [[v0|]|] eqn:S; try discriminate RT.
    injection RT as <-. cbn [td_boundedb]. apply (scan_bd _ _ _ S B); [discriminate|reflexivity].
  - repeat (match goal with |- context [match ?x with _ => _ end] => destruct x end); reflexivity.
Qed.

Lemma msb_union_bd ts : forallb bd ts = true -> bd (msb_union bt ts) = true.
Proof.
  intros B. unfold msb_union.
  repeat (match goal with |- context [match ?x with _ => _ end] => destruct x end); exact B || reflexivity.
Qed.

Lemma map_bd (f : ty -> ty) ts :
  Forall (fun t => bd t = true -> bd (f t) = true) ts -> forallb bd ts = true -> forallb bd (map f ts) = true.
Proof.
  intros IH B. rewrite Forall_forall in IH. rewrite forallb_forall in *. intros x Hx. apply in_map_iff in Hx.
  destruct Hx as [e [<- He]]. apply IH; [exact He|apply B; exact He].
Qed.

Lemma fields_map_bd (f : ty -> ty) (fs : list (string * ty)) :
  Forall (fun g => bd (snd g) = true -> bd (f (snd g)) = true) fs ->
  forallb (fun g => bd (snd g)) fs = true ->
  forallb (fun g => bd (snd g)) (map (fun g => (fst g, f (snd g))) fs) = true.
Proof.
  intros IH B. rewrite Forall_forall in IH. rewrite forallb_forall in *. intros x Hx. apply in_map_iff in Hx.
  destruct Hx as [e [<- He]]. cbn [snd]. apply IH; [exact He|apply B; exact He].
Qed.

(* every shipped rewriter keeps "every TypedDict node has between 1 and k fields" *)
Theorem rw_bd r t : bd t = true -> bd (rw r t) = true.
Proof.
  induction t as [ | c | x IH | | x IH | x IH | x IH | kk v0 IHk IHv | kk v0 IHk IHv | xs IH | x IH
                 | a1 a2 a3 IH1 IH2 IH3 | xs IH | rq op IHr IHo | s ] using ty_ind'; intros B;
    try (destruct r; exact B).
  - destruct r; cbn [Rewrite.rw td_boundedb] in *; auto.
  - destruct r; cbn [Rewrite.rw td_boundedb] in *; auto.
  - destruct r; cbn [Rewrite.rw td_boundedb] in *; try exact B; apply andb_prop in B; destruct B;
      apply andb_true_intro; split; auto.
  - destruct r; try exact B; cbn [Rewrite.rw td_boundedb] in *; apply map_bd; assumption.
  - destruct r; cbn [Rewrite.rw td_boundedb] in *; auto.
  - destruct r; try exact B.
    4: { destruct (rw_gen_cases h bt a1 a2 a3) as [E|E]; rewrite E; [|exact B]. cbn [td_boundedb] in *.
         apply andb_prop in B. destruct B as [B _]. apply andb_prop in B. tauto. }
    all: cbn [Rewrite.rw td_boundedb] in *; apply andb_prop in B; destruct B as [B B3]; apply andb_prop in B;
      destruct B as [B1 B2]; rewrite IH1, IH2, IH3; auto.
  - cbn [td_boundedb] in B. destruct r; try exact B.
    + rewrite rw_rme_union. destruct (filter (keep xs) xs) eqn:K; [exact B|]. rewrite <- K.
      apply union_mk_bd. rewrite Forall_forall in IH. rewrite forallb_forall in *. intros x Hx.
      apply in_map_iff in Hx. destruct Hx as [e [<- He]]. apply filter_In in He. destruct He as [He _]. apply IH; auto.
    + cbn [Rewrite.rw]. apply rcd_union_bd. exact B.
    + cbn [Rewrite.rw]. apply rlu_union_bd. exact B.
    + cbn [Rewrite.rw]. apply union_mk_bd. apply map_bd; assumption.
    + cbn [Rewrite.rw]. apply msb_union_bd. exact B.
  - destruct r; try exact B; cbn [Rewrite.rw]; apply bd_TTypedDict; apply bd_TTypedDict in B;
      destruct B as [L [Br Bo]]; rewrite !map_length; (split; [exact L|]);
      split; apply fields_map_bd; assumption.
Qed.

Theorem rw_chain_bd rs : forall t, bd t = true -> bd (rw_chain h bt rs t) = true.
Proof.
  unfold rw_chain. induction rs as [|r rs IH]; intros t B; cbn [fold_left]; [exact B|].
  apply IH. apply rw_bd. exact B.
Qed.
End RwBounded.

(* no rewriter creates a TypedDict *)
Theorem rw_no_td h bt r t : has_td t = false -> has_td (rw h bt r t) = false.
Proof. intros H. apply bd0_iff_no_td. apply rw_bd. apply bd0_iff_no_td. exact H. Qed.

Theorem rw_chain_no_td h bt rs t : has_td t = false -> has_td (rw_chain h bt rs t) = false.
Proof. intros H. apply bd0_iff_no_td. apply rw_chain_bd. apply bd0_iff_no_td. exact H. Qed.

Print Assumptions rw_bd.
Print Assumptions rw_chain_bd.
Print Assumptions rw_no_td.
Print Assumptions rw_chain_no_td.
