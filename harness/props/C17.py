"""C17 — only code the filter admits, outside __main__, is ever recorded."""
import json
import os
import random
import subprocess
from concurrent.futures import ThreadPoolExecutor

from harness import common, filter_e2e

COQ_TARGETS = ["Check/FilterCases.vo"]
TRUSTED_BASE = [
    "pathlib.Path.resolve() and sysconfig are inputs of the model: the harness hands it os.path.realpath(co_filename) split "
    "on '/' (own splitting, not pathlib's) and the live LIB_PATHS in their tuple order",
    "the event history of an end-to-end program is derived statically from the generated call DAG (restricted to the "
    "generated code; events of other code are omitted on the strength of filter_gate_history)",
    "get_func resolves generated module-level functions and instance methods to themselves (C02's oracle)",
]
ASSUMPTIONS = [
    "roots and resolved paths are absolute with non-empty, slash-free components (checked per case: verdict 3 otherwise)",
    "a custom code filter is a total boolean function of the code object (a filter that raises propagates out of "
    "CallTracer.__call__; default_code_filter does so on a symlink loop, modelled as an explicit error result)",
    "the tracer behind the gate is arbitrary in filter_gate*, a minimal live-frame tracer in the pipeline theorems",
]
PARTIAL = ["completeness ('every other traced call in scope is recorded') is proved for the gate and the logger; that "
           "handle_call/handle_return log every completed call of admitted code is C02's theorem (tracer_log_faithful) — "
           "here it is exercised end to end on generated programs"]

HEADER = """From MT Require Import FilterCases.
Open Scope string_scope.
Open Scope list_scope.
Definition roots : list path := %s.
"""

KF_CACHE = "kf_c17_filter_cache_ignores_filename"
KF_NAME = "kf_c17_trace_types_name"


def S(s):
    return common.coq_str(s)


def L(items):
    return common.coq_list(items)


def coq_path(p):
    return L(S(c) for c in p)


def coq_trace(mod, qn):
    m = "None" if mod is None else f"(Some {S(mod)})"
    return f"{{| tr_module := {m}; tr_qualname := {S(qn)} |}}"


def fcase_term(c):
    res = c["resolved"]
    res_t = "None" if not isinstance(res, list) else f"(Some {coq_path(res)})"
    env_t = "None" if c["env"] is None else f"(Some {S(c['env'])})"
    names_t = "None" if c["names"] is None else f"(Some {L(S(n) for n in c['names'])})"
    impl_t = "None" if c["impl"] is None else f"(Some {common.coq_bool(c['impl'])})"
    return f"FCase {S(c['raw'])} {res_t} {env_t} {names_t} {impl_t}"


def lcase_term(c):
    ops = L("Flush" if o[0] == "flush" else f"Log {coq_trace(o[1], o[2])}" for o in c["ops"])
    added = L(L(coq_trace(m, q) for m, q in b) for b in c["added"])
    buf = L(coq_trace(m, q) for m, q in c["buf"])
    return f"LCase {ops} {added} {buf}"


def split_real(p):
    rp = os.path.realpath(p)
    return ["/"] + [c for c in rp.split("/") if c]


def ecase_term(c, skips_name):
    funcs = L(f"Some {coq_trace(f['module'], f['qualname'])}" for f in c["funcs"])
    if c["mode"] == "run-default":
        files = []
        for f in c["funcs"]:
            raw = f["co_filename"] or ""
            full = raw if os.path.isabs(raw) else os.path.join(c["dir"], raw)
            files.append(f"({S(raw)}, Some {coq_path(split_real(full))})")
        env_t = "None" if c["env"] is None else f"(Some {S(c['env'])})"
        flt = f"(EDefault {env_t} {L(files)})"
    else:
        flt = f"(ECustom {L(str(i) for i in c['admitted'])})"
    skip = L(str(f["id"]) for f in c["funcs"] if skips_name and f["co_name"] == "trace_types")
    hist = L(f"({k}, {i}, {fr})" for k, i, fr in c["history"])
    rows = L(coq_trace(m, q) for m, q in c["rows"])
    return f"ECase {funcs} {flt} {skip} {hist} {rows}"


def run_enum(ctx, tag, args):
    d = os.path.join(ctx.work, tag)
    os.makedirs(d)
    with open(os.path.join(d, "args.json"), "w") as f:
        json.dump(args, f)
    out = os.path.join(d, "out.json")
    p = subprocess.run([common.PY, "-m", "harness.filter_enum", "args.json", out], cwd=d, env=common.sub_env(),
                       capture_output=True, text=True, timeout=75 if ctx.tier == "quick" else 800)
    if p.returncode != 0:
        raise RuntimeError("filter_enum subprocess failed: " + p.stderr[-1500:])
    return json.load(open(out))


def run_enum_env(ctx, tag, args, symlinked_prefix, cwd_at_prefix):
    """the enumeration's light mode in another environment: interpreter started through a symlink to sys.prefix and/or with
    the current directory at the prefix root (an ancestor of site-packages); nothing is written outside ctx.work"""
    import sys
    d = os.path.join(ctx.work, tag)
    os.makedirs(d)
    argp = os.path.join(d, "args.json")
    with open(argp, "w") as f:
        json.dump(dict(args, light=True), f)
    out = os.path.join(d, "out.json")
    prefix = os.path.dirname(os.path.dirname(common.PY))          # /venv
    py = common.PY
    if symlinked_prefix:
        link = os.path.join(d, "prefixlink")
        os.symlink(prefix, link)
        py = os.path.join(link, "bin", os.path.basename(common.PY))
        prefix = link
    p = subprocess.run([py, "-m", "harness.filter_enum", argp, out], cwd=prefix if cwd_at_prefix else d, env=common.sub_env(),
                       capture_output=True, text=True, timeout=120)
    if p.returncode != 0:
        raise RuntimeError(f"filter_enum (environment variant {tag}) failed: " + p.stderr[-1500:])
    return json.load(open(out))["filter"]


def e2e_plan(ctx, rnd):
    n = 8 if ctx.tier == "quick" else 60
    plan = []
    modes = ["run-custom", "trace-custom", "run-default", "run-custom", "run-default", "trace-custom"]
    envs = [None, "a", "b,nothing", "{dir}", "{main}", "a,b,{main}"]
    for i in range(n):
        mode = modes[i % len(modes)]
        env = None
        if mode == "run-default" and i >= 3:
            env = rnd.choice(envs)
        plan.append((i, mode, env, False))
    plan.append((n, "run-custom", None, True))      # a user function that happens to be called trace_types
    return plan


def run(ctx):
    rnd = random.Random(ctx.seed + 17)
    quick = ctx.tier == "quick"
    args = {"seed": ctx.seed + 17, "sample_code_objects": 20000 if quick else None, "n_env": 4 if quick else 10,
            "n_logger": 300 if quick else 3000, "per_file_cap": 4 if quick else None}

    # the end-to-end programs run while the enumeration subprocess works
    skips_name = filter_e2e.tracer_skips_trace_types()
    plan = e2e_plan(ctx, rnd)
    progs = []
    for i, mode, env, directed in plan:
        prog = filter_e2e.gen_program(rnd, i, directed_trace_types=directed, dict_shapes=(i % 3 == 0 and not directed))
        if env is not None:
            env = env.format(dir=f"e2e_{i}", main=f"main{i}")
        progs.append((prog, mode, env, random.Random(rnd.randrange(1 << 30))))
    with ThreadPoolExecutor(max_workers=max(2, common.NCPU // 2)) as ex:
        fut_enum = ex.submit(run_enum, ctx, "enum", args)
        fut_env = [ex.submit(run_enum_env, ctx, tag, args, sp, cw) for tag, sp, cw in
                   (("env_symlinked_prefix", True, False), ("env_cwd_at_prefix", False, True), ("env_both", True, True))]
        endings = [None, "raise", "exit3", "exit0"]
        fut_e2e = [ex.submit(filter_e2e.run_program, r, ctx.work, prog, mode, env,
                             endings[prog["idx"] % 4] if not any(f.name == "trace_types" for f in prog["fns"]) else None,
                             mode != "run-default" and prog["idx"] % 2 == 1)
                   for prog, mode, env, r in progs]
        # one file loaded twice (as __main__ and under its own name), the same functions called in both copies
        base = len(progs)
        dl = [("main-first", "run-custom", True), ("module-first", "run-custom", True), ("interleaved", "run-default", True),
              ("main-first", "run-default", True), ("module-first", "run-default", False)]
        if not quick:
            dl += [("interleaved", "run-custom", True), ("module-first", "run-default", True), ("main-first", "run-custom", False)]
        fut_e2e += [ex.submit(filter_e2e.run_double_load, ctx.work, base + k, order, mode, absolute)
                    for k, (order, mode, absolute) in enumerate(dl)]
        # two sessions in one process: monkeytype_config appears in between / MT_DB_PATH changes in between
        base += len(dl)
        kinds = ["config-appears", "db-path-changes"] * (1 if quick else 4)
        fut_two = [ex.submit(filter_e2e.run_two_sessions, random.Random(rnd.randrange(1 << 30)), ctx.work,
                             filter_e2e.gen_program(rnd, base + k, dict_shapes=(k % 2 == 1)), kind) for k, kind in enumerate(kinds)]
        enum = fut_enum.result()
        env_runs = [f.result() for f in fut_env]
        e2e = [f.result() for f in fut_e2e]
        for f in fut_two:
            e2e += f.result()

    failures, mismatches = [], []
    flt = enum["filter"]
    header = HEADER % L(coq_path(r) for r in flt["roots"])

    # ---- default_code_filter (the main enumeration, then the same filter judged in other environments) ----
    all_fcases, all_fterms = [], []
    for run_name, frun in [("c17f", flt)] + [(f"c17v{k}", r) for k, r in enumerate(env_runs)]:
        fheader = HEADER % L(coq_path(r) for r in frun["roots"])
        fcases, direct_fail = [], []
        for c in frun["cases"]:
            if c["resolved"] == "error":
                continue
            if isinstance(c["impl"], str):      # raised something else / non-bool: no constructor for it, fail closed
                direct_fail.append(c)
                continue
            fcases.append(c)
        fterms = [fcase_term(c) for c in fcases]
        outs = common.run_coq_shards(ctx.work, run_name, fheader, fterms, "fcase", "bad (verdict_filter roots) 0 cases")
        for i, code in common.parse_bad(outs):
            c = fcases[i]
            rec = {"stream": "default_code_filter", "co_filename": c["raw"], "resolved": c["resolved"], "env": c["env"],
                   "impl": c["impl"], "n_code_objects": c["n_code"], "kind": c["kind"], "note": c.get("note"),
                   "primed_by": c.get("primed_by"),
                   "lib_paths": frun["roots_str"], "verdict": code, "term": fterms[i]}
            if code == 2:
                rec["what"] = (f"default_code_filter answered {c['impl']} for {c['n_code']} code object(s) with co_filename="
                               f"{c['raw']!r} (resolved {'/' + '/'.join((c['resolved'] or ['/'])[1:])!r}), MONKEYTYPE_TRACE_MODULES={c['env']!r}, "
                               f"LIB_PATHS={frun['roots_str']}, library roots {['/' + '/'.join(r[1:]) for r in frun['roots']]}; the specification says {not c['impl'] if isinstance(c['impl'], bool) else 'a boolean'}"
                               + (f" [{c['note']}]" if c.get("note") else ""))
                # an answer that contradicts the path specification while another code object of the same file (or the
                # same code object asked first) gets the right one: the lru_cache keyed on the code object
                if c["kind"] == "env-history":
                    rec["env_history"] = c["env_history"]
                elif c["kind"] != "environment":
                    rec["finding"] = KF_CACHE
                failures.append(rec)
            else:
                rec["what"] = f"model/harness disagreement (verdict {code}) on co_filename={c['raw']!r} env={c['env']!r}"
                mismatches.append(rec)
        for c in direct_fail:
            failures.append({"stream": "default_code_filter", "co_filename": c["raw"], "env": c["env"], "impl": c["impl"],
                             "what": f"default_code_filter({c['raw']!r}) with MONKEYTYPE_TRACE_MODULES={c['env']!r}: {c['impl']}"})

        all_fcases += fcases
        all_fterms += fterms
    fcases, fterms = all_fcases, all_fterms

    # ---- CallTraceStoreLogger ----
    lcases = enum["logger"]
    lterms = [lcase_term(c) for c in lcases]
    outs = common.run_coq_shards(ctx.work, "c17l", header, lterms, "lcase", "bad verdict_logger 0 cases")
    for i, code in common.parse_bad(outs):
        c = lcases[i]
        rec = {"stream": "CallTraceStoreLogger", "ops": c["ops"], "added": c["added"], "buf": c["buf"], "verdict": code,
               "what": f"CallTraceStoreLogger: after {c['ops']} the store received {c['added']} and the buffer holds {c['buf']}"}
        (failures if code == 2 else mismatches).append(rec)

    # ---- end to end ----
    ecases = []
    for c in e2e:
        if c["error"]:
            mismatches.append({"stream": "end-to-end", "what": f"generated program {c['idx']} ({c['mode']}) did not run: {c['error']}",
                               "cmd": c["cmd"], "sources": c["sources"]})
        else:
            ecases.append(c)
    eterms = [ecase_term(c, skips_name) for c in ecases]
    outs = common.run_coq_shards(ctx.work, "c17e", header, eterms, "ecase", "bad (verdict_e2e roots) 0 cases")
    for i, code in common.parse_bad(outs):
        c = ecases[i]
        named = [f for f in c["funcs"] if f["co_name"] == "trace_types"]
        rec = {"stream": "end-to-end", "mode": c["mode"], "cmd": c["cmd"], "env": c["env"], "admitted": c["admitted"],
               "funcs": c["funcs"], "top": c["top"], "rows": c["rows"], "sources": c["sources"], "verdict": code}
        if code == 2:
            rec["what"] = (f"{c['cmd']} (MONKEYTYPE_TRACE_MODULES={c['env']!r}, custom filter admits ids {c['admitted']}): rows in the "
                           f"store {c['rows']} are not the completed calls of admitted functions outside __main__; functions: "
                           + "; ".join(f"{f['id']}={f['module']}.{f['qualname']}" for f in c["funcs"])
                           + f"; top-level calls {c['top']}"
                           + (f"; nested monkeytype.trace() sessions {c['sessions']} (store order: inner, outer)" if c.get("sessions") else "")
                           + (f"; the filter answers yes/no as {c['filter_answers']}" if c.get("filter_answers") else "")
                           + (f"; {c['session']}" if c.get("session") else "")
                           + (f"; the traced block is left by {c['ending']}" if c.get("ending") else "")
                           + ("; the config's store queues the batch objects and writes them at the end" if c.get("deferred_store") else "")
                           + (f"; one file loaded twice (as __main__ and under its own name), calls in order {c['double_load']}"
                              if c.get("double_load") else ""))
            if c["admitted"] is not None:         # readable hint only; the verdict above is Coq's
                by_row = {(f["module"], f["qualname"]): f for f in c["funcs"]}
                wrong = sorted({f"{m}.{q}" for m, q in map(tuple, c["rows"])
                                if (m, q) not in by_row or by_row[(m, q)]["id"] not in c["admitted"] or m == "__main__"})
                called = {i for _, i, _ in c["history"]}
                missing = sorted(f"{f['module']}.{f['qualname']}" for f in c["funcs"]
                                 if f["id"] in c["admitted"] and f["id"] in called and f["module"] != "__main__"
                                 and [f["module"], f["qualname"]] not in c["rows"])
                rec["what"] += f"; recorded although rejected: {wrong}; admitted and called but absent: {missing}"
            if named and skips_name:
                rec["finding"] = KF_NAME
                rec["what"] = (f"a user function named `trace_types` ({named[0]['module']}.trace_types), accepted by the custom filter and "
                               f"called, is never recorded: " + rec["what"])
            failures.append(rec)
        else:
            rec["what"] = f"end-to-end model/harness disagreement (verdict {code}) for program {c['idx']} ({c['mode']})"
            mismatches.append(rec)

    # self-contained inputs first (the driver reports the first few)
    twins = [r for r in failures if (r.get("kind") == "twin" and r.get("primed_by")) or r.get("kind") in ("env-history", "environment")]
    e2e_f = [r for r in failures if r.get("stream") == "end-to-end"]
    rest = [r for r in failures if r not in twins and r not in e2e_f]
    failures = twins[:2] + e2e_f[:2] + twins[2:] + e2e_f[2:] + rest

    # ---- accounting ----
    st = flt["stats"]
    distinct = len({common.digest(t) for t, c in zip(fterms, fcases)
                    if isinstance(c["resolved"], list) and len(c["resolved"]) > 2})
    dist = dict(st)
    dist["envs"] = flt["envs"]
    for c in fcases:
        k = f"{c['kind']}:{'unset' if c['env'] is None else 'allow-list'}:{c['impl']}"
        dist[k] = dist.get(k, 0) + c["n_code"]
    dist["logger_cases"] = len(lcases)
    dist["logger_main_traces"] = sum(1 for c in lcases for o in c["ops"] if o[0] == "log" and o[1] == "__main__")
    dist["e2e_programs"] = len(ecases)
    dist["e2e_rows"] = sum(len(c["rows"]) for c in ecases)
    dist["e2e_modes"] = {m: sum(1 for c in ecases if c["mode"] == m) for m in ("run-custom", "trace-custom", "run-default")}
    dist["tracer_still_skips_co_name_trace_types"] = skips_name
    dist["e2e_nested_sessions"] = sum(1 for c in ecases if c.get("sessions"))
    dist["e2e_endings"] = {str(e): sum(1 for c in ecases if c.get("ending") == e) for e in (None, "raise", "exit0", "exit3")}
    dist["e2e_two_session_cases"] = {k: sum(1 for c in ecases if c.get("two_sessions") == k) for k in ("config-appears", "db-path-changes")}
    dist["e2e_dict_shape_rows_max_typed_dict_size_3"] = sum(1 for c in ecases for r in c["rows"] if r[1].startswith("shapes"))
    dist["e2e_deferred_store"] = sum(1 for c in ecases if c.get("deferred_store"))
    dist["e2e_double_load"] = {o: sum(1 for c in ecases if c.get("double_load") == o) for o in ("main-first", "module-first", "interleaved")}
    dist["e2e_filter_answer_styles"] = {st: sum(1 for c in ecases if c.get("filter_answers") == st) for st in filter_e2e.STYLES}
    shared = [(c, f) for c in ecases for f in c["funcs"]
              if f["module"] != "__main__" and sum(1 for g in c["funcs"] if g["module"] == f["module"] and g["co_name"] == f["co_name"]) > 1]
    dist["e2e_functions_sharing_a_bare_name_in_one_file"] = len(shared)
    dist["e2e_nested_functions"] = sum(1 for c in ecases for f in c["funcs"] if "<locals>" in f["qualname"])
    dist["e2e_rows_of_shared_name_functions"] = sum(1 for c in ecases for r in c["rows"]
                                                    if any(f["module"] == r[0] and f["qualname"] == r[1] for cc, f in shared if cc is c))
    dist["e2e_rows_of_nested_functions"] = sum(1 for c in ecases for r in c["rows"] if "<locals>" in r[1])
    dist["e2e_custom_filters_splitting_a_shared_name"] = sum(
        1 for c in ecases if c["admitted"] is not None and any(
            (f["id"] in c["admitted"]) != (g["id"] in c["admitted"])
            for f in c["funcs"] for g in c["funcs"]
            if f["id"] < g["id"] and f["module"] == g["module"] != "__main__" and f["co_name"] == g["co_name"]))
    samples = [{"co_filename": c["raw"], "resolved": c["resolved"], "env": c["env"], "impl": c["impl"], "code_objects": c["n_code"]}
               for c in (fcases[:1] + [c for c in fcases if c["kind"] == "user" and c["env"]][:1])]
    if ecases:
        c = ecases[0]
        samples.append({"cmd": c["cmd"], "admitted": c["admitted"], "rows": c["rows"],
                        "funcs": [f"{f['id']}={f['module']}.{f['qualname']}" for f in c["funcs"]]})
    return {
        "evaluations": st["filter_calls"] + len(lcases) + len(ecases),
        "distinct_nontrivial": distinct + len({common.digest(t) for t in lterms}) + len(ecases),
        "rule": "every code object (recursing co_consts) of library source files compiled without execution "
                f"({'a seeded sample of about 20k' if quick else 'all'}), of the modules this interpreter has imported (incl. frozen), of "
                "generated user modules named absolutely / relatively / with '..' / through file, directory, relative, chained, "
                "dangling and looping symlinks and symlinks into the stdlib, synthetic and edge names; each under "
                "MONKEYTYPE_TRACE_MODULES unset and allow-lists of 0..3 names (lru_cache cleared in between; per file all code "
                f"objects when unset, {'up to 4' if quick else 'all'} per allow-list); identical code compiled under a library and a user "
                "file name asked in both orders; one process in which MONKEYTYPE_TRACE_MODULES runs through several non-empty values, back and "
                "unset with no cache clearing, the same files judged at every step against the value in force; random log/flush sequences over 14 module names into the real CallTraceStoreLogger; "
                "generated programs (call DAG over a script and two modules; methods `run` of two classes, module functions and nested "
                "functions sharing a bare name within one file, custom filters by co_qualname deciding differently for them and answering yes/no as bool / int / str / None / "
                "re.Match / list; nested monkeytype.trace() sessions; traced blocks left normally, by sys.exit(0/3) or by an exception after the calls; "
                "configs whose store queues the batch object and writes it when asked at the end; one file loaded twice, as __main__ "
                "and under its own name, the same functions called in both copies in three orders; configs with max_typed_dict_size 3 and one function called with "
                "several differently shaped dicts in one session; two sessions in one process with monkeytype_config becoming "
                "importable in between, and with MT_DB_PATH changed between two sessions of one DefaultConfig object, one database per "
                "session) through `monkeytype run` / monkeytype.trace(config) "
                "with custom filters over random subsets, DefaultConfig and allow-lists into a SQLite store. Evaluations = real "
                "filter calls + logger cases + programs; non-trivial = distinct (file, allow-list, answer) cases whose path has more "
                "than two components + distinct logger cases + programs",
        "samples": samples, "distribution": dist, "failures": failures, "mismatches": mismatches,
        "relation": "verdict_filter / verdict_logger / verdict_e2e (Check/FilterCases.v)",
        "exhaustive": not quick,
        "extra": {"lib_paths": flt["roots_str"], "coq_cases": {"filter": len(fterms), "logger": len(lterms), "e2e": len(eterms)}},
    }


REPLAY = r'''
import json, os, sys, types
from monkeytype.config import default_code_filter
p = json.load(open(sys.argv[1]))
src = "def same(x):\n    return x\n"
def fn(name):
    return [k for k in compile(src, name, "exec").co_consts if isinstance(k, types.CodeType)][0]
if p.get("env") is None: os.environ.pop("MONKEYTYPE_TRACE_MODULES", None)
else: os.environ["MONKEYTYPE_TRACE_MODULES"] = p["env"]
target = p["co_filename"]
primer = p.get("primed_by") or (os.path.join(p["lib_paths"][-1], "json", "decoder.py") if p.get("impl") is False
                                else "/nonexistent_user_dir/decoder.py")
default_code_filter.cache_clear()
print("asked first  :", primer, "->", default_code_filter(fn(primer)))
print("asked second :", target, "->", default_code_filter(fn(target)), "(identical code object contents, other file)")
default_code_filter.cache_clear()
print("asked alone  :", target, "->", default_code_filter(fn(target)))
'''


REPLAY_HISTORY = r'''
import json, os, sys
from monkeytype.config import default_code_filter
p = json.load(open(sys.argv[1]))
code = compile("def f(x):\n    return x\n", p["co_filename"], "exec")
default_code_filter.cache_clear()
for env in p["env_history"]:
    if env is None: os.environ.pop("MONKEYTYPE_TRACE_MODULES", None)
    else: os.environ["MONKEYTYPE_TRACE_MODULES"] = env
    print("MONKEYTYPE_TRACE_MODULES =", repr(env), "->", default_code_filter(code))
default_code_filter.cache_clear()
print("asked afresh under the last value ->", default_code_filter(code))
'''


def replay(ctx, payload):
    """re-run one stored case against the implementation"""
    print("what:", payload.get("what"))
    if payload.get("stream") == "default_code_filter" and payload.get("env_history"):
        path = os.path.join(ctx.work, "payload.json")
        json.dump(payload, open(path, "w"), default=str)
        p = subprocess.run([common.PY, "-c", REPLAY_HISTORY, path], env=common.sub_env(), capture_output=True, text=True, cwd=ctx.work)
        print(p.stdout + p.stderr[-800:])
        print("model / specification: the answer is the one for the value in force at the time of the call "
              "(Props/C17.v default_filter_spec); term:", payload.get("term"))
        return 0
    if payload.get("stream") == "default_code_filter":
        path = os.path.join(ctx.work, "payload.json")
        json.dump(payload, open(path, "w"), default=str)
        p = subprocess.run([common.PY, "-c", REPLAY, path], env=common.sub_env(), capture_output=True, text=True, cwd=ctx.work)
        print(p.stdout + p.stderr[-800:])
        print("model / specification: the answer depends on co_filename only (Props/C17.v default_filter_spec); term:", payload.get("term"))
        return 0
    if payload.get("stream") == "end-to-end":
        d = os.path.join(ctx.work, "replay")
        os.makedirs(d)
        for n, s in payload.get("sources", {}).items():
            open(os.path.join(d, n), "w").write(s.replace(os.path.dirname(payload["cmd"].split()[-1]) or "\0", d))
        print("sources written to", d, "; command:", payload["cmd"], "; rows observed then:", payload.get("rows"))
        return 0
    print(json.dumps(payload, indent=1, default=str)[:4000])
    return 0


CLAIM = {'note': 'Trusted: Coq kernel + vm_compute; harness reifiers; os.path.realpath/pathlib.resolve and sysconfig enter as '
                 'inputs; CPython event delivery and get_func (C02) behind the gate are exercised end to end, not proved here.',
         'ref': '4/C17',
         'technique': 'Coq proof (induction over roots, histories, trace lists; iff with a declarative path specification) + '
                      'vm_compute differential correspondence over enumerated code objects and generated programs',
         'text': 'Coq theorems default_filter_spec (model of default_code_filter = declarative spec over library roots, allow-lists, '
                 'stem/parts, for all inputs), filter_gate / filter_gate_history / filter_gate_logged (rejected code changes no '
                 'tracer state and reaches no logger, admitted code is delegated, for all histories), main_never_stored / '
                 'logger_history (no __main__ trace is ever handed to the store, every other one is, in order), '
                 'only_admitted_outside_main_stored (whole pipeline). Tie: the real default_code_filter on code objects of the '
                 'installed stdlib and site-packages, user modules through symlinks, synthetic names and allow-lists; the real '
                 'logger; `monkeytype run` / trace(config) of generated programs into SQLite, verdicts evaluated in Coq.'}
