(* C15 — the full completeness clause ("every stub annotation for an unannotated position is present in
   the result") is FALSE of the faithful model of today's code, in two classes (call site: libcst 1.9.0). *)
From Coq Require Import List Bool String.
From MT Require Import Apply ApplyFacts ApplyExamples.
Import ListNotations.
Open Scope list_scope.

(* kf_star_param: annotations for *args / **kwargs are never applied.  Witness: DESIGN B-13; the result is
   the abstraction of the real tool's output; excluding star parameters makes the predicate true. *)
Theorem apply_complete_full_refuted :
  exists ow stub src out,
    apply ow stub src = Some out
    /\ completeb (mk_env ow stub src) excl_none src (core src out) = false
    /\ completeb (mk_env ow stub src) excl_star src (core src out) = true.
Proof. exists false, b13_stub, b13_src, b13_out. vm_compute. repeat split; reflexivity. Qed.
Print Assumptions apply_complete_full_refuted.

(* kf_dotted_name: `Outer.Inner` on a positional-or-keyword parameter or the return becomes `Inner`, and
   `from shapes.Outer import Inner` is added; the keyword-only `b: Outer.Inner` is copied verbatim. *)
Theorem apply_complete_dotted_refuted :
  exists ow stub src out,
    apply ow stub src = Some out
    /\ completeb (mk_env ow stub src) excl_star src (core src out) = false
    /\ completeb (mk_env ow stub src) (excl_known (stub_symbols stub)) src (core src out) = true.
Proof. exists false, dot_stub, dot_src, dot_out. vm_compute. repeat split; reflexivity. Qed.
Print Assumptions apply_complete_dotted_refuted.
