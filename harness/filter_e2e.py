"""C17 end to end: generated programs run under the real `monkeytype run` / `monkeytype.trace(config)` into a scratch
SQLite store; which rows are present is compared (in Coq) with the filter and the __main__ rule.

A program = a script (its functions live in __main__), two modules a.py (imports b) and b.py with module-level
functions and methods of a class K.  Calls form a DAG (callee id > caller id), so the order in which calls start
and complete is known statically; the script additionally dumps the co_filename of every generated function."""
import ast
import json
import os
import sqlite3
import subprocess

from harness import common


def tracer_skips_trace_types():
    """does CallTracer.__call__ in the tree under test still compare co_name with "trace_types"?"""
    src = open(os.path.join(common.REPO, "monkeytype", "tracing.py")).read()
    for node in ast.walk(ast.parse(src)):
        if isinstance(node, ast.ClassDef) and node.name == "CallTracer":
            for fn in node.body:
                if isinstance(fn, ast.FunctionDef) and fn.name == "__call__":
                    return any(isinstance(c, ast.Constant) and c.value == "trace_types" for c in ast.walk(fn))
    raise RuntimeError("CallTracer.__call__ not found in monkeytype/tracing.py")


class Fn:
    def __init__(self, fid, where, name, is_method):
        self.fid = fid
        self.where = where            # "main" | "a" | "b"
        self.name = name
        self.is_method = is_method
        self.calls = []

    @property
    def qualname(self):
        return f"K.{self.name}" if self.is_method else self.name

    def ref_from(self, where):
        """expression calling this function from module `where` with argument r"""
        prefix = "" if where == self.where else self.where + "."
        if self.is_method:
            return f"{prefix}K().{self.name}(r)"
        return f"{prefix}{self.name}(r)"


def gen_program(rnd, idx, directed_trace_types=False):
    n_main = rnd.randrange(1, 4)
    n_a = rnd.randrange(2, 6)
    n_b = rnd.randrange(2, 5)
    fns = []
    for where, n in (("main", n_main), ("a", n_a), ("b", n_b)):
        for j in range(n):
            fid = len(fns)
            is_method = where != "main" and rnd.random() < 0.3
            fns.append(Fn(fid, where, f"{'m' if is_method else 'f'}{fid}", is_method))
    if directed_trace_types:
        cand = [f for f in fns if f.where == "a" and not f.is_method] or [f for f in fns if f.where == "a"]
        cand[0].is_method = False
        cand[0].name = "trace_types"
    order = {"main": 0, "a": 1, "b": 2}
    for f in fns:
        later = [g for g in fns if g.fid > f.fid and order[g.where] >= order[f.where]]
        k = rnd.choice([0, 0, 1, 1, 2])
        f.calls = [g.fid for g in rnd.sample(later, min(k, len(later)))]
    top = [rnd.randrange(len(fns)) for _ in range(rnd.randrange(2, 7))]
    if directed_trace_types:
        top.append([f.fid for f in fns if f.name == "trace_types"][0])
    return {"idx": idx, "fns": fns, "top": top}


def history(prog):
    """(event, code id, frame id) in the order CPython delivers them for the generated code"""
    H = []
    counter = [0]
    fns = prog["fns"]

    def call(fid):
        counter[0] += 1
        fr = counter[0]
        H.append(("KCall", fid, fr))
        H.append(("KOther", fid, fr))        # the len() builtin call inside the body (c_call)
        for c in fns[fid].calls:
            call(c)
        H.append(("KReturn", fid, fr))
    for t in prog["top"]:
        call(t)
    return H


def body(f, fns):
    lines = ["    r = x + len([x])"]
    for c in f.calls:
        lines.append(f"    r += {fns[c].ref_from(f.where)}")
    lines.append("    return r" if f.fid % 3 else "    return 7")   # expression / constant returns
    return "\n".join(lines)


def module_src(where, fns, imports):
    out = list(imports)
    plain = [f for f in fns if f.where == where and not f.is_method]
    meths = [f for f in fns if f.where == where and f.is_method]
    for f in plain:
        out.append(f"def {f.name}(x):\n{body(f, fns)}\n")
    if meths:
        out.append("class K:")
        for f in meths:
            b = body(f, fns).replace("\n    ", "\n        ")
            out.append(f"    def {f.name}(self, x):\n    {b}\n")
    elif where != "main":
        out.append("class K:\n    pass\n")
    return "\n".join(out) + "\n"


CFG = '''import os
from monkeytype.config import DefaultConfig
from monkeytype.db.sqlite import SQLiteStore
ADMIT = %r
class C(DefaultConfig):
    def trace_store(self):
        return SQLiteStore.make_store(%r)
    def code_filter(self):
        return lambda code: (os.path.basename(code.co_filename), code.co_qualname) in ADMIT
CONFIG = C()
'''


def run_program(rnd, workdir, prog, mode, env_names=None):
    """mode: 'run-custom' (monkeytype run, custom filter), 'trace-custom' (with monkeytype.trace(CONFIG)),
    'run-default' (DefaultConfig, optional MONKEYTYPE_TRACE_MODULES).  Returns the case dict."""
    idx = prog["idx"]
    fns = prog["fns"]
    d = os.path.join(workdir, f"e2e_{idx}")
    os.makedirs(d)
    db = os.path.join(d, "traces.sqlite3")
    names_out = os.path.join(d, "filenames.json")
    script = f"main{idx}.py"
    with open(os.path.join(d, "b.py"), "w") as f:
        f.write(module_src("b", fns, []))
    with open(os.path.join(d, "a.py"), "w") as f:
        f.write(module_src("a", fns, ["import b"]))
    calls = "\n".join(f"{'    ' if mode == 'trace-custom' else ''}r = 1; {fns[t].ref_from('main')}" for t in prog["top"])
    dump = ("import json as _j\n_j.dump({" +
            ", ".join(f"'{f.fid}': {('' if f.where == 'main' else f.where + '.') + ('K.' if f.is_method else '') + f.name}.__code__.co_filename"
                      for f in fns) + f"}}, open({names_out!r}, 'w'))\n")
    main_defs = module_src("main", fns, ["import a, b", "import json, textwrap"])
    stdlib_calls = "json.dumps({'k': [1, 2]}); textwrap.dedent('  x')\n"
    admitted = None
    if mode in ("run-custom", "trace-custom"):
        admitted = sorted(f.fid for f in fns if rnd.random() < 0.55 or f.name == "trace_types")
        base = {"main": script, "a": "a.py", "b": "b.py"}
        admit = {(base[fns[i].where], fns[i].qualname) for i in admitted}
        with open(os.path.join(d, f"cfg{idx}.py"), "w") as f:
            f.write(CFG % (admit, db))
    env = common.sub_env({"PYTHONPATH": common.REPO + os.pathsep + common.VERIF + os.pathsep + d, "MT_DB_PATH": db})
    if mode == "trace-custom":
        src = main_defs + f"import monkeytype, cfg{idx}\nwith monkeytype.trace(cfg{idx}.CONFIG):\n{calls}\n    {stdlib_calls}" + dump
        cmd = [common.PY, script]
    else:
        src = main_defs + calls + "\n" + stdlib_calls + dump
        cmd = [common.PY, "-m", "monkeytype"] + (["-c", f"cfg{idx}:CONFIG"] if mode == "run-custom" else []) + ["run", script]
    with open(os.path.join(d, script), "w") as f:
        f.write(src)
    if mode == "run-default" and env_names is not None:
        env["MONKEYTYPE_TRACE_MODULES"] = env_names
    p = subprocess.run(cmd, cwd=d, env=env, capture_output=True, text=True, timeout=120)
    err = None
    rows = []
    filenames = {}
    if p.returncode != 0 or not os.path.exists(names_out):
        err = f"program exited {p.returncode}: {p.stderr[-600:]}"
    else:
        filenames = json.load(open(names_out))
        if os.path.exists(db):
            con = sqlite3.connect(db)
            try:
                rows = [list(r) for r in con.execute("SELECT module, qualname FROM monkeytype_call_traces ORDER BY rowid")]
            finally:
                con.close()
    return {"idx": idx, "mode": mode, "env": env_names, "dir": d, "cmd": " ".join(cmd), "error": err,
            "funcs": [{"id": f.fid, "module": "__main__" if f.where == "main" else f.where, "qualname": f.qualname,
                       "co_name": f.name, "co_filename": filenames.get(str(f.fid)), "calls": f.calls} for f in fns],
            "top": prog["top"], "admitted": admitted, "history": history(prog), "rows": rows,
            "sources": {n: open(os.path.join(d, n)).read() for n in sorted(os.listdir(d)) if n.endswith(".py")}}
