(* Proofs/InferTotal.v — C04, TOTALITY: on well-formed inputs the merge never runs out of fuel and
   make_typed_dict's disjointness assert never fires; hence get_type and infer always return a type. *)
From MT Require Import Types Infer TypesFacts UnionFacts InferFacts InferSound GetTypeSound TdBounded.
From Coq Require Import Lia.

Notation keys m := (map fst m) (only parsing).

(* ---------- depth bookkeeping ---------- *)
Lemma it_depth_In x l : In x l -> depth x <= depth_list l.
Proof.
  unfold depth_list. induction l as [|y r IH]; intros H; [destruct H|]. cbn [fold_right].
  destruct H as [->|H]; [lia|]. specialize (IH H). lia.
Qed.

Lemma it_depth_list_bound l n : (forall x, In x l -> depth x <= n) -> depth_list l <= n.
Proof.
  unfold depth_list. induction l as [|y r IH]; intros H; cbn [fold_right]; [lia|].
  assert (depth y <= n) by (apply H; left; reflexivity).
  assert (fold_right (fun x n => Nat.max (depth x) n) 0 r <= n)
    by (apply IH; intros x Hx; apply H; right; exact Hx).
  lia.
Qed.

Lemma it_fields_depth (f : string * ty) l :
  In f l -> depth (snd f) <= fold_right (fun f n => Nat.max (depth (snd f)) n) 0 l.
Proof.
  induction l as [|g r IH]; intros H; [destruct H|]. cbn [fold_right].
  destruct H as [->|H]; [lia|]. specialize (IH H). lia.
Qed.

(* a field type of a TypedDict is strictly shallower than the TypedDict *)
Lemma it_field_depth x f : In f (td_req x) \/ In f (td_opt x) -> depth (snd f) < depth x.
Proof.
  destruct x; cbn [td_req td_opt]; intros [H|H]; try destruct H; cbn [depth];
    apply it_fields_depth in H; lia.
Qed.

(* ---------- make_typed_dict's assert: required and optional keys are always disjoint ---------- *)
Lemma keys_disjoint_intro (a b : list (string * list ty)) :
  (forall s, In s (keys a) -> In s (keys b) -> False) -> keys_disjoint a b = true.
Proof.
  intros H. unfold keys_disjoint. apply forallb_forall. intros e He. apply negb_true_iff.
  destruct (existsb (fun e' => String.eqb (fst e) (fst e')) b) eqn:X; [|reflexivity].
  exfalso. apply existsb_exists in X. destruct X as [e' [He' E]]. apply String.eqb_eq in E.
  apply (H (fst e)); [apply in_map; exact He|rewrite E; apply in_map; exact He'].
Qed.

Lemma NoDup_app_disjoint {A} (l1 l2 : list A) x : NoDup (l1 ++ l2) -> In x l1 -> In x l2 -> False.
Proof.
  induction l1 as [|a r IH]; intros ND H1 H2; [destruct H1|].
  cbn [app] in ND. inversion ND as [|? ? Hn ND']; subst.
  destruct H1 as [->|H1]; [apply Hn; apply in_or_app; right; exact H2|exact (IH ND' H1 H2)].
Qed.

(* A key that ends up required is a required key of EVERY input; a key that ends up optional is either
   a required key of some-but-not-all inputs (then it is not in the required map: the two are the two
   halves of one partition of a duplicate-free key map) or an old optional key of some input x (then,
   x being well formed, it is not a required key of x, hence not required everywhere). *)
Lemma merge_disjoint ts : Forall wf_ty ts ->
  keys_disjoint (required_of ts) (optional_of ts) = true.
Proof.
  intros W. apply keys_disjoint_intro. intros s Hr Ho.
  apply in_map_iff in Hr. destruct Hr as [e [Es He]].
  change (optional_of ts) with
    (add_fields (flat_map td_opt ts)
       (filter (fun e0 : string * list ty => negb (Nat.eqb (List.length (snd e0)) (List.length ts)))
               (kvmap ts []))) in Ho.
  apply keys_add_fields in Ho. destruct Ho as [Ho|Ho].
  - (* old optional key of some input x *)
    apply in_map_iff in Ho. destruct Ho as [f [Ef Hf]]. apply in_flat_map in Hf. destruct Hf as [x [Hx Hf]].
    pose proof (required_everywhere' ts W e x He Hx) as Hk. rewrite Es in Hk.
    rewrite Forall_forall in W. pose proof (W x Hx) as Wx.
    destruct x; cbn [td_req td_opt] in Hf, Hk; try (destruct Hf; fail).
    apply wf_TTypedDict in Wx. destruct Wx as [ND _].
    apply (NoDup_app_disjoint _ _ s ND Hk). rewrite <- Ef. apply in_map. exact Hf.
  - (* a required key of some, not all, inputs *)
    apply in_map_iff in Ho. destruct Ho as [e' [Es' He']]. apply filter_In in He'. destruct He' as [K' P'].
    change (required_of ts) with
      (filter (fun e0 : string * list ty => Nat.eqb (List.length (snd e0)) (List.length ts)) (kvmap ts [])) in He.
    apply filter_In in He. destruct He as [K P].
    assert (E1 : lookup_m s (kvmap ts []) = snd e).
    { apply lookup_m_NoDup; [apply (ND_kv ts)|]. rewrite <- Es. destruct e; exact K. }
    assert (E2 : lookup_m s (kvmap ts []) = snd e').
    { apply lookup_m_NoDup; [apply (ND_kv ts)|]. rewrite <- Es'. destruct e'; exact K'. }
    rewrite <- E2, E1, P in P'. discriminate P'.
Qed.

(* ---------- mapM ---------- *)
Lemma mapM_defined {A B} (f : A -> option B) l :
  (forall x, In x l -> exists y, f x = Some y) -> exists ys, mapM f l = Some ys.
Proof.
  induction l as [|a r IH]; intros H; [eexists; reflexivity|]. cbn [mapM].
  destruct (H a (or_introl eq_refl)) as [y ->].
  destruct IH as [ys ->]; [intros x Hx; apply H; right; exact Hx|]. eexists; reflexivity.
Qed.

Section Total.
Variable k : nat.

(* every collected value type is strictly shallower than the deepest input *)
Lemma entry_depth ts (W : Forall wf_ty ts) e ft :
  In e (required_of ts) \/ In e (optional_of ts) -> In ft (snd e) -> depth ft < depth_list ts.
Proof.
  intros He Hft. destruct (merge_origin ts W e ft He Hft) as [x [f [Hx [Hf <-]]]].
  pose proof (it_field_depth x f Hf). pose proof (it_depth_In x ts Hx). lia.
Qed.

(* ---------- the fuel suffices and no assert fires ---------- *)
Lemma shrink_defined f : forall ts,
  Forall wf_ty ts -> depth_list ts < f -> exists t, shrink k f ts = Some t.
Proof.
  induction f as [|f IH]; intros ts W D; [lia|]. cbn [shrink].
  destruct ts as [|t0 rest]; [eexists; reflexivity|].
  destruct (forallb is_td (t0 :: rest)) eqn:ATD.
  - (* ---- all TypedDicts ---- *)
    set (ts := t0 :: rest) in *.
    rewrite (merge_maps_pair ts). cbn iota beta.
    assert (ENT : forall e, In e (required_of ts) \/ In e (optional_of ts) ->
                    exists T, shrink k f (snd e) = Some T).
    { intros e He. apply IH; [apply (entries_wf' ts W e He)|].
      assert (depth_list (snd e) <= depth_list ts - 1); [|
        assert (1 <= depth_list ts); [|lia]].
      - apply it_depth_list_bound. intros ft Hft. pose proof (entry_depth ts W e ft He Hft). lia.
      - pose proof (it_depth_In t0 ts (or_introl eq_refl)) as Hd.
        cbn [forallb] in ATD. apply andb_prop in ATD. destruct ATD as [T0 _].
        destruct t0; try discriminate T0. cbn [depth] in Hd. lia. }
    destruct (Nat.ltb k (List.length (required_of ts) + List.length (optional_of ts))).
    + (* oversize *)
      destruct (IH (flat_map snd (required_of ts) ++ flat_map snd (optional_of ts))) as [T ST].
      * apply (all_entries_wf ts W).
      * assert (depth_list (flat_map snd (required_of ts) ++ flat_map snd (optional_of ts))
                <= depth_list ts - 1); [|
          assert (1 <= depth_list ts); [|lia]].
        -- apply it_depth_list_bound. intros ft Hft. apply in_app_or in Hft.
           destruct Hft as [Hft|Hft]; apply in_flat_map in Hft; destruct Hft as [e [He Hft]].
           ++ pose proof (entry_depth ts W e ft (or_introl He) Hft). lia.
           ++ pose proof (entry_depth ts W e ft (or_intror He) Hft). lia.
        -- pose proof (it_depth_In t0 ts (or_introl eq_refl)) as Hd.
           cbn [forallb] in ATD. apply andb_prop in ATD. destruct ATD as [T0 _].
           destruct t0; try discriminate T0. cbn [depth] in Hd. lia.
      * rewrite ST. eexists; reflexivity.
    + rewrite (merge_disjoint ts W). cbn [negb].
      destruct (mapM_defined (fun e => option_map (pair (fst e)) (shrink k f (snd e))) (required_of ts)) as [R ->].
      { intros e He. destruct (ENT e (or_introl He)) as [T ->]. eexists; reflexivity. }
      destruct (mapM_defined (fun e => option_map (pair (fst e)) (shrink k f (snd e))) (optional_of ts)) as [O ->].
      { intros e He. destruct (ENT e (or_intror He)) as [T ->]. eexists; reflexivity. }
      eexists; reflexivity.
  - destruct (forallb (fun t => py_eqb t t0) rest); [eexists; reflexivity|].
    destruct (forallb is_tlist (t0 :: rest)) eqn:AL; [|eexists; reflexivity].
    (* ---- all lists ---- *)
    destruct (IH (filter (fun a => negb (is_tany a)) (map list_arg (t0 :: rest)))) as [T ST].
    + rewrite forallb_forall in AL. rewrite Forall_forall in *. intros y Hy.
      apply filter_In in Hy. destruct Hy as [Hy _].
      apply in_map_iff in Hy. destruct Hy as [z [<- Hz]].
      pose proof (W z Hz) as Wz. pose proof (AL z Hz) as Lz. destruct z; try discriminate Lz. exact Wz.
    + rewrite forallb_forall in AL.
      assert (H0 : 1 <= depth_list (t0 :: rest)).
      { pose proof (it_depth_In t0 (t0 :: rest) (or_introl eq_refl)) as H.
        pose proof (AL t0 (or_introl eq_refl)) as L0. destruct t0; try discriminate L0. cbn [depth] in H. lia. }
      assert (H1 : depth_list (filter (fun a => negb (is_tany a)) (map list_arg (t0 :: rest)))
                   <= depth_list (t0 :: rest) - 1).
      { apply it_depth_list_bound. intros y Hy. apply filter_In in Hy. destruct Hy as [Hy _].
        apply in_map_iff in Hy. destruct Hy as [z [<- Hz]].
        pose proof (it_depth_In z _ Hz) as H. pose proof (AL z Hz) as Lz.
        destruct z; try discriminate Lz. cbn [depth list_arg] in *. lia. }
      lia.
    + rewrite ST. eexists; reflexivity.
Qed.

Theorem shrink_top_total ts : Forall wf_ty ts -> exists t, shrink_top k ts = Some t.
Proof. intros W. unfold shrink_top. apply shrink_defined; [exact W|lia]. Qed.

(* ---------- get_type ---------- *)
Definition gt_tot (v : value) : Prop := wf_valueb v = true -> exists t, get_type k v = Some t.

Lemma gt_ok_closed v : gt_ok (fun c a => N.eqb c a) k v.
Proof. apply get_type_ok. intros c. apply N.eqb_refl. Qed.

Lemma mapM_gt_total {A} (proj : A -> value) (l : list A) :
  Forall (fun a => gt_tot (proj a)) l ->
  forallb (fun a => wf_valueb (proj a)) l = true ->
  exists ts, mapM (fun a => get_type k (proj a)) l = Some ts /\ Forall wf_ty ts.
Proof.
  intros HF HW.
  destruct (mapM_defined (fun a => get_type k (proj a)) l) as [ts E].
  { rewrite Forall_forall in HF. rewrite forallb_forall in HW. intros a Ha. apply (HF a Ha). apply (HW a Ha). }
  exists ts. split; [exact E|].
  apply (mapM_gt_ok (fun c a => N.eqb c a) k proj l ts); [|exact HW|exact E].
  rewrite Forall_forall. intros a _. apply gt_ok_closed.
Qed.

Lemma seq_total es (con : ty -> ty) :
  Forall gt_tot es -> forallb wf_valueb es = true ->
  exists T0, opt_bind (mapM (get_type k) es) (fun ts => option_map con (shrink_top k ts)) = Some T0.
Proof.
  intros HF HW. destruct (mapM_gt_total (fun e => e) es HF HW) as [ts [E Wts]].
  change (mapM (get_type k) es = Some ts) in E. rewrite E. cbn [opt_bind].
  destruct (shrink_top_total ts Wts) as [T ->]. eexists; reflexivity.
Qed.

Lemma dict_total kvs (con : ty -> ty -> ty) :
  Forall (fun kv => gt_tot (fst kv) /\ gt_tot (snd kv)) kvs ->
  forallb (fun kv => wf_valueb (fst kv) && wf_valueb (snd kv)) kvs = true ->
  exists T0,
  opt_bind (mapM (fun kv => get_type k (fst kv)) kvs) (fun ks =>
  opt_bind (mapM (fun kv => get_type k (snd kv)) kvs) (fun vs =>
  opt_bind (shrink_top k ks) (fun kt => option_map (con kt) (shrink_top k vs)))) = Some T0.
Proof.
  intros HF HW.
  assert (HF1 : Forall (fun kv => gt_tot (fst kv)) kvs) by (rewrite Forall_forall in *; intros x Hx; apply HF; exact Hx).
  assert (HF2 : Forall (fun kv => gt_tot (snd kv)) kvs) by (rewrite Forall_forall in *; intros x Hx; apply HF; exact Hx).
  assert (HW1 : forallb (fun kv => wf_valueb (fst kv)) kvs = true).
  { rewrite forallb_forall in *. intros x Hx. specialize (HW x Hx). apply andb_prop in HW. tauto. }
  assert (HW2 : forallb (fun kv => wf_valueb (snd kv)) kvs = true).
  { rewrite forallb_forall in *. intros x Hx. specialize (HW x Hx). apply andb_prop in HW. tauto. }
  destruct (mapM_gt_total fst kvs HF1 HW1) as [ks [-> Wks]].
  destruct (mapM_gt_total snd kvs HF2 HW2) as [vs [-> Wvs]]. cbn [opt_bind].
  destruct (shrink_top_total ks Wks) as [kt ->]. destruct (shrink_top_total vs Wvs) as [vt ->].
  eexists; reflexivity.
Qed.

Theorem get_type_total v : wf_valueb v = true -> exists t, get_type k v = Some t.
Proof.
  change (gt_tot v).
  induction v as [c p|s|c| | |es IH|es IH|es IH|kvs IH|kvs IH] using value_ind'; intros WV;
    cbn [get_type]; try (eexists; reflexivity).
  - (* list *) cbn [wf_valueb] in WV. apply (seq_total es TList IH WV).
  - (* set *) cbn [wf_valueb] in WV. apply (seq_total es TSet IH WV).
  - (* tuple *) cbn [wf_valueb] in WV. destruct (mapM_gt_total (fun e => e) es IH WV) as [ts [E _]].
    change (mapM (get_type k) es = Some ts) in E. rewrite E. eexists; reflexivity.
  - (* dict *) cbn [wf_valueb] in WV. apply andb_prop in WV. destruct WV as [_ WV].
    destruct kvs as [|kv0 kvs0]; [eexists; reflexivity|].
    set (kvs := kv0 :: kvs0) in *.
    destruct (forallb is_strkey kvs && Nat.leb (List.length kvs) k).
    + destruct (mapM_defined (fun kv => option_map (pair (strkey kv)) (get_type k (snd kv))) kvs) as [r ->].
      { rewrite Forall_forall in IH. rewrite forallb_forall in WV. intros kv Hkv.
        destruct (IH kv Hkv) as [_ Hv]. specialize (WV kv Hkv). apply andb_prop in WV. destruct WV as [_ W2].
        destruct (Hv W2) as [t ->]. eexists; reflexivity. }
      eexists; reflexivity.
    + apply (dict_total kvs TDict IH WV).
  - (* defaultdict *) cbn [wf_valueb] in WV. apply (dict_total kvs TDefaultDict IH WV).
Qed.

(* C04, totality: inference terminates without error on every finite collection of (well-formed) values *)
Theorem infer_total vs : forallb wf_valueb vs = true -> exists t, infer k vs = Some t.
Proof.
  intros WV. unfold infer.
  destruct (mapM_gt_total (fun e => e) vs) as [ts [E Wts]]; [|exact WV|].
  { rewrite Forall_forall. intros v _. exact (get_type_total v). }
  change (mapM (get_type k) vs = Some ts) in E. rewrite E. cbn [opt_bind].
  apply (shrink_top_total ts Wts).
Qed.

End Total.

Print Assumptions shrink_top_total.
Print Assumptions get_type_total.
Print Assumptions infer_total.

(* ---------- non-vacuity (tests by computation, not theorems) ---------- *)
Open Scope string_scope.

(* a nested value at k = 2: lists of lists of dicts whose fields hold lists of dicts; the merge runs
   through the TypedDict path twice (outer a/b, inner x/y) and the list path three times *)
Definition it_deep : list value :=
  [VList [VList [VDict [(VStr "a", VList [VDict [(VStr "x", VAtom cInt 1)]]); (VStr "b", VStr "s")];
                 VDict [(VStr "a", VList [VDict [(VStr "x", VAtom cNone 0); (VStr "y", VAtom cInt 1)]])]];
          VList [VDict [(VStr "b", VAtom cInt 1)]]];
   VList [VList [VDict [(VStr "a", VList [])]]]].

Example ex_infer_total_deep :
  forallb wf_valueb it_deep = true /\
  infer 2 it_deep =
    Some (TList (TList (TTypedDict []
            [("a", TList (TTypedDict [("x", TUnion [TCls cInt; TCls cNone])] [("y", TCls cInt)]));
             ("b", TUnion [TCls cInt; TCls cStr])]))).
Proof. vm_compute. split; reflexivity. Qed.

(* the disjointness argument is exercised: the second inner list yields a TypedDict whose OLD optional
   fields contain "a", while "a" is a required field of the first inner list's TypedDict; "a" ends up
   optional only *)
Definition it_oldopt : list value :=
  [VList [VDict [(VStr "a", VAtom cInt 1); (VStr "b", VStr "s")]; VDict [(VStr "a", VAtom cInt 1)]];
   VList [VDict [(VStr "a", VAtom cInt 2)]; VDict [(VStr "b", VAtom cInt 1)]]].

Example ex_infer_total_oldopt :
  forallb wf_valueb it_oldopt = true /\
  infer 2 it_oldopt =
    Some (TList (TTypedDict [] [("a", TCls cInt); ("b", TUnion [TCls cStr; TCls cInt])])).
Proof. vm_compute. split; reflexivity. Qed.

(* the well-formedness premise of shrink_top_total is needed: a type whose required and optional key
   sets overlap makes the model's make_typed_dict assert fire *)
Example ex_shrink_top_needs_wf :
  shrink_top 2 [TTypedDict [("a", TCls cInt)] [("a", TCls cInt)]] = None.
Proof. vm_compute. reflexivity. Qed.
