(* Proofs/MergePerm.v — C04/C14: what the merged type (shrink_types) admits does not depend on the ORDER in which
   the types were seen, TypedDicts included; nor on the MULTIPLICITY of any type outside the finding class
   kf_td_under_union.  Both follow from one induction on the (common) fuel over the relation same_inputs. *)
From MT Require Import Types StubSet Infer TypesFacts UnionFacts InferFacts StubSetEquiv StubSetOrder StubSetMerge
  InferSound MergePermBase.
From Coq Require Import Lia Sorting.Permutation.

Notation keys m := (map fst m) (only parsing).

Lemma existsb_eqb_In s l : existsb (String.eqb s) l = true <-> In s l.
Proof.
  rewrite existsb_exists. split.
  - intros [x [Hx E]]. apply String.eqb_eq in E. subst. exact Hx.
  - intros H. exists s. split; [exact H|apply String.eqb_refl].
Qed.

Lemma list_arg_wf t : wf_ty t -> wf_ty (list_arg t).
Proof. destruct t; cbn; auto. Qed.

Section Rel.
Variable anyb : bool.
Variable sub : cls -> cls -> bool.
Notation mem := (member anyb sub).

(* two results: both undefined, or both defined and admitting the same values *)
Definition rel_res (a b : option ty) : Prop :=
  match a, b with
  | Some t, Some t' => forall v, mem v t = mem v t'
  | None, None => True
  | _, _ => False
  end.

Definition rel_fields (a b : option (list (string * ty))) : Prop :=
  match a, b with
  | Some R, Some R' => forall s, rel_res (lookup_f s R) (lookup_f s R')
  | None, None => True
  | _, _ => False
  end.

Lemma rel_res_trans a b c : rel_res a b -> rel_res b c -> rel_res a c.
Proof.
  destruct a, b, c; cbn [rel_res]; try tauto. intros H1 H2 v. rewrite H1. apply H2.
Qed.

Lemma rel_res_sym a b : rel_res a b -> rel_res b a.
Proof. destruct a, b; cbn [rel_res]; try tauto. intros H v. symmetry. apply H. Qed.

Section MapMRel.
Variable sh : list ty -> option ty.

Lemma mapM_pair_lookup m : forall R,
  mapM (fun e : string * list ty => option_map (pair (fst e)) (sh (snd e))) m = Some R ->
  forall s, lookup_f s R = if existsb (String.eqb s) (keys m) then sh (lookup_m s m) else None.
Proof.
  induction m as [|e r IH]; intros R H s; cbn [mapM] in H.
  - injection H as <-. reflexivity.
  - destruct (sh (snd e)) as [T|] eqn:ST; cbn [option_map] in H; [|discriminate H].
    destruct (mapM (fun e : string * list ty => option_map (pair (fst e)) (sh (snd e))) r) as [ys|] eqn:E;
      [|discriminate H].
    injection H as <-. cbn [lookup_f map existsb lookup_m fst snd].
    destruct (String.eqb s (fst e)); cbn [orb]; [symmetry; exact ST|]. apply IH. reflexivity.
Qed.

Lemma mapM_pair_None m : NoDup (keys m) ->
  mapM (fun e : string * list ty => option_map (pair (fst e)) (sh (snd e))) m = None ->
  exists s, In s (keys m) /\ sh (lookup_m s m) = None.
Proof.
  induction m as [|e r IH]; intros ND H; cbn [mapM] in H; [discriminate H|].
  inversion ND as [|? ? Hn ND']; subst.
  destruct (sh (snd e)) as [T|] eqn:ST; cbn [option_map] in H.
  - destruct (mapM (fun e : string * list ty => option_map (pair (fst e)) (sh (snd e))) r) as [ys|] eqn:E;
      [discriminate H|].
    destruct (IH ND' eq_refl) as [s [Hs Ns]]. exists s. split; [right; exact Hs|].
    cbn [lookup_m]. destruct (String.eqb_spec s (fst e)) as [E2|_]; [|exact Ns].
    exfalso. apply Hn. rewrite <- E2. exact Hs.
  - exists (fst e). split; [left; reflexivity|]. cbn [lookup_m]. rewrite String.eqb_refl. exact ST.
Qed.

Lemma mapM_pair_Some m R s : NoDup (keys m) ->
  mapM (fun e : string * list ty => option_map (pair (fst e)) (sh (snd e))) m = Some R ->
  In s (keys m) -> exists T, sh (lookup_m s m) = Some T.
Proof.
  intros ND H Hs. destruct (mapM_pair_fwd sh m R (s, lookup_m s m) H (lookup_m_In _ _ Hs)) as [T [ST _]].
  exists T. exact ST.
Qed.

(* the per-key sub-merges of two maps with the same keys, related key by key *)
Lemma mapM_rel m m' : NoDup (keys m) -> NoDup (keys m') -> (forall s, In s (keys m) <-> In s (keys m')) ->
  (forall s, In s (keys m) -> rel_res (sh (lookup_m s m)) (sh (lookup_m s m'))) ->
  rel_fields (mapM (fun e : string * list ty => option_map (pair (fst e)) (sh (snd e))) m)
             (mapM (fun e : string * list ty => option_map (pair (fst e)) (sh (snd e))) m').
Proof.
  intros ND ND' K H.
  destruct (mapM (fun e : string * list ty => option_map (pair (fst e)) (sh (snd e))) m) as [R|] eqn:E;
  destruct (mapM (fun e : string * list ty => option_map (pair (fst e)) (sh (snd e))) m') as [R'|] eqn:E';
    cbn [rel_fields].
  - intros s. rewrite (mapM_pair_lookup m R E s), (mapM_pair_lookup m' R' E' s).
    assert (X : existsb (String.eqb s) (keys m) = existsb (String.eqb s) (keys m')).
    { apply bool_eq_iff; rewrite !existsb_eqb_In; apply K. }
    rewrite <- X. destruct (existsb (String.eqb s) (keys m)) eqn:B; [|exact I].
    apply H. apply existsb_eqb_In. exact B.
  - destruct (mapM_pair_None m' ND' E') as [s [Hs Ns]]. apply K in Hs.
    destruct (mapM_pair_Some m R s ND E Hs) as [T ST]. specialize (H s Hs). rewrite ST, Ns in H. exact H.
  - destruct (mapM_pair_None m ND E) as [s [Hs Ns]].
    destruct (mapM_pair_Some m' R' s ND' E' (proj1 (K s) Hs)) as [T ST]. specialize (H s Hs). rewrite ST, Ns in H. exact H.
  - exact I.
Qed.
End MapMRel.

Lemma rel_keys R R' s : (forall s, rel_res (lookup_f s R) (lookup_f s R')) -> In s (keys R') -> In s (keys R).
Proof.
  intros H Hs. specialize (H s). destruct (lookup_f s R) as [t|] eqn:L; [eapply lookup_f_Some_key; exact L|].
  destruct (lookup_f s R') as [t'|] eqn:L'; [destruct H|]. apply lookup_f_None in L'. contradiction.
Qed.

(* two TypedDicts whose fields, read by name, admit the same values admit the same dicts *)
Lemma member_td_rel R O R' O' :
  (forall s, rel_res (lookup_f s R) (lookup_f s R')) -> (forall s, rel_res (lookup_f s O) (lookup_f s O')) ->
  forall v, mem v (TTypedDict R O) = mem v (TTypedDict R' O').
Proof.
  intros HR HO v. rewrite !member_TTypedDict. destruct v; try reflexivity. f_equal.
  - apply forallb_ext'. intros [kk vv]. cbn [fst snd]. destruct kk; try reflexivity. unfold field_ty.
    specialize (HR s). specialize (HO s).
    destruct (lookup_f s R), (lookup_f s R'); cbn [rel_res] in HR; try contradiction; [apply HR|].
    destruct (lookup_f s O), (lookup_f s O'); cbn [rel_res] in HO; try contradiction; [apply HO|reflexivity].
  - apply bool_eq_iff; rewrite !forallb_forall; intros H f Hf.
    + assert (Hk : In (fst f) (keys R)) by (apply (rel_keys R R' _ HR); apply in_map; exact Hf).
      apply in_map_iff in Hk. destruct Hk as [f0 [E0 Hf0]]. rewrite <- E0. apply H. exact Hf0.
    + assert (Hk : In (fst f) (keys R')).
      { apply (rel_keys R' R); [intros s0; apply rel_res_sym; apply HR|apply in_map; exact Hf]. }
      apply in_map_iff in Hk. destruct Hk as [f0 [E0 Hf0]]. rewrite <- E0. apply H. exact Hf0.
Qed.

Variable k : nat.

(* THE induction: with the same fuel on both sides, the two merges are both undefined or both defined and
   admit the same values *)
Lemma shrink_rel fuel : forall ts ts', Forall wf_ty ts -> same_inputs ts ts' ->
  rel_res (shrink k fuel ts) (shrink k fuel ts').
Proof.
  induction fuel as [|fuel IH]; intros ts ts' W S; [exact I|].
  pose proof (si_wf _ _ S W) as W'. pose proof (si_incl _ _ S) as [I1 I2].
  cbn [shrink]. destruct ts as [|t0 rest]; destruct ts' as [|t0' rest'].
  - intros v. reflexivity.
  - exfalso. apply (I2 t0'). left. reflexivity.
  - exfalso. apply (I1 t0). left. reflexivity.
  - rewrite <- (si_forallb is_td _ _ S). destruct (forallb is_td (t0 :: rest)) eqn:ATD.
    + (* ---- all TypedDicts ---- *)
      set (ts := t0 :: rest) in *. set (ts' := t0' :: rest') in *.
      rewrite (merge_maps_pair ts), (merge_maps_pair ts'). cbn iota beta.
      rewrite <- (required_length_same ts ts' W S), <- (optional_length_same ts ts' W S).
      destruct (Nat.ltb k (List.length (required_of ts) + List.length (optional_of ts))).
      * (* oversize: Dict[str, merge of all value types] *)
        pose proof (IH _ _ (all_entries_wf ts W) (all_values_same ts ts' W S)) as X.
        destruct (shrink k fuel (flat_map snd (required_of ts) ++ flat_map snd (optional_of ts))) as [T|];
        destruct (shrink k fuel (flat_map snd (required_of ts') ++ flat_map snd (optional_of ts'))) as [T'|];
          cbn [rel_res option_map] in *; try exact X.
        intros v. cbn [member]. destruct v; try reflexivity; apply forallb_ext'; intros kv; f_equal; apply X.
      * rewrite <- (keys_disjoint_same ts ts' W S).
        destruct (negb (keys_disjoint (required_of ts) (optional_of ts))); [exact I|].
        assert (HR : rel_fields
                  (mapM (fun e : string * list ty => option_map (pair (fst e)) (shrink k fuel (snd e))) (required_of ts))
                  (mapM (fun e : string * list ty => option_map (pair (fst e)) (shrink k fuel (snd e))) (required_of ts'))).
        { apply mapM_rel; [apply ND_required'|apply ND_required'|apply (keys_required_same ts ts' W S)|].
          intros s Hs. apply IH; [|apply (lookup_required_same ts ts' W S)].
          apply (entries_wf' ts W (s, lookup_m s (required_of ts))). left. apply lookup_m_In. exact Hs. }
        assert (HO : rel_fields
                  (mapM (fun e : string * list ty => option_map (pair (fst e)) (shrink k fuel (snd e))) (optional_of ts))
                  (mapM (fun e : string * list ty => option_map (pair (fst e)) (shrink k fuel (snd e))) (optional_of ts'))).
        { apply mapM_rel; [apply ND_optional'|apply ND_optional'|apply (keys_optional_same ts ts' W S)|].
          intros s Hs. apply IH; [|apply (lookup_optional_same ts ts' W S)].
          apply (entries_wf' ts W (s, lookup_m s (optional_of ts))). right. apply lookup_m_In. exact Hs. }
        destruct (mapM (fun e : string * list ty => option_map (pair (fst e)) (shrink k fuel (snd e))) (required_of ts)) as [R|];
        destruct (mapM (fun e : string * list ty => option_map (pair (fst e)) (shrink k fuel (snd e))) (required_of ts')) as [R'|];
          cbn [rel_fields] in HR; try contradiction;
        destruct (mapM (fun e : string * list ty => option_map (pair (fst e)) (shrink k fuel (snd e))) (optional_of ts)) as [O|];
        destruct (mapM (fun e : string * list ty => option_map (pair (fst e)) (shrink k fuel (snd e))) (optional_of ts')) as [O'|];
          cbn [rel_fields] in HO; try contradiction; cbn [rel_res]; try exact I.
        apply member_td_rel; assumption.
    + destruct (forallb (fun t => py_eqb t t0) rest) eqn:C1.
      * (* ---- all == the first, on both sides ---- *)
        destruct (all_eq_first_si t0 rest t0' rest' W S C1) as [C1' E]. rewrite C1'. cbn [rel_res]. intros v.
        destruct E as [<-|E]; [reflexivity|]. apply py_eqb_members; [inversion W|inversion W'|]; assumption.
      * destruct (forallb (fun t => py_eqb t t0') rest') eqn:C1'.
        { rewrite (all_eq_first_si_back t0 rest t0' rest' W S C1') in C1. discriminate C1. }
        rewrite <- (si_forallb is_tlist _ _ S). destruct (forallb is_tlist (t0 :: rest)) eqn:AL.
        -- (* ---- all lists: merge the element types ---- *)
           assert (S2 : same_inputs (filter (fun a => negb (is_tany a)) (map list_arg (t0 :: rest)))
                                    (filter (fun a => negb (is_tany a)) (map list_arg (t0' :: rest')))).
           { rewrite !filter_map_flat_map. apply si_flat_map; [|exact S]. intros x y T Hy.
             destruct (negb (is_tany (list_arg x))); [|destruct Hy]. destruct Hy as [<-|[]]. apply tdu_list_arg. exact T. }
           assert (W2 : Forall wf_ty (filter (fun a => negb (is_tany a)) (map list_arg (t0 :: rest)))).
           { rewrite Forall_forall in *. intros y Hy. apply filter_In in Hy. destruct Hy as [Hy _].
             apply in_map_iff in Hy. destruct Hy as [z [<- Hz]]. apply list_arg_wf. apply W. exact Hz. }
           pose proof (IH _ _ W2 S2) as X.
           destruct (shrink k fuel (filter (fun a => negb (is_tany a)) (map list_arg (t0 :: rest)))) as [T|];
           destruct (shrink k fuel (filter (fun a => negb (is_tany a)) (map list_arg (t0' :: rest')))) as [T'|];
             cbn [rel_res option_map] in *; try exact X.
           intros v. cbn [member]. destruct v; try reflexivity. apply forallb_ext'. intros e. apply X.
        -- (* ---- Union of the dict-ified members ---- *)
           cbn [rel_res].
           change (td2dict t0 :: map td2dict rest) with (map td2dict (t0 :: rest)).
           change (td2dict t0' :: map td2dict rest') with (map td2dict (t0' :: rest')).
           apply union_mk_set_members.
           ++ apply incl_map. exact I1.
           ++ apply incl_map. exact I2.
           ++ rewrite Forall_forall in *. intros y Hy. apply in_map_iff in Hy. destruct Hy as [z [<- Hz]].
              apply td2dict_wf. apply W. exact Hz.
           ++ rewrite Forall_forall in *. intros y Hy. apply in_map_iff in Hy. destruct Hy as [z [<- Hz]].
              apply td2dict_wf. apply W'. exact Hz.
Qed.

(* shrink_top computes its fuel from the depth of the inputs, which is the same for both presentations *)
Lemma shrink_top_rel ts ts' : Forall wf_ty ts -> same_inputs ts ts' ->
  rel_res (shrink_top k ts) (shrink_top k ts').
Proof. intros W S. unfold shrink_top. rewrite <- (si_depth _ _ S). apply shrink_rel; assumption. Qed.

End Rel.

(* ================= the exported statements about the merge ================= *)
Lemma rel_res_members anyb sub a b t t' :
  rel_res anyb sub a b -> a = Some t -> b = Some t' -> forall v, member anyb sub v t = member anyb sub v t'.
Proof. intros H -> ->. exact H. Qed.

Lemma rel_res_defined anyb sub a b t : rel_res anyb sub a b -> a = Some t -> exists t', b = Some t'.
Proof. intros H ->. destruct b as [t'|]; [exists t'; reflexivity|destruct H]. Qed.

(* the general form: ts' presents the inputs ts in another order, possibly with extra copies of members of ts that
   are outside the finding class *)
Theorem merge_same_inputs_members anyb sub k ts ts' t t' :
  Forall wf_ty ts -> same_inputs ts ts' ->
  shrink_top k ts = Some t -> shrink_top k ts' = Some t' ->
  forall v, member anyb sub v t = member anyb sub v t'.
Proof. intros W S. apply rel_res_members. apply shrink_top_rel; assumption. Qed.

Theorem merge_same_inputs_defined k ts ts' :
  Forall wf_ty ts -> same_inputs ts ts' ->
  (exists t, shrink_top k ts = Some t) <-> (exists t', shrink_top k ts' = Some t').
Proof.
  intros W S. pose proof (shrink_top_rel true (fun _ _ => true) k ts ts' W S) as R. split; intros [t E].
  - apply (rel_res_defined _ _ _ _ t R E).
  - apply rel_res_sym in R. apply (rel_res_defined _ _ _ _ t R E).
Qed.

(* (1) ORDER: any well-formed inputs, TypedDicts anywhere *)
Theorem merge_perm_members anyb sub k ts ts' t t' :
  Forall wf_ty ts -> Permutation ts ts' ->
  shrink_top k ts = Some t -> shrink_top k ts' = Some t' ->
  forall v, member anyb sub v t = member anyb sub v t'.
Proof. intros W P. apply merge_same_inputs_members; [exact W|apply si_perm; exact P]. Qed.

Theorem merge_perm_defined k ts ts' t :
  Forall wf_ty ts -> Permutation ts ts' -> shrink_top k ts = Some t -> exists t', shrink_top k ts' = Some t'.
Proof.
  intros W P E. apply (merge_same_inputs_defined k ts ts' W (si_perm _ _ P)). exists t. exact E.
Qed.

(* (2) MULTIPLICITY: seeing once more a type that is outside the finding class changes nothing; the other inputs
   are arbitrary (they may be in the class) *)
Theorem merge_dup_members anyb sub k ts x t t' :
  Forall wf_ty ts -> In x ts -> kf_td_under_union x = false ->
  shrink_top k ts = Some t -> shrink_top k (x :: ts) = Some t' ->
  forall v, member anyb sub v t = member anyb sub v t'.
Proof. intros W Hx T. apply merge_same_inputs_members; [exact W|apply si_dup; assumption]. Qed.

Theorem merge_dup_defined k ts x :
  Forall wf_ty ts -> In x ts -> kf_td_under_union x = false ->
  (exists t, shrink_top k ts = Some t) <-> (exists t', shrink_top k (x :: ts) = Some t').
Proof. intros W Hx T. apply merge_same_inputs_defined; [exact W|apply si_dup; assumption]. Qed.

(* ... hence, when no input is in the class, the result depends only on the SET of inputs
   (this contains C14's merge_tdfree_set_partial: TypedDict-free types are well formed and outside the class) *)
Lemma si_absorb ts ts' : incl ts' ts -> Forall (fun t => kf_td_under_union t = false) ts' -> same_inputs ts (ts ++ ts').
Proof. intros I F. exists ts'. split; [apply Permutation_refl|]. split; assumption. Qed.

Theorem merge_set_members anyb sub k ts ts' t t' :
  Forall wf_ty ts -> Forall (fun t => kf_td_under_union t = false) ts ->
  incl ts ts' -> incl ts' ts ->
  shrink_top k ts = Some t -> shrink_top k ts' = Some t' ->
  forall v, member anyb sub v t = member anyb sub v t'.
Proof.
  intros W F I1 I2. apply rel_res_members.
  assert (W' : Forall wf_ty ts') by (rewrite Forall_forall in *; auto).
  assert (F' : Forall (fun t => kf_td_under_union t = false) ts') by (rewrite Forall_forall in *; auto).
  apply (rel_res_trans _ _ _ (shrink_top k (ts ++ ts'))).
  - apply shrink_top_rel; [exact W|apply si_absorb; assumption].
  - apply (rel_res_trans _ _ _ (shrink_top k (ts' ++ ts))).
    + apply shrink_top_rel; [apply Forall_app; split; assumption|apply si_perm; apply Permutation_app_comm].
    + apply rel_res_sym. apply shrink_top_rel; [exact W'|apply si_absorb; assumption].
Qed.

Theorem merge_set_defined k ts ts' t :
  Forall wf_ty ts -> Forall (fun t => kf_td_under_union t = false) ts ->
  incl ts ts' -> incl ts' ts -> shrink_top k ts = Some t -> exists t', shrink_top k ts' = Some t'.
Proof.
  intros W F I1 I2 E.
  assert (W' : Forall wf_ty ts') by (rewrite Forall_forall in *; auto).
  assert (F' : Forall (fun t => kf_td_under_union t = false) ts') by (rewrite Forall_forall in *; auto).
  apply (merge_same_inputs_defined k ts' (ts' ++ ts) W' (si_absorb _ _ I1 F)).
  apply (merge_same_inputs_defined k (ts ++ ts') (ts' ++ ts)
           (proj2 (Forall_app _ _ _) (conj W W')) (si_perm _ _ (Permutation_app_comm _ _))).
  apply (merge_same_inputs_defined k ts (ts ++ ts') W (si_absorb _ _ I2 F')). exists t. exact E.
Qed.

(* the class is exactly where Python's == on typing objects stops being reflexive *)
Theorem py_eqb_refl_iff_not_in_class t : wf_ty t -> (py_eqb t t = true <-> kf_td_under_union t = false).
Proof. apply py_eqb_refl_iff. Qed.

Theorem tdfree_outside_class t : has_td t = false -> kf_td_under_union t = false.
Proof. apply tdfree_not_tdu. Qed.
