"""C09 worker processes (run as `python -m harness.store_worker <mode> ...` with env=common.sub_env()):
writer / reader for the concurrency campaign, selfkill / victim for the SIGKILL campaign."""
import json
import os
import signal
import sqlite3
import sys
import time


def _store(path, cache=None):
    from monkeytype.db.sqlite import SQLiteStore
    store = SQLiteStore.make_store(path)
    if cache:
        store.conn.execute(f"PRAGMA cache_size={int(cache)}")   # tiny page cache: the insert spills to the file before commit
    return store


def main(argv):
    from harness import store_model as sm
    sm.quiet()
    mode = argv[0]
    if mode == "writer":
        path, wid, nb, t0 = argv[1], int(argv[2]), int(argv[3]), float(argv[4])
        time.sleep(max(0.0, t0 - time.time()))
        out = []
        try:
            store = _store(path)
        except Exception as e:
            print(json.dumps({"open_error": f"{type(e).__name__}: {e}", "status": []}))
            return 0
        for j in range(nb):
            traces = [sm.build_trace(s) for s in sm.writer_batch(wid, j)]
            try:
                store.add(traces)
                out.append("ok")
            except Exception as e:
                out.append(f"raised {type(e).__name__}: {e}")
        print(json.dumps({"status": out}))
        return 0
    if mode == "reader":
        path, t0, nsnap = argv[1], float(argv[2]), int(argv[3])
        time.sleep(max(0.0, t0 - time.time()))
        snaps = []
        store = None
        for i in range(nsnap):
            try:
                if store is None:
                    store = _store(path)
                m = sm.MODULES[i % 2]
                p = [None, "my_func", "foo", "a%b", "my"][i % 5]
                if i % 4 == 3:
                    snaps.append({"k": "mods", "mods": store.list_modules()})
                else:
                    rs = store.filter(m, p, 2000)
                    snaps.append({"k": "rows", "m": m, "p": p, "n": 2000,
                                  "rows": [[r.module, r.qualname, r.arg_types, r.return_type, r.yield_type] for r in rs]})
            except Exception as e:
                snaps.append({"k": "raised", "err": f"{type(e).__name__}: {e}"})
            time.sleep(0.004)
        print(json.dumps({"snaps": snaps}))
        return 0
    if mode == "selfkill":
        path, k, cache, wide, n_rows = argv[1], int(argv[2]), int(argv[3]), int(argv[4]), int(argv[5])
        store = _store(path, cache)
        a, b = sm.kill_batches(wide, n_rows)
        store.add([sm.build_trace(s) for s in a])
        print("OK A", flush=True)
        calls = [0]

        def handler():
            calls[0] += 1
            if calls[0] == k:
                os.kill(os.getpid(), signal.SIGKILL)
            return 0
        store.conn.set_progress_handler(handler, 1)
        store.add([sm.build_trace(s) for s in b])
        store.conn.set_progress_handler(None, 1)
        print(f"OK B {calls[0]}", flush=True)
        return 0
    if mode == "spillkill":
        # dies as soon as the database file has grown by `grow` bytes, i.e. strictly inside the big insert, after
        # SQLite had to write pages of the uncommitted batch over / behind committed pages of the file
        path, grow = argv[1], int(argv[2])
        store = _store(path)
        a, b = sm.spill_batches()
        store.add([sm.build_trace(s) for s in a])
        traces = [sm.build_trace(s) for s in b]
        base = os.path.getsize(path)
        print(f"OK A {base}", flush=True)

        def handler():
            if os.path.getsize(path) > base + grow:
                os.kill(os.getpid(), signal.SIGKILL)
            return 0
        store.conn.set_progress_handler(handler, 500)
        store.add(traces)
        print("OK B", flush=True)
        return 0
    if mode == "victim":
        path, cache, wide, n_rows = argv[1], int(argv[2]), int(argv[3]), int(argv[4])
        store = _store(path, cache)
        a, b = sm.kill_batches(wide, n_rows)
        store.add([sm.build_trace(s) for s in a])
        traces = [sm.build_trace(s) for s in b]
        first = [True]

        def handler():       # tells the parent when the INSERT has really begun (serialisation is over)
            if first[0]:
                first[0] = False
                print("START", flush=True)
            return 0
        store.conn.set_progress_handler(handler, 40)
        store.add(traces)
        print("DONE", flush=True)
        time.sleep(5)
        return 0
    raise SystemExit(f"unknown mode {mode}")


if __name__ == "__main__":
    sys.exit(main(sys.argv[1:]))
