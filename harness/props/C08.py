"""C08 — types and call traces survive serialisation unchanged."""
import collections
import copy
import json
import os
import random

from harness import common, encode_fixture, encode_json as ej, infer_cases, typegen
from harness.valgen import ValGen

COQ_TARGETS = ["Check/EncodeCases.vo"]
TRUSTED_BASE = [
    "Python's json module (text <-> tree); the model works on the tree, keys sorted as json.dumps(sort_keys=True) does",
    "the live name-resolution environment handed to the model as a table (importlib + getattr walk, re-implemented in "
    "harness/encode_json.py, independent of util.get_name_in_module) and the reification of looked-up objects",
    "typing's Union normalisation / == / hash as modelled in Model/Types.v (union_mk, py_eqb, has_td)",
    "mypy_extensions.TypedDict records the calling module as __module__ (the `site` parameter of the model)",
]
ASSUMPTIONS = [
    "every Union node of an input type is in typing's normal form (>= 2 members, none a Union, no == duplicates): "
    "checked per case by union_nfb; true of every live typing object",
    "TypedDict field names are pairwise distinct (Python dict keys)",
    "all TypedDict classes below one encoded type were constructed in one module (same_site); fresh and rewritten "
    "types: monkeytype.typing, decoded types: monkeytype.encoding",
]
PARTIAL = ["that every type the tracer stores (an output of get_type) satisfies `inferable` is a theorem of the composition "
           "(get_type_inferable, Props/C01.v); for the other type streams of this tie (rewriter outputs, generated types) it is "
           "checked per case by union_nfb/wf_tyb in the verdict (code 3 otherwise)",
           "the decoder's behaviour on malformed dicts (which exception is raised) is tied by the decoder edge stream only; "
           "no theorem is stated about it (C10 owns stale rows)"]

SITE_FRESH = "monkeytype.typing"
SITE_DECODED = "monkeytype.encoding"

HEADER = """From MT Require Import EncodeCases.
Open Scope string_scope. Open Scope list_scope.
%s
Definition cn_tbl : name_tbl := %s.
Definition fn_tbl : name_tbl := %s.
Definition hid_t : hid_tbl := %s.
Definition W : world := World cn_tbl fn_tbl
  %s
  hid_t.
(* the import environment after importlib.reload of the fixture module *)
Definition W2 : world := World cn_tbl fn_tbl
  %s
  hid_t.
"""


# ----------------------------------------------------------------------------------------------
# type stream
# ----------------------------------------------------------------------------------------------
def fixture_values(mod, rnd):
    """Values built from the fixture package's classes: instances, class objects, nested classes, and the
    classes whose own name does not lead back to them."""
    K = mod.K
    good = [K(), K.Inner(), K.Inner.Deep(), mod.Sub(), mod.Plain(), K, K.Inner, K.Inner.Deep, mod.Sub]
    good += [S() for S in mod.SENTINELS] + list(mod.SENTINELS)
    good += list(mod.TYPING_TDS)                       # typing.TypedDict classes passed around as values
    bad = [c() for c, ok in mod.CLASSES.values() if not ok] + [c for c, ok in mod.CLASSES.values() if not ok]
    out = []
    for pool in (good, good + bad):
        for _ in range(40):
            a, b, c = (rnd.choice(pool) for _ in range(3))
            out.append(rnd.choice([
                [a], [a, b], (a, b), {"x": a, "y": [b]}, {"k": {"in": a}, "l": (b, c)}, {1: a, 2: b},
                collections.defaultdict(int, {"d": a}), [(a, [b]), (c, [])], {"p": a, "q": None, "r": [c, None]},
                [{"a": a}, {"a": b, "b": c}],
            ]))
        out += [[x] for x in pool]
    return out


def sentinel_types(mod):
    """User classes named like the hidden builtins (and nested controls), alone and under List / Dict / Optional /
    Type / Union / a TypedDict."""
    from typing import Dict, List, Optional, Type, Union
    out = []
    for S in list(mod.SENTINELS) + list(mod.ATTR_CLASSES) + [mod.CLASSES["Caf\u00e9"][0]] + list(mod.TYPING_TDS):
        out += [S, List[S], Dict[str, S], Optional[S], Type[S], Union[S, int], Dict[str, List[Optional[S]]],
                typegen.make_td({"a": S}, {"b": Type[S]})]
    return out


# str keys beyond ASCII (accented, CJK, astral, lone surrogates as os.fsdecode produces for non-UTF-8 file names).
# Within one dict the keys differ in their first (ASCII) character, so that Python's code-point order and the order of
# the escaped Gallina literals agree.
UNICODE_DICTS = [
    {"a": 1, "b_\u00e9": "x"}, {"d_\u6f22": [1], "z": None}, {"f_\U0001f600": {"g_\u00e9": 1}},
    {"caf\udce9.txt": 1, "a": 2}, {"h_\udc80": (1,), "m": 2.0}, {"\u00e9": 1}, {"\U0001f600": [None]},
    {"k_\u00e9\u6f22\U0001f600\udcff": 1, "j": {"caf\udce9.txt": "s"}},
]


def unicode_types():
    from monkeytype.typing import get_type, shrink_types
    out = []
    for d in UNICODE_DICTS:
        for v in (d, [d], {"outer": d}, (d, 1)):
            out.append(get_type(v, 10))
    out.append(shrink_types([get_type(UNICODE_DICTS[0], 10), get_type({"a": 1}, 10)], 10))     # optional non-ASCII key
    return out


# str keys that are keyword parameters of the functions that BUILD a TypedDict: keys like any other
RESERVED_KEY_DICTS = [
    {"total": 1, "a": "s"}, {"total": True}, {"cls": 1, "name": "s"}, {"_typename": "s", "_fields": [1]}, {"fields": {"total": 1}},
    {"bases": (1,), "ns": None, "self": 2.0}, {"typename": 1, "total": {"cls": {"_fields": 1}}}, {"name": 1, "kwargs": 2, "args": 3},
]


def reserved_key_types(rnd):
    from monkeytype.typing import get_type, shrink_types
    out = []
    for d in RESERVED_KEY_DICTS:
        for v in (d, [d], {"outer": d}, (d, 1), {1: d}):
            out.append(get_type(v, 10))
    # optional reserved keys
    out.append(shrink_types([get_type({"a": 1, "total": 2}, 10), get_type({"a": 1}, 10)], 10))
    out.append(shrink_types([get_type({"cls": 1, "_fields": 2}, 10), get_type({"cls": 1}, 10), get_type({"cls": 2, "total": "s"}, 10)], 10))
    for k, vs in infer_cases.reserved_keys(rnd, 40):
        try:
            out.append(infer_cases.impl_infer(vs, k))
        except Exception:
            pass
    return out


def twin_types(mod):
    """Classes with the same qualname in two modules of the fixture package, decoded in one process in both orders:
    User / K / K.Inner / Plain: c08fx.mod first; Account / Ledger.Entry / K.Inner.Deep: c08fx.other first."""
    from typing import Dict, List, Optional, Type
    o = mod.OTHER
    seq = [mod.User, o.User, mod.K, o.K, mod.K.Inner, o.K.Inner, mod.Plain, o.Plain,
           o.Account, mod.Account, o.Ledger.Entry, mod.Ledger.Entry, o.K.Inner.Deep, mod.K.Inner.Deep]
    out = []
    for C in seq:
        out += [C, List[C], Type[C], Dict[str, Optional[C]], typegen.make_td({"a": C})]
    out += [Dict[mod.User, o.User], Optional[o.User], typegen.make_td({"m": mod.K.Inner, "o": o.K.Inner})]
    from typing import Union
    out += [Union[mod.User, o.User], Union[o.Account, mod.Account, int]]
    return out


# str keys that are instances of str SUBCLASSES with their own __str__ / __repr__ / __hash__: as dict keys (and as
# TypedDict field names, and in JSON) they are the strings they ARE, not what str() / repr() print
import enum


class Color(str, enum.Enum):
    RED = "red"
    GREEN = "green"


class Shouty(str):
    def __str__(self):
        return self.upper() + "!"

    def __repr__(self):
        return "<shouty>"


class HashCompat(str):
    def __hash__(self):
        return str.__hash__(self)

    def __eq__(self, other):
        return str.__eq__(self, other)

    def __str__(self):
        return "hc:" + str.__str__(self)


STR_SUBCLASS_DICTS = [
    {Color.RED: 1, Color.GREEN: "x"}, {Color.RED: [1], "blue": None}, {Shouty("a"): 1, "b": 2.0}, {Shouty("only"): (1,)},
    {HashCompat("h"): 1, HashCompat("i"): {Color.GREEN: 2}}, {"plain": {Shouty("deep"): {Color.RED: 1}}},
]


def str_subclass_types():
    from monkeytype.typing import get_type, shrink_types
    out = []
    for d in STR_SUBCLASS_DICTS:
        for v in (d, [d], {"outer": d}, (d, 1)):
            out.append(get_type(v, 10))
    out.append(shrink_types([get_type({Color.RED: 1, Color.GREEN: 2}, 10), get_type({Color.RED: 1}, 10)], 10))   # optional
    return out


def required_and_optional_types():
    """TypedDicts with BOTH required and optional fields (merges of dicts with different key sets), also nested"""
    from monkeytype.typing import get_type, shrink_types
    out = []
    pairs = [({"a": 1, "b": "s"}, {"a": 2}), ({"a": 1, "z": None, "m": [1]}, {"m": [2], "k": 1.5}),
             ({"r": {"x": 1, "y": 2}}, {"r": {"x": 3}}), ({"q": 1, "o": (1,)}, {"q": 2}), ({"only": 1}, {"only": 2, "extra": "s"})]
    for d1, d2 in pairs:
        for wrap in (lambda d: d, lambda d: [d], lambda d: {"outer": d}, lambda d: (d, 1)):
            out.append(shrink_types([get_type(wrap(d1), 10), get_type(wrap(d2), 10)], 10))
    return out


def rewriters():
    from monkeytype import typing as mt
    return [("RemoveEmptyContainers", mt.RemoveEmptyContainers()), ("RewriteConfigDict", mt.RewriteConfigDict()),
            ("RewriteLargeUnion(2)", mt.RewriteLargeUnion(2)), ("RewriteLargeUnion(5)", mt.RewriteLargeUnion(5)),
            ("RewriteGenerator", mt.RewriteGenerator()), ("RewriteMostSpecificCommonBase", mt.RewriteMostSpecificCommonBase()),
            ("RewriteAnonymousTypedDictToDict", mt.RewriteAnonymousTypedDictToDict()),
            ("DEFAULT_REWRITER", mt.DEFAULT_REWRITER)]


def type_pool(ctx, rnd, mod):
    """[(type object, site, origin)] — not yet de-duplicated."""
    quick = ctx.tier == "quick"
    out = []
    for t in twin_types(mod):                          # first: the decode ORDER of the twins is part of the case
        out.append((t, SITE_FRESH, "same qualname in two modules"))
    g = ValGen(rnd)
    n_sets = 140 if quick else 2500
    sets = [g.values() for _ in range(n_sets)]
    fv = fixture_values(mod, rnd)
    sets += [[v] for v in fv] + [[rnd.choice(fv), rnd.choice(fv)] for _ in range(60 if quick else 600)]
    for vs in sets:
        for k in infer_cases.KS:                      # "all k"
            try:
                out.append((infer_cases.impl_infer(vs, k), SITE_FRESH, f"inferred k={k}"))
            except Exception:
                pass                                   # C04's business
    for t in typegen.type_stream(rnd, 250 if quick else 5000):
        out.append((t, SITE_FRESH, "grammar"))
    for t in sentinel_types(mod):
        out.append((t, SITE_FRESH, "namesake or attribute-exposing class"))
    for t in unicode_types():
        out.append((t, SITE_FRESH, "non-ASCII keys"))
    for t in str_subclass_types():
        out.append((t, SITE_FRESH, "str-subclass keys"))
    for t in required_and_optional_types():
        out.append((t, SITE_FRESH, "required and optional fields"))
    for t in reserved_key_types(rnd):
        out.append((t, SITE_FRESH, "TypedDict keys named like TypedDict() parameters"))
    base = list(out)
    rws = rewriters()
    step = 3 if quick else 1
    for i, (t, _, origin) in enumerate(base):
        for j, (name, rw) in enumerate(rws):
            if (i + j) % step and name != "DEFAULT_REWRITER":
                continue
            try:
                r = rw.rewrite(t)
            except Exception:
                continue                               # C07's business
            if r is not t:
                out.append((r, SITE_FRESH, "rewritten by " + name))
    return out


# ----------------------------------------------------------------------------------------------
# decoder edge stream
# ----------------------------------------------------------------------------------------------
def type_nodes(x, path, out):
    if isinstance(x, dict):
        if "module" in x:
            out.append(path)
        for k, v in x.items():
            type_nodes(v, path + [k], out)
    elif isinstance(x, list):
        for i, v in enumerate(x):
            type_nodes(v, path + [i], out)


def get_at(x, path):
    for p in path:
        x = x[p]
    return x


INT = {"module": "builtins", "qualname": "int"}


def mutate(tree, rnd):
    """One in-model mutation of a real encoding; returns (tree', label) or None."""
    t = copy.deepcopy(tree)
    nodes = []
    type_nodes(t, [], nodes)
    node = get_at(t, rnd.choice(nodes))
    is_td = bool(node.get("is_typed_dict"))
    if is_td:
        m = rnd.choice(["del_module", "del_qualname", "td_del_elems", "td_elems_list", "td_flag_false", "td_field_str",
                        "td_flag_null"])
    else:
        m = rnd.choice(["del_module", "del_qualname", "bad_qualname", "bad_module", "not_a_type", "special_form",
                        "drop_elem", "dup_elem", "elem_str", "elems_on_class", "elem_null"])
    if m == "del_module":
        del node["module"]
    elif m == "del_qualname":
        del node["qualname"]
    elif m == "bad_qualname":
        node["qualname"] = "c08_no_such_name"
    elif m == "bad_module":
        node["module"] = "c08_no_such_module"
    elif m == "not_a_type":
        node["module"], node["qualname"] = "builtins", "len"
    elif m == "special_form":
        node["module"], node["qualname"] = "typing", "Optional"
    elif m in ("drop_elem", "dup_elem", "elem_str", "elem_null"):
        es = node.get("elem_types")
        if not isinstance(es, list):
            return None
        if m == "drop_elem":
            if not es:
                return None
            es.pop(rnd.randrange(len(es)))
        elif m == "dup_elem":
            es.append(dict(INT))
        elif m == "elem_str":
            if not es:
                return None
            es[rnd.randrange(len(es))] = rnd.choice(["int", None, [dict(INT)], True])
        else:
            if node.get("qualname") != "Callable":
                return None
            node["elem_types"] = None
    elif m == "elems_on_class":
        if "elem_types" in node:
            return None
        node["elem_types"] = [dict(INT)]
    elif m == "td_del_elems":
        del node["elem_types"]
    elif m == "td_elems_list":
        node["elem_types"] = rnd.choice([[], None, "x"])
    elif m == "td_flag_false":
        node["is_typed_dict"] = False
    elif m == "td_flag_null":
        node["is_typed_dict"] = None
    elif m == "td_field_str":
        fs = node["elem_types"]
        if not fs:
            return None
        fs[rnd.choice(list(fs))] = rnd.choice(["int", None, []])
    return t, m


DIRECTED_DECODE = [
    {"module": "typing", "qualname": "List", "elem_types": []},
    {"module": "typing", "qualname": "List", "elem_types": [INT, INT]},
    {"module": "typing", "qualname": "Dict", "elem_types": [INT]},
    {"module": "typing", "qualname": "Union", "elem_types": []},
    {"module": "typing", "qualname": "Union", "elem_types": [INT]},
    {"module": "typing", "qualname": "Union", "elem_types": [INT, INT]},
    {"module": "typing", "qualname": "Union", "elem_types": [INT, {"module": "typing", "qualname": "Union", "elem_types": [
        {"module": "builtins", "qualname": "str"}, INT]}]},
    {"module": "typing", "qualname": "Tuple", "elem_types": []},
    {"module": "typing", "qualname": "Generator", "elem_types": [INT]},
    {"module": "typing", "qualname": "Type", "elem_types": [INT, INT]},
    {"module": "typing", "qualname": "Iterator", "elem_types": []},
    {"module": "typing", "qualname": "Any", "elem_types": [INT]},
    {"module": "typing", "qualname": "Callable"},
    {"module": "typing", "qualname": "Callable", "elem_types": None},
    {"module": "typing", "qualname": "Callable", "elem_types": []},
    {"module": "builtins", "qualname": "int", "elem_types": [INT]},
    {"module": "builtins", "qualname": "len"},
    {"module": "builtins", "qualname": "nope"},
    {"module": "builtins", "qualname": "NoneType"},
    {"module": "builtins", "qualname": "NotImplementedType"},
    {"module": "builtins", "qualname": "mappingproxy"},
    {"module": "types", "qualname": "NoneType"},
    {"module": "nope_mod", "qualname": "x"},
    {"qualname": "x"},
    {"module": "x"},
    {},
    {"module": "typing", "qualname": "Optional", "elem_types": [INT]},
    {"module": "typing", "qualname": "Set", "elem_types": [{"module": "builtins", "qualname": "nope"}, INT]},
    {"module": "m", "qualname": "X", "is_typed_dict": True},
    {"module": "m", "qualname": "X", "is_typed_dict": False, "elem_types": {"a": INT}},
    "str", [1], None, True,
]


# ----------------------------------------------------------------------------------------------
def run(ctx):
    from monkeytype.encoding import CallTraceRow, type_from_json, type_to_json
    from monkeytype.tracing import CallTrace
    rnd = random.Random(ctx.seed + 8)
    quick = ctx.tier == "quick"
    ct = common.ClassTable()
    ft = ej.FuncTable()
    it = ej.Interner()
    names = set()
    mod = encode_fixture.build(ctx.work)
    try:
        return _run(ctx, rnd, quick, ct, ft, it, names, mod, CallTraceRow, CallTrace, type_from_json, type_to_json)
    finally:
        encode_fixture.teardown(ctx.work)


def _encode(type_to_json, t, it, names):
    try:
        text = type_to_json(t)
    except Exception as e:
        return None, ej.exn_term(e), f"{type(e).__name__}: {e}"
    tree = json.loads(text)
    ej.walk_names(tree, names)
    return text, f"(Ok {ej.json_term(tree, it)})", None


def _run(ctx, rnd, quick, ct, ft, it, names, mod, CallTraceRow, CallTrace, type_from_json, type_to_json):
    dist = collections.Counter()
    cases = []          # dicts: term, kind, desc, nontrivial, digest-key

    # ------------------------------ types ------------------------------
    pool = type_pool(ctx, rnd, mod)
    dist["type_pool_raw"] = len(pool)
    seen = set()
    decoded_pool = []
    for t, site, origin in pool:
        try:
            t_term = common.reify_type(t, ct)
        except RecursionError:
            continue
        key = (site, t_term)
        if key in seen:
            continue
        seen.add(key)
        cases.append(_type_case(t, t_term, site, origin, it, names, ct, type_to_json, type_from_json, dist, decoded_pool))
    # decoded types as originals (their TypedDicts were constructed in monkeytype.encoding)
    rnd.shuffle(decoded_pool)
    for d in decoded_pool[: (300 if quick else 5000)]:
        t_term = common.reify_type(d, ct)
        key = (SITE_DECODED, t_term)
        if key in seen:
            continue
        seen.add(key)
        cases.append(_type_case(d, t_term, SITE_DECODED, "decoded", it, names, ct, type_to_json, type_from_json, dist, None))
    n_type = len(cases)

    # ------------------------------ decoder edge stream ------------------------------
    trees = list(DIRECTED_DECODE)
    labels = ["directed"] * len(trees)
    ok_trees = [c["tree"] for c in cases if c.get("tree") is not None]
    for _ in range(250 if quick else 4000):
        m = mutate(rnd.choice(ok_trees), rnd)
        if m is not None:
            trees.append(m[0])
            labels.append(m[1])
    for tree, label in zip(trees, labels):
        ej.walk_names(tree, names)
        try:
            d = type_from_json(json.dumps(tree))
            d_term = f"(Ok ({common.reify_type(d, ct)}))"
            err = None
        except Exception as e:
            d_term = ej.exn_term(e)
            err = f"{type(e).__name__}: {e}"
        dist["decode_edge:" + label] += 1
        if err:
            dist["decode_edge_raised:" + err.split(":")[0]] += 1
        cases.append({"kind": "decode", "term": f"ECDecode ({ej.json_term(tree, it)}) {d_term}",
                      "desc": f"type_from_json({json.dumps(tree)[:300]})", "impl": err or d_term, "nontrivial": True})

    # ------------------------------ traces ------------------------------
    good_types = [c["obj"] for c in cases[:n_type] if c.get("in_scope_guess") and c["site"] == SITE_FRESH]
    rnd.shuffle(good_types)
    td_types = [t for t in good_types if ej.has_td(t)] or good_types
    pick = (lambda: rnd.choice(td_types) if rnd.random() < 0.5 else rnd.choice(good_types))
    NoneType = type(None)
    argnames = ["self", "a", "b", "x", "kw", "cls"]
    reps = 1 if quick else 6
    for label, (func, expect, kind) in mod.FUNCS.items():
        for _ in range(reps):
            for rmode in ("absent", "none", "type"):
                for ymode in ("absent", "none", "type"):
                    n_args = rnd.choice([0, 1, 2, 3])
                    args = {n: pick() for n in rnd.sample(argnames, n_args)}
                    ret = {"absent": None, "none": NoneType, "type": pick()}[rmode]
                    yld = {"absent": None, "none": NoneType, "type": pick()}[ymode]
                    cases.append(_trace_case(CallTrace, CallTraceRow, func, expect, kind, label, args, ret, yld, rmode, ymode,
                                             ct, ft, it, names, dist))
    # user classes that share a hidden builtin's name, as argument / return / yield types
    for label in ("mfunc", "K.meth", "lru"):
        func, expect, kind = mod.FUNCS[label]
        for X in sentinel_types(mod):
            cases.append(_trace_case(CallTrace, CallTraceRow, func, expect, kind, label, {"a": X}, X, X,
                                     "type", "type", ct, ft, it, names, dist))
    # TypedDict keys named like the parameters of TypedDict construction; same-named classes of two modules
    for label in ("mfunc", "K.meth"):
        func, expect, kind = mod.FUNCS[label]
        for X in reserved_key_types(rnd)[:45] + twin_types(mod):
            cases.append(_trace_case(CallTrace, CallTraceRow, func, expect, kind, label, {"total": X, "cls": int}, X, X,
                                     "type", "type", ct, ft, it, names, dist))
    for label, (func, expect, kind) in mod.OTHER.FUNCS.items():
        for X in twin_types(mod)[::3]:
            cases.append(_trace_case(CallTrace, CallTraceRow, func, expect, kind, label, {"a": X}, X, None,
                                     "type", "absent", ct, ft, it, names, dist))
    # str-subclass keys; TypedDicts with required AND optional fields
    for label in ("mfunc", "K.meth"):
        func, expect, kind = mod.FUNCS[label]
        for X in str_subclass_types() + required_and_optional_types():
            cases.append(_trace_case(CallTrace, CallTraceRow, func, expect, kind, label, {"a": X, "b": int}, X, X,
                                     "type", "type", ct, ft, it, names, dist))
    # non-ASCII TypedDict keys, parameter names and identifiers
    for label in ("mfunc", "na\u00efve", "Caf\u00e9.m\u00e9thode"):
        func, expect, kind = mod.FUNCS[label]
        for X in unicode_types():
            cases.append(_trace_case(CallTrace, CallTraceRow, func, expect, kind, label,
                                     {"p_\u00e9": X, "a": int, "q_\u6f22": X}, X, X, "type", "type", ct, ft, it, names, dist))
    # every class of the streams (value stream, grammar stream, fixture package; incl. falsy class objects and classes
    # named like typing forms) as a TOP-LEVEL return type, yield type and argument type, bare and as Type[C]
    from typing import Type
    from harness import fxclasses as fx
    stream_classes, seen_ids = [], set()
    for c in (list(ct.code) + list(getattr(fx, "USER_CLASSES", [])) + [getattr(fx, "Falsy", None), getattr(fx, "WithCall", None)]
              + list(getattr(fx, "NAMED_LIKE_TYPING", [])) + [k for k, _ in mod.CLASSES.values()] + list(mod.SENTINELS)
              + [k for k, _ in mod.OTHER.CLASSES.values()]):
        if isinstance(c, type) and id(c) not in seen_ids:
            seen_ids.add(id(c))
            stream_classes.append(c)
    for i, C in enumerate(stream_classes):
        for label, a, r, y in (("mfunc", C, C, Type[C]), ("gen", Type[C], Type[C], C)):
            func, expect, kind = mod.FUNCS[label]
            cases.append(_trace_case(CallTrace, CallTraceRow, func, expect, kind, label, {"a": a}, r, y,
                                     "type", "type", ct, ft, it, names, dist))
            dist["trace_top_level_class_types"] += 1
            if not C:
                dist["trace_top_level_falsy_class"] += 1
    # a few traces whose types cannot be serialised (serialize_traces drops them)
    from typing import Tuple
    for label in ("mfunc", "K.meth"):
        func, expect, kind = mod.FUNCS[label]
        cases.append(_trace_case(CallTrace, CallTraceRow, func, expect, kind, label, {"a": Tuple[int, ...]}, None, None,
                                 "absent", "absent", ct, ft, it, names, dist))

    # ------------------------------ environment (before the reload) ------------------------------
    def collect_names():
        for c in list(ct.code):
            names.add((c.__module__, c.__qualname__))
        for f in list(ft.objs):
            m, q = getattr(f, "__module__", None), getattr(f, "__qualname__", None)
            if isinstance(m, str) and isinstance(q, str):
                names.add((m, q))
        for g in ("Any", "Union", "List", "Set", "Dict", "DefaultDict", "Tuple", "Type", "Iterator", "Generator", "Callable"):
            names.add(("typing", g))
    collect_names()
    ej.env_table(names, ct, ft)                # may number further classes / functions
    collect_names()
    env = ej.env_table(names, ct, ft)

    # ------------------------------ history: write + decode, reload the module, decode again ------------------------------
    n_before = len(cases)
    cases += _reload_history(mod, CallTrace, CallTraceRow, ct, ft, it, names, dist)
    collect_names()
    ej.env_table(names, ct, ft)
    collect_names()
    env2 = ej.env_table(names, ct, ft)         # what the names lead to now
    hid = ej.hidden_table(ct)
    header = HEADER % (it.header(), ej.class_name_table(ct), ft.name_table(), hid, env, env2)
    dist["env_rows"] = len(names)
    dist["classes"] = len(ct.code)
    dist["functions"] = len(ft.objs)

    outs = common.run_coq_shards(ctx.work, "c08", header, [c["term"] for c in cases], "ecase",
                                 "bad (verdict_tagged2 W W2) 0 cases", shard_size=250)
    bad = common.parse_bad(outs)
    failures, mismatches = [], []
    per_finding = collections.Counter()
    for i, code in bad:
        c = cases[i]
        v, kf = code % 10, code // 10
        asc = (lambda x: x if x is None else str(x).encode("ascii", "backslashreplace").decode())
        c["desc"], c["impl"] = asc(c["desc"]), asc(c.get("impl"))
        rec = {"kind": c["kind"], "input": c["desc"], "impl": c.get("impl"), "term": c["term"][:4000]}
        if v == 2:
            finding = {1: "kf_tuplevar_encode", 2: "kf_td_site"}.get(kf)
            per_finding[finding or "unclassified"] += 1
            if finding and per_finding[finding] > 5:
                continue                       # the class is reported; keep the evidence small
            rec["finding"] = finding
            if finding == "kf_tuplevar_encode":
                rec["what"] = f"type_to_json({c['desc'][:200]}) raises {c.get('impl')}: a Tuple[T, ...] (rewritten form) cannot be encoded"
            elif finding == "kf_td_site":
                rec["what"] = (f"type_to_json(t) != type_to_json(type_from_json(type_to_json(t))) for t = {c['desc'][:200]}: the JSON of a "
                               f"TypedDict records the module that constructed it (monkeytype.typing vs monkeytype.encoding)")
            else:
                rec["what"] = f"{c['kind']} case does not survive serialisation: {c['desc'][:300]} -> {str(c.get('impl'))[:200]}"
            failures.append(rec)
        else:
            rec["verdict"] = v
            mismatches.append(rec)
    for k, n in per_finding.items():
        dist["property_failures:" + k] = n
    distinct = len({common.digest(c["term"]) for c in cases if c["nontrivial"]})
    dist["type_cases"] = n_type
    dist["trace_cases"] = sum(1 for c in cases if c["kind"] == "trace")
    dist["decode_edge_cases"] = sum(1 for c in cases if c["kind"] == "decode")
    samples = []
    for kind in ("type", "trace", "decode"):
        for c in cases:
            if c["kind"] == kind and c["nontrivial"]:
                samples.append({"kind": kind, "input": c["desc"][:300].encode("ascii", "backslashreplace").decode(),
                                "impl": str(c.get("impl"))[:300].encode("ascii", "backslashreplace").decode()})
                break
    return {
        "evaluations": len(cases), "distinct_nontrivial": distinct,
        "rule": "types: get_type+shrink_types over the C04 value stream and values of the generated fixture package's classes "
                "(nested, local, rebound, deleted, foreign-module, and user classes named NoneType / NotImplementedType / mappingproxy) at every k in {0,1,2,3,10,200}, the typegen grammar stream, every "
                "shipped rewriter's output on those, and decoded types re-used as originals, de-duplicated by reified term; each goes "
                "through type_to_json, type_from_json, re-encoding of the decoded type and encoding of a field-reversed copy. "
                "decoder edges: directed malformed dicts + single mutations of real encodings. traces: every class of the streams (incl. falsy class objects and classes named like typing forms) as top-level return, "
                "yield and argument type, bare and as Type[C]; every fixture function kind (incl. names bound to non-function wrapper objects: lru_cache, decorator-class instances) x "
                "return {absent, NoneType, type} x yield {absent, NoneType, type} x 0-3 argument types (half of them TypedDict-bearing); "
                "every importable trace's row is also written to a fresh SQLite store, read back (TEXT compared) and decoded; a history "
                "(rows written + decoded, importlib.reload of the fixture module, same rows decoded again) is judged against the "
                "post-reload environment; dict keys / parameter names / identifiers beyond ASCII incl. lone surrogates; TypedDict keys named like TypedDict() keyword parameters, str-subclass keys (str-mixin Enum "
                "members, str subclasses overriding __str__/__repr__/__hash__), TypedDicts with required AND optional fields; every decoded "
                "TypedDict-bearing copy is also read the way its consumers read it (generic TypeRewriter: field_annotations + rebuild) and must "
                "still corrb the original; "
                "same-qualname classes in two fixture modules decoded in both orders; wraps decorators publishing __signature__; plain classes "
                "exposing __args__ / __origin__ / a catch-all metaclass __getattr__; every trace is also built the other way round (argument dict in reverse insertion order, every TypedDict's fields "
                "reversed, same site) and the raw stored strings of the two CallTraceRows must be identical; same raw-text test for "
                "the field-reversed copy of every TypedDict-bearing type; model JSON vs stored JSON compared in key ORDER. non-trivial = type has a "
                "generic/union/TypedDict node, or any trace/decode case; distinct by hash of the reified case",
        "samples": samples, "distribution": dict(sorted(dist.items())),
        "failures": failures, "mismatches": mismatches,
        "relation": "jeq (type_to_json t) impl_json /\\ corrb (type_from_json impl_json) impl_decoded /\\ row/trace analogues",
    }


def _has_req_and_opt(t):
    if ej._is_td(t):
        ann = t.__annotations__
        try:
            if ann["required_fields"].__annotations__ and ann["optional_fields"].__annotations__:
                return True
        except (KeyError, AttributeError):
            return False
        return any(_has_req_and_opt(x) for part in ("required_fields", "optional_fields") for x in ann[part].__annotations__.values())
    return any(_has_req_and_opt(a) for a in (getattr(t, "__args__", None) or ()) if a is not Ellipsis and a != ())


def _type_case(t, t_term, site, origin, it, names, ct, type_to_json, type_from_json, dist, decoded_pool):
    text, ij, err = _encode(type_to_json, t, it, names)
    id_term, rj, dec = "OutOfModel", "OutOfModel", None
    wj = "OutOfModel"
    impl = err
    if text is not None:
        try:
            dec = type_from_json(text)
            id_term = f"(Ok ({common.reify_type(dec, ct)}))"
            _, rj, rerr = _encode(type_to_json, dec, it, names)
            impl = text[:300]
            if id_term != f"(Ok ({t_term}))":
                impl = f"decodes to {repr(dec)[:300]} = {id_term[:300]} (the original is {t_term[:200]})"
            if decoded_pool is not None and ej.has_td(dec):
                decoded_pool.append(dec)
            if ej.has_td(dec):
                # what the readers of a decoded type see: the generic rewriter takes every anonymous TypedDict apart with
                # typing.field_annotations and rebuilds it with make_typed_dict
                from monkeytype.typing import TypeRewriter
                try:
                    wj = f"(Ok ({common.reify_type(TypeRewriter().rewrite(dec), ct)}))"
                    if wj != id_term:
                        impl = (f"the decoded copy as its consumers read it (generic TypeRewriter: typing.field_annotations + rebuild) is "
                                f"{wj[:300]}, while the decoded copy itself is {id_term[:300]}")
                    dist["decoded_copies_read_by_consumers"] += 1
                    if "TTypedDict" in t_term and _has_req_and_opt(dec):
                        dist["decoded_copies_with_required_and_optional"] += 1
                except Exception as e:
                    wj = ej.exn_term(e)
                    impl = f"TypeRewriter().rewrite(decoded copy) raised {type(e).__name__}: {e}"
        except Exception as e:
            id_term = ej.exn_term(e)
            impl = f"decode raised {type(e).__name__}: {e}"
            dist["type_decode_raised:" + type(e).__name__] += 1
    else:
        dist["type_encode_raised:" + err.split(":")[0]] += 1
    pj = "OutOfModel"
    ptext_same = True
    if site == SITE_FRESH and ej.has_td(t):
        try:
            ptext, pj, _ = _encode(type_to_json, ej.reverse_fields(t), it, names)
            ptext_same = (ptext == text)          # the stored strings themselves, not their parse
            dist["field_reversed_copies"] += 1
            if not ptext_same:
                dist["field_reversed_text_differs"] += 1
                impl = f"text of the field-reversed copy differs: {str(ptext)[:150]} vs {str(text)[:150]}"
        except ValueError:
            pass
    dist["origin:" + origin.split(" k=")[0]] += 1
    for tag in ("TTypedDict", "TUnion", "TTupleVar", "TType", "TDefaultDict", "TIterator", "TCallable", "TGenerator", "(TTuple [])"):
        if tag in t_term:
            dist["has_" + tag] += 1
    return {"kind": "type", "obj": t, "site": site, "tree": json.loads(text) if text else None,
            "term": f"ECType {common.coq_str(site)} ({t_term}) {ij} {id_term} {rj} {pj} {common.coq_bool(ptext_same)} {wj}",
            "desc": repr(t)[:400] + (f" = {t_term[:400]}" if "TTypedDict" in t_term else "") + f"  [{origin}]", "impl": impl,
            "in_scope_guess": text is not None and dec is not None and "c08fx" not in repr(t),
            "nontrivial": any(x in t_term for x in ("TUnion", "TTypedDict", "TList", "TDict", "TTuple", "TSet", "TType", "TGenerator"))}


def _opt(x):
    return "None" if x is None else f"(Some {x})"


def _reload_history(mod, CallTrace, CallTraceRow, ct, ft, it, names, dist):
    """Rows are written and decoded once; then the fixture module is reloaded (same source: every name is rebound to a
    NEW function / class object); then the same rows are decoded again.  They must lead to what the names lead to now.
    The cases are judged in the second world (ECAfter)."""
    import importlib
    from typing import Dict, List, Optional, Type
    shapes = [lambda m: m.K, lambda m: List[m.K.Inner], lambda m: Type[m.Sub],
              lambda m: Dict[str, Optional[m.K.Inner.Deep]], lambda m: typegen.make_td({"a": m.Plain, "b": Type[m.K]})]
    specs = []
    for i, (label, (_, ok, _k)) in enumerate(mod.FUNCS.items()):
        if ok:
            specs.append((label, shapes[i % 5], shapes[(i + 1) % 5], shapes[(i + 2) % 5]))
    before, old_funcs = [], {}
    for label, a, r, y in specs:
        func = mod.FUNCS[label][0]
        old_funcs[label] = func
        row = CallTraceRow.from_trace(CallTrace(func, {"x": a(mod)}, r(mod), y(mod)))
        try:
            row.to_trace()                     # a long-running process has decoded it once already
        except Exception:
            pass                               # judged by the ordinary trace cases, not here
        before.append(row)
    importlib.reload(mod)
    out = []
    for (label, a, r, y), old_row in zip(specs, before):
        func, expect, kind = mod.FUNCS[label]
        if func is old_funcs[label]:
            raise RuntimeError("harness: reload did not rebind " + label)
        out.append(_trace_case(CallTrace, CallTraceRow, func, expect, kind, label, {"x": a(mod)}, r(mod), y(mod),
                               "type", "type", ct, ft, it, names, dist, decode_row=old_row))
    out += _late_module_history(CallTrace, CallTraceRow, ct, ft, it, names, dist)
    out += _import_in_progress_history(CallTrace, CallTraceRow, ct, ft, it, names, dist)
    return out


LATE_SOURCE = '''
class LateCls:
    class Inner:
        pass


def late_func(a, b=1):
    return a
'''

SLOW_SOURCE = '''
import c08fx_sync as _S

first = 1
_S.EV_STARTED.set()                 # the importing thread is now in the middle of the module body ...
_S.EV_GO.wait(10)                   # ... and stays there until told to go on (or 10 s at most)


class Job:
    pass


def work(a):
    return a
'''


def _row_text(CallTraceRow, module, qualname, arg_cls_qualname):
    cls_d = {"module": module, "qualname": arg_cls_qualname}
    return CallTraceRow(module, qualname, json.dumps({"a": cls_d}, sort_keys=True),
                        json.dumps({"elem_types": [cls_d], "module": "typing", "qualname": "List"}, sort_keys=True), None)


def _late_module_history(CallTrace, CallTraceRow, ct, ft, it, names, dist):
    """A row names a module that cannot be imported yet: decoding fails.  Then the module appears on sys.path and the same
    row is decoded again in the same process: it must decode now."""
    import importlib
    import sys
    from typing import List
    workdir = next(p for p in sys.path if os.path.isdir(os.path.join(p, encode_fixture.PKG)))
    name = "c08fx_late"
    path = os.path.join(workdir, name + ".py")
    if os.path.exists(path):
        os.remove(path)
    sys.modules.pop(name, None)
    importlib.invalidate_caches()
    old_row = _row_text(CallTraceRow, name, "late_func", "LateCls.Inner")
    try:
        old_row.to_trace()
        raise RuntimeError("harness: the late module was importable too early")
    except RuntimeError:
        raise
    except Exception:
        pass                                   # NameLookupError: no such module yet
    with open(path, "w") as f:
        f.write(LATE_SOURCE)
    importlib.invalidate_caches()
    late = importlib.import_module(name)
    try:
        return [_trace_case(CallTrace, CallTraceRow, late.late_func, True, "module that became importable later", "c08fx_late.late_func",
                            {"a": late.LateCls.Inner}, List[late.LateCls.Inner], None, "type", "absent", ct, ft, it, names, dist,
                            decode_row=old_row,
                            history="row decoded while its module was not importable (fails), then the module appears on sys.path, "
                                    "then the same row is decoded again: ")]
    finally:
        dist["history_late_module"] += 1


def _import_in_progress_history(CallTrace, CallTraceRow, ct, ft, it, names, dist):
    """Another thread is in the middle of executing the module body (the names after that point do not exist yet) when a row
    of that module is decoded: the import system makes the decoder wait for the complete module."""
    import importlib
    import sys
    import threading
    import types as _types
    from typing import List
    workdir = next(p for p in sys.path if os.path.isdir(os.path.join(p, encode_fixture.PKG)))
    name = "c08fx_slow"
    sync = _types.ModuleType("c08fx_sync")
    sync.EV_STARTED, sync.EV_GO = threading.Event(), threading.Event()
    sys.modules["c08fx_sync"] = sync
    sys.modules.pop(name, None)
    with open(os.path.join(workdir, name + ".py"), "w") as f:
        f.write(SLOW_SOURCE)
    importlib.invalidate_caches()
    importer = threading.Thread(target=importlib.import_module, args=(name,), daemon=True)
    importer.start()
    if not sync.EV_STARTED.wait(20):
        sync.EV_GO.set()
        raise RuntimeError("harness: the importing thread never reached the module body")
    old_row = _row_text(CallTraceRow, name, "work", "Job")
    releaser = threading.Timer(0.7, sync.EV_GO.set)           # lets the importing thread finish while we are decoding
    releaser.start()
    try:
        decoded = ("ok", old_row.to_trace())
    except Exception as e:
        decoded = ("err", e)
    sync.EV_GO.set()
    importer.join(30)
    releaser.cancel()
    slow = importlib.import_module(name)
    dist["history_import_in_progress"] += 1
    return [_trace_case(CallTrace, CallTraceRow, slow.work, True, "module still being imported by another thread", "c08fx_slow.work",
                        {"a": slow.Job}, List[slow.Job], None, "type", "absent", ct, ft, it, names, dist,
                        decode_row=old_row, decoded=decoded,
                        history="row decoded while another thread is still executing the body of its module (the class and the "
                                "function are defined after that point): ")]


def _dtrace_term(back, ct, ft):
    rt = (lambda t: common.reify_type(t, ct))
    return "(Ok (DTrace %s %s %s %s))" % (
        ej.obj_term(back.func, ct, ft),
        common.coq_list(f"({common.coq_str(n)}, {rt(t)})" for n, t in back.arg_types.items()),
        _opt(None if back.return_type is None else f"({rt(back.return_type)})"),
        _opt(None if back.yield_type is None else f"({rt(back.yield_type)})"))


def _through_store(tr, row, ib, ct, ft):
    """The real store: add([tr]) on a fresh SQLite database, filter it back, compare the stored TEXT with the
    in-memory row and the decoded trace with the in-memory decode."""
    import sqlite3
    from monkeytype.db.sqlite import SQLiteStore, create_call_trace_table
    conn = sqlite3.connect(":memory:")
    try:
        create_call_trace_table(conn)
        store = SQLiteStore(conn)
        store.add([tr])
        got = store.filter(row.module, row.qualname)
        if len(got) != 1:
            return False, f"SQLiteStore.add then filter({row.module!r}, {row.qualname!r}) returned {len(got)} rows"
        g = got[0]
        a = (g.module, g.qualname, g.arg_types, g.return_type, g.yield_type)
        b = (row.module, row.qualname, row.arg_types, row.return_type, row.yield_type)
        if a != b:
            return False, f"row read back from SQLite differs from the row written: {a!r:.300} vs {b!r:.300}"
        try:
            ib2 = _dtrace_term(g.to_trace(), ct, ft)
        except Exception as e:
            ib2 = ej.exn_term(e)
        if ib2 != ib:
            return False, f"row read back from SQLite decodes differently: {ib2[:200]} vs {ib[:200]}"
        return True, None
    except Exception as e:
        return False, f"SQLiteStore.add/filter raised {type(e).__name__}: {e} (the flushed batch is lost)"
    finally:
        conn.close()


def _trace_case(CallTrace, CallTraceRow, func, expect, kind, label, args, ret, yld, rmode, ymode, ct, ft, it, names, dist,
                decode_row=None, decoded=None, history=None):
    """decode_row: a row written earlier (before the module was reloaded) that must carry the same text as this trace's
    row; it is the one decoded."""
    f_id = ft.of(func)
    tr = CallTrace(func, dict(args), ret, yld)
    rt = (lambda t: common.reify_type(t, ct))
    tr_term = "(Trace %s %s %s %s)" % (
        common.coq_N(f_id), common.coq_list(f"({common.coq_str(n)}, {rt(t)})" for n, t in args.items()),
        _opt(None if ret is None else f"({rt(ret)})"), _opt(None if yld is None else f"({rt(yld)})"))
    ib = "OutOfModel"
    impl = None
    text_same = True
    store_same = True
    try:
        row = CallTraceRow.from_trace(tr)
        # the same trace built the other way round: argument dict in reverse insertion order, every TypedDict
        # below any of its types with reversed fields (same construction site).  The stored STRINGS must coincide.
        try:
            rv = (lambda t: None if t is None else ej.reverse_fields(t))
            tr2 = CallTrace(func, {n: ej.reverse_fields(t) for n, t in reversed(list(args.items()))}, rv(ret), rv(yld))
            row2 = CallTraceRow.from_trace(tr2)
            text_same = ((row.module, row.qualname, row.arg_types, row.return_type, row.yield_type)
                         == (row2.module, row2.qualname, row2.arg_types, row2.return_type, row2.yield_type))
            dist["trace_permuted_copies"] += 1
            if any(ej.has_td(t) for t in list(args.values()) + [x for x in (ret, yld) if x is not None]):
                dist["trace_permuted_copies_with_typeddict"] += 1
            if len(args) >= 2:
                dist["trace_permuted_copies_with_2+_args"] += 1
        except ValueError:
            pass
        except Exception as e:
            text_same = False
            impl = f"from_trace of the permuted copy raised {type(e).__name__}: {e}"
        for text in (row.arg_types, row.return_type, row.yield_type):
            if text is not None:
                ej.walk_names(json.loads(text), names)
        names.add((row.module, row.qualname))
        oj = (lambda s: "None" if s is None else f"(Some {ej.json_text_term(s, it)})")
        ir = "(Ok (Row %s %s %s %s %s))" % (common.coq_str(row.module), common.coq_str(row.qualname),
                                            ej.json_text_term(row.arg_types, it), oj(row.return_type), oj(row.yield_type))
        if decode_row is not None:
            old = (decode_row.module, decode_row.qualname, decode_row.arg_types, decode_row.return_type, decode_row.yield_type)
            if old != (row.module, row.qualname, row.arg_types, row.return_type, row.yield_type):
                raise RuntimeError("harness: the row written before the reload differs from the row of the rebuilt trace")
        try:
            if decoded is not None:            # the decode happened earlier, at the interesting moment of the history
                if decoded[0] == "err":
                    raise decoded[1]
                back = decoded[1]
            else:
                back = (decode_row if decode_row is not None else row).to_trace()
            ib = _dtrace_term(back, ct, ft)
            impl = impl or f"to_trace -> func {'same' if back.func is func else 'DIFFERENT'}, return {back.return_type!r:.80}, yield {back.yield_type!r:.80}"
        except Exception as e:
            ib = ej.exn_term(e)
            impl = f"to_trace raised {type(e).__name__}: {e}"
            dist["trace_decode_raised:" + type(e).__name__] += 1
    except Exception as e:
        ir = ej.exn_term(e)
        impl = f"from_trace raised {type(e).__name__}: {e}"
        dist["trace_encode_raised:" + type(e).__name__] += 1
    dist["trace_kind:" + kind] += 1
    dist[f"trace_return_{rmode}"] += 1
    dist[f"trace_yield_{ymode}"] += 1
    if not text_same:
        dist["trace_permuted_text_differs"] += 1
        impl = (f"CallTraceRow.from_trace stores different text for a structurally identical trace (permuted insertion order): "
                f"arg_types {row.arg_types[:200]!r} vs {row2.arg_types[:200]!r}; return {str(row.return_type)[:80]!r} vs "
                f"{str(row2.return_type)[:80]!r}; yield {str(row.yield_type)[:80]!r} vs {str(row2.yield_type)[:80]!r}") if impl is None or impl.startswith("to_trace") else impl
    if ir.startswith("(Ok"):
        store_same, smsg = _through_store(tr, row, ib, ct, ft)
        dist["trace_through_sqlite"] += 1
        if not store_same:
            dist["trace_store_differs"] += 1
            impl = smsg
    term = f"ECTrace {common.coq_bool(expect)} {tr_term} {ir} {ib} {common.coq_bool(text_same)} {common.coq_bool(store_same)}"
    pre = ""
    if decode_row is not None:
        term = f"ECAfter ({term})"
        pre = history or "row written and decoded once, then importlib.reload(fixture module), then the same row decoded again: "
        dist["trace_decoded_after_reload"] += 1
    return {"kind": "trace", "term": term,
            "desc": pre + f"CallTrace({label} [{kind}], args={ {n: repr(t)[:60] for n, t in args.items()} }, return={ret!r:.80}, yield={yld!r:.80})",
            "impl": impl, "nontrivial": True}


def replay(ctx, payload):
    print(json.dumps(payload, indent=1)[:4000])
    return 0


CLAIM = {'note': "Trusted: Coq kernel + vm_compute; harness reifiers; Python's json (text layer); the live import "
                 'environment handed to the model as a table; typing Union/== semantics as modelled.',
         'ref': '4/C08',
         'technique': 'Coq model + theorems by structural induction over all types, vm_compute differential correspondence',
         'text': 'Coq model of the JSON codec (Model/Encode.v) with theorems type_roundtrip, absent_vs_none, '
                 'trace_roundtrip, encode_structural for every type / trace under an importable environment; '
                 'differential check of encoder, decoder, re-encoding and CallTraceRow round trip against /repo on '
                 'inferred, rewritten and decoded types, malformed dicts and a generated fixture package, verdicts '
                 'evaluated in Coq (JSON as sorted trees, types by corrb).'}
