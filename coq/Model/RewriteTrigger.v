(* Model/RewriteTrigger.v — the documented triggers of the shipped rewriters (C07, last clause) and the
   normal form of Union[...] objects as Python's typing builds them.  Executable definitions only;
   the theorems are in Proofs/RewriteTrigger*.v. *)
From MT Require Export Rewrite.

(* ---- the trigger test on the members of ONE union, per rewriter ---- *)
(* RemoveEmptyContainers: some member is an empty container next to a non-empty one of the same kind *)
Definition here_rme (ts : list ty) : bool :=
  existsb (fun e => is_empty e && has_nonempty_sibling e ts) ts.
(* RewriteConfigDict: all members are Dict[...] with one key type *)
Definition here_rcd (ts : list ty) : bool :=
  match ts with
  | t0 :: rest => forallb is_tdict ts && forallb (fun e => py_eqb (dict_key t0) (dict_key e)) rest
  | [] => false
  end.
(* RewriteLargeUnion n: more members than the configured maximum *)
Definition here_rlu (n : nat) (ts : list ty) : bool := Nat.ltb n (List.length ts).
(* RewriteMostSpecificCommonBase: all members are plain classes (a TypedDict class is a class) *)
Definition here_msb (ts : list ty) : bool := forallb (fun t => is_tcls t || is_td t) ts.

(* ---- does the trigger occur anywhere below t (the generic traversal's reach: not below
        Type/Iterator/DefaultDict)?  This is the predicate the correspondence check evaluates. ---- *)
Section Trig.
Variable here : list ty -> bool.     (* trigger test on the members of one union *)
Fixpoint any_union (t : ty) : bool :=
  match t with
  | TList x | TSet x | TTupleVar x => any_union x
  | TDict k v => any_union k || any_union v
  | TTuple ts => existsb any_union ts
  | TGenerator a b c => any_union a || any_union b || any_union c
  | TUnion ts => here ts || existsb any_union ts
  | TTypedDict r o => existsb (fun f => any_union (snd f)) r || existsb (fun f => any_union (snd f)) o
  | _ => false
  end.
End Trig.

Fixpoint any_gen_none (t : ty) : bool :=
  match t with
  | TList x | TSet x | TTupleVar x => any_gen_none x
  | TDict k v => any_gen_none k || any_gen_none v
  | TTuple ts | TUnion ts => existsb any_gen_none ts
  | TGenerator a (TCls 1%N) (TCls 1%N) => true
  | TTypedDict r o => existsb (fun f => any_gen_none (snd f)) r || existsb (fun f => any_gen_none (snd f)) o
  | _ => false
  end.

Definition trigger (r : rewriter) (t : ty) : bool :=
  match r with
  | RNoOp => false
  | RRemoveEmpty => any_union here_rme t
  | RConfigDict => any_union here_rcd t
  | RLargeUnion n => any_union (here_rlu n) t
  | RGenerator => any_gen_none t
  | RCommonBase => any_union here_msb t
  end.

(* ---- the sharper predicate: the trigger occurs at a position the rewriter itself visits.
        RewriteConfigDict, RewriteLargeUnion and RewriteMostSpecificCommonBase override rewrite_Union
        without descending into the members (into = false); RemoveEmptyContainers and the generic
        rewrite_Union do descend (into = true). ---- *)
Section Fires.
Variable here : list ty -> bool.
Variable into : bool.
Fixpoint fires_union (t : ty) : bool :=
  match t with
  | TList x | TSet x | TTupleVar x => fires_union x
  | TDict k v => fires_union k || fires_union v
  | TTuple ts => existsb fires_union ts
  | TGenerator a b c => fires_union a || fires_union b || fires_union c
  | TUnion ts => here ts || (into && existsb fires_union ts)
  | TTypedDict r o => existsb (fun f => fires_union (snd f)) r || existsb (fun f => fires_union (snd f)) o
  | _ => false
  end.
End Fires.

Definition fires (r : rewriter) (t : ty) : bool :=
  match r with
  | RNoOp => false
  | RRemoveEmpty => fires_union here_rme true t
  | RConfigDict => fires_union here_rcd false t
  | RLargeUnion n => fires_union (here_rlu n) false t
  | RGenerator => any_gen_none t
  | RCommonBase => fires_union here_msb false t
  end.

(* ---- Union[...] objects as typing builds them: at least two members, no member is itself a Union,
        no member is Python-== to an earlier TypedDict-free one; at every depth.
        Equivalently (Proofs/RewriteTriggerFacts.v: union_mk_normal_id): union_mk members = TUnion members. ---- *)
Definition is_tunion (t : ty) : bool := match t with TUnion _ => true | _ => false end.

Fixpoint nodupb (seen ts : list ty) : bool :=
  match ts with
  | [] => true
  | t :: r => negb (negb (has_td t) && existsb (py_eqb t) seen) && nodupb (t :: seen) r
  end.

Definition normal_members (ts : list ty) : bool :=
  Nat.leb 2 (List.length ts) && forallb (fun t => negb (is_tunion t)) ts && nodupb [] ts.

Fixpoint normal (t : ty) : bool :=
  match t with
  | TAny | TCls _ | TCallable | TFwd _ => true
  | TType x | TList x | TSet x | TIterator x | TTupleVar x => normal x
  | TDict k v | TDefaultDict k v => normal k && normal v
  | TTuple ts => forallb normal ts
  | TGenerator a b c => normal a && normal b && normal c
  | TUnion ts => normal_members ts && forallb normal ts
  | TTypedDict r o => forallb (fun f => normal (snd f)) r && forallb (fun f => normal (snd f)) o
  end.
