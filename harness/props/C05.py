"""C05 — inferred types are tight: every alternative is witnessed by an observed value."""
from harness import common, infer_cases

COQ_TARGETS = ["Check/TightCases.vo"]
TRUSTED_BASE = ["typing's Union normalisation / == / hash as modelled (Model/Types.v)",
                "Model/Tight.v (tightb) is the formal reading of the property's prose, DESIGN 4/C05"]
ASSUMPTIONS = ["a generator object's elements are unobservable: Iterator[Any] is tight for generator objects"]
PARTIAL = []


def run(ctx):
    n = 3000 if ctx.tier == "quick" else 40000
    ct, cases = infer_cases.generate(ctx.seed + 5, n, with_small_scope=True)
    header = "From MT Require Import TightCases.\nDefinition h : hierarchy := %s.\n" % ct.hierarchy()
    outs = common.run_coq_shards(ctx.work, "c05", header, [c["term"] for c in cases], "icase",
                                 "bad verdict_c05 0 cases")
    bad = common.parse_bad(outs)
    failures, mismatches = [], []
    for i, code in bad:
        c = cases[i]
        rec = {"k": c["k"], "values": c["vs_repr"], "impl": c["impl"], "term": c["term"], "error": c["error"]}
        if code == 2:
            rec["what"] = f"inferred type is not tight for the observed values: k={c['k']} values={c['vs_repr'][:200]} type={c['impl'][:200]}"
            failures.append(rec)
        else:
            mismatches.append(rec)
    distinct = len({common.digest(c["term"]) for c in cases if c["nontrivial"]})
    return {
        "evaluations": len(cases), "distinct_nontrivial": distinct,
        "rule": "same space as C04 (exhaustive small multisets x k in {0,1,2}; seeded random collections x k in "
                "{0,1,2,3,10,200}); tightb(impl type, values) and corrb(model, impl) evaluated in Coq; "
                "non-trivial = >=2 values with a container; distinct by hash of the reified case",
        "samples": [{"k": c["k"], "values": c["vs_repr"], "impl_type": c["impl"]} for c in cases[-3:]],
        "distribution": infer_cases.distribution(cases),
        "failures": failures, "mismatches": mismatches, "relation": "corrb (infer k vs) impl",
    }


def replay(ctx, payload):
    print(payload)
    return 0

CLAIM = {
    "text": "Coq theorem infer_tight (= C05_full): for every TypedDict limit k and every finite collection of well-formed values, "
            "the inferred type is tight for the collection under the executable reading Model/Tight.v (every union alternative "
            "at every nesting position witnessed by an observed value, exact runtime classes, Any only where nothing was seen, "
            "TypedDict keys required iff present in every observed dict and optional iff missing from some); plus get_type_tight, "
            "infer_exact_member and merge_tight (merging the types of many traces keeps tightness). The same predicate is "
            "evaluated by vm_compute on the implementation's output for every generated case together with the multiset "
            "correspondence model = implementation.",
    "note": "Trusted: Coq kernel + vm_compute; harness reifiers; Model/Tight.v as the formal reading of the prose (two over-strict "
            "clauses found by the proof attempt were corrected); typing's Union/==/hash as modelled.",
    "technique": "Coq proof by induction on the merge fuel / nested induction on values + vm_compute differential correspondence",
    "ref": "4/C05",
}
