(* Proofs/StubSetOrder.v — C14: the order-insensitive parts of stub generation.
   (2) what a Union admits does not depend on the order or multiplicity of the members it is built from;
   (3) the rendering order (insertion sort by name) is a function of the SET of names, and the set of distinct
       rows does not depend on order or duplication in the store. *)
From MT Require Import Types StubSet TypesFacts UnionFacts.
From Coq Require Import Lia Sorting.Permutation Sorting.Sorted.

(* ================= (2) union_mk ================= *)
Section UnionOrder.
Variable anyb : bool.
Variable sub : cls -> cls -> bool.
Notation mem := (member anyb sub).

Lemma member_union_mk v ts : Forall wf_ty ts -> mem v (union_mk ts) = existsb (mem v) ts.
Proof.
  intros W. destruct (existsb (mem v) ts) eqn:E.
  - apply union_mk_complete; assumption.
  - destruct (mem v (union_mk ts)) eqn:M; [|reflexivity].
    apply union_mk_sound in M. congruence.
Qed.

Lemma existsb_incl {A} (f : A -> bool) l l' : incl l l' -> existsb f l = true -> existsb f l' = true.
Proof. intros I H. apply existsb_exists in H. destruct H as [x [Hx Fx]]. apply existsb_exists. exists x. split; auto. Qed.

Lemma existsb_same_set {A} (f : A -> bool) l l' : incl l l' -> incl l' l -> existsb f l = existsb f l'.
Proof.
  intros I1 I2. destruct (existsb f l) eqn:E.
  - symmetry. eapply existsb_incl; eassumption.
  - destruct (existsb f l') eqn:E'; [|reflexivity]. eapply existsb_incl in E'; [|exact I2]. congruence.
Qed.

Lemma union_mk_set_members ts ts' :
  incl ts ts' -> incl ts' ts -> Forall wf_ty ts -> Forall wf_ty ts' ->
  forall v, mem v (union_mk ts) = mem v (union_mk ts').
Proof.
  intros I1 I2 W W' v. rewrite !member_union_mk by assumption. apply existsb_same_set; assumption.
Qed.

Lemma union_mk_perm_members ts ts' :
  Permutation ts ts' -> Forall wf_ty ts -> forall v, mem v (union_mk ts) = mem v (union_mk ts').
Proof.
  intros P W v. apply union_mk_set_members.
  - intros x Hx. eapply Permutation_in; eassumption.
  - intros x Hx. eapply Permutation_in; [apply Permutation_sym; exact P|exact Hx].
  - exact W.
  - rewrite Forall_forall in *. intros x Hx. apply W. eapply Permutation_in; [apply Permutation_sym; exact P|exact Hx].
Qed.
End UnionOrder.

(* the syntactic results differ (member order follows the input), the admitted values do not *)
Example ex_union_mk_perm :
  let ts  := [TCls cInt; TUnion [TCls cStr; TCls cNone]; TList (TCls cInt); TCls cInt] in
  let ts' := [TList (TCls cInt); TCls cInt; TUnion [TCls cStr; TCls cNone]; TCls cInt; TList (TCls cInt)] in
  union_mk ts = TUnion [TCls cInt; TCls cStr; TCls cNone; TList (TCls cInt)]
  /\ union_mk ts' = TUnion [TList (TCls cInt); TCls cInt; TCls cStr; TCls cNone]
  /\ equivb (union_mk ts) (union_mk ts') = true
  /\ forallb (fun x => existsb (ty_eqb x) ts') ts && forallb (fun x => existsb (ty_eqb x) ts) ts' = true.
Proof. vm_compute. repeat split; reflexivity. Qed.

(* ================= (3a) sorting by name ================= *)
Section SortOrder.
Context {A : Type} (leb : A -> A -> bool).
Hypothesis leb_total : forall a b, leb a b = true \/ leb b a = true.
Hypothesis leb_trans : forall a b c, leb a b = true -> leb b c = true -> leb a c = true.
Notation R := (fun a b => leb a b = true).

Lemma insert_perm x l : Permutation (insert leb x l) (x :: l).
Proof.
  induction l as [|y r IH]; cbn [insert]; [apply Permutation_refl|].
  destruct (leb x y); [apply Permutation_refl|].
  eapply Permutation_trans; [apply perm_skip; exact IH|apply perm_swap].
Qed.

Lemma isort_permutation l : Permutation (isort leb l) l.
Proof.
  induction l as [|x r IH]; cbn [isort]; [apply Permutation_refl|].
  eapply Permutation_trans; [apply insert_perm|apply perm_skip; exact IH].
Qed.

Lemma insert_sorted x l : StronglySorted R l -> StronglySorted R (insert leb x l).
Proof.
  induction l as [|y r IH]; intros S; cbn [insert].
  - constructor; [constructor|constructor].
  - inversion S as [|? ? Sr Fy]; subst. destruct (leb x y) eqn:E.
    + constructor; [exact S|]. constructor; [exact E|].
      rewrite Forall_forall in *. intros z Hz. eapply leb_trans; [exact E|apply Fy; exact Hz].
    + constructor; [apply IH; exact Sr|].
      assert (Eyx : leb y x = true) by (destruct (leb_total x y); congruence).
      rewrite Forall_forall in *. intros z Hz.
      apply (Permutation_in _ (insert_perm x r)) in Hz. destruct Hz as [<-|Hz]; [exact Eyx|apply Fy; exact Hz].
Qed.

Lemma isort_sorted l : StronglySorted R (isort leb l).
Proof. induction l as [|x r IH]; cbn [isort]; [constructor|apply insert_sorted; exact IH]. Qed.

(* two sorted arrangements of the same elements coincide when the order separates the elements *)
Lemma sorted_perm_unique l : forall l',
  (forall a b, In a l -> In b l -> leb a b = true -> leb b a = true -> a = b) ->
  StronglySorted R l -> StronglySorted R l' -> Permutation l l' -> l = l'.
Proof.
  induction l as [|x r IH]; intros l' AS S S' P.
  - apply Permutation_nil in P. subst. reflexivity.
  - destruct l' as [|y r']; [apply Permutation_sym, Permutation_nil in P; discriminate P|].
    inversion S as [|? ? Sr Fx]; subst. inversion S' as [|? ? Sr' Fy]; subst.
    rewrite Forall_forall in Fx, Fy.
    assert (Exy : x = y).
    { assert (Hx : In x (y :: r')) by (eapply Permutation_in; [exact P|left; reflexivity]).
      assert (Hy : In y (x :: r)) by (eapply Permutation_in; [apply Permutation_sym; exact P|left; reflexivity]).
      destruct Hx as [Hx|Hx]; [symmetry; exact Hx|]. destruct Hy as [Hy|Hy]; [exact Hy|].
      apply AS; [left; reflexivity|right; exact Hy|apply Fx; exact Hy|apply Fy; exact Hx]. }
    subst y. f_equal. apply IH.
    + intros a b Ha Hb. apply AS; right; assumption.
    + exact Sr.
    + exact Sr'.
    + eapply Permutation_cons_inv. exact P.
Qed.

Lemma isort_perm l l' :
  (forall a b, In a l -> In b l -> leb a b = true -> leb b a = true -> a = b) ->
  Permutation l l' -> isort leb l = isort leb l'.
Proof.
  intros AS P. apply sorted_perm_unique.
  - intros a b Ha Hb. apply AS; eapply Permutation_in; try eassumption; apply isort_permutation.
  - apply isort_sorted.
  - apply isort_sorted.
  - eapply Permutation_trans; [apply isort_permutation|].
    eapply Permutation_trans; [exact P|]. apply Permutation_sym. apply isort_permutation.
Qed.
End SortOrder.

(* the form used by the stub renderer: entries sorted by a key (the name), keys pairwise distinct *)
Section SortByKey.
Context {A K : Type} (key : A -> K) (kleb : K -> K -> bool).
Hypothesis kleb_total : forall a b, kleb a b = true \/ kleb b a = true.
Hypothesis kleb_trans : forall a b c, kleb a b = true -> kleb b c = true -> kleb a c = true.
Hypothesis kleb_antisym : forall a b, kleb a b = true -> kleb b a = true -> a = b.

Lemma NoDup_map_inj (l : list A) a b : NoDup (map key l) -> In a l -> In b l -> key a = key b -> a = b.
Proof.
  induction l as [|x r IH]; intros ND Ha Hb E; [destruct Ha|].
  cbn [map] in ND. inversion ND as [|? ? Hn ND']; subst.
  destruct Ha as [->|Ha], Hb as [->|Hb].
  - reflexivity.
  - exfalso. apply Hn. rewrite E. apply in_map. exact Hb.
  - exfalso. apply Hn. rewrite <- E. apply in_map. exact Ha.
  - apply IH; assumption.
Qed.

Lemma isort_perm_keys l l' :
  NoDup (map key l) -> Permutation l l' ->
  isort (fun x y => kleb (key x) (key y)) l = isort (fun x y => kleb (key x) (key y)) l'.
Proof.
  intros ND P. apply isort_perm.
  - intros a b. apply kleb_total.
  - intros a b c. apply kleb_trans.
  - intros a b Ha Hb H1 H2. apply (NoDup_map_inj l); try assumption. apply kleb_antisym; assumption.
  - exact P.
Qed.
End SortByKey.

Lemma N_leb_total a b : N.leb a b = true \/ N.leb b a = true.
Proof. rewrite !N.leb_le. lia. Qed.
Lemma N_leb_trans a b c : N.leb a b = true -> N.leb b c = true -> N.leb a c = true.
Proof. rewrite !N.leb_le. lia. Qed.
Lemma N_leb_antisym a b : N.leb a b = true -> N.leb b a = true -> a = b.
Proof. rewrite !N.leb_le. lia. Qed.

(* instance: entries keyed by a number (a name code) *)
Lemma isort_perm_N {B} (l l' : list (N * B)) :
  NoDup (map fst l) -> Permutation l l' ->
  isort (fun x y => N.leb (fst x) (fst y)) l = isort (fun x y => N.leb (fst x) (fst y)) l'.
Proof. apply (isort_perm_keys fst N.leb N_leb_total N_leb_trans N_leb_antisym). Qed.

Example ex_isort_perm :
  let l  := [(5%N, "f"%string); (2%N, "b"%string); (9%N, "z"%string); (3%N, "c"%string)] in
  let l' := [(3%N, "c"%string); (9%N, "z"%string); (5%N, "f"%string); (2%N, "b"%string)] in
  isort (fun x y => N.leb (fst x) (fst y)) l = [(2%N, "b"%string); (3%N, "c"%string); (5%N, "f"%string); (9%N, "z"%string)]
  /\ isort (fun x y => N.leb (fst x) (fst y)) l' = isort (fun x y => N.leb (fst x) (fst y)) l
  /\ l <> l'.
Proof. vm_compute. repeat split; try reflexivity. discriminate. Qed.

(* the distinct-keys premise is needed: with a repeated key the sort is stable, hence order-dependent *)
Example ex_isort_dupkey_order_dependent :
  let l  := [(1%N, "a"%string); (1%N, "b"%string)] in
  let l' := [(1%N, "b"%string); (1%N, "a"%string)] in
  isort (fun x y => N.leb (fst x) (fst y)) l <> isort (fun x y => N.leb (fst x) (fst y)) l'.
Proof. vm_compute. discriminate. Qed.

(* ================= (3b) the set of distinct rows ================= *)
Section RowSet.
Context {K : Type} (keyb : K -> K -> bool).
Hypothesis keyb_refl : forall x, keyb x x = true.

Lemma same_set_incl a b : incl a b -> incl b a -> same_set keyb a b = true.
Proof.
  intros I1 I2. unfold same_set. apply andb_true_intro; split; apply forallb_forall; intros x Hx;
    apply existsb_exists; exists x; auto.
Qed.

Lemma same_set_perm l l' : Permutation l l' -> same_set keyb l l' = true.
Proof.
  intros P. apply same_set_incl; intros x Hx; eapply Permutation_in; try exact Hx; [exact P|apply Permutation_sym; exact P].
Qed.

Lemma same_set_sym a b : same_set keyb a b = same_set keyb b a.
Proof. unfold same_set. apply andb_comm. Qed.

Lemma nodupb_incl l : incl (nodupb keyb l) l.
Proof.
  induction l as [|x r IH]; cbn [nodupb]; [apply incl_refl|].
  destruct (existsb (keyb x) r); [apply incl_tl; exact IH|].
  apply incl_cons; [left; reflexivity|apply incl_tl; exact IH].
Qed.

Hypothesis keyb_trans : forall x y z, keyb x y = true -> keyb y z = true -> keyb x z = true.

(* every element is represented among the kept ones *)
Lemma nodupb_covers l : forall x, In x l -> existsb (keyb x) (nodupb keyb l) = true.
Proof.
  induction l as [|y r IH]; intros x Hx; [destruct Hx|]. cbn [nodupb].
  destruct (existsb (keyb y) r) eqn:D.
  - destruct Hx as [<-|Hx]; [|apply IH; exact Hx].
    apply existsb_exists in D. destruct D as [z [Hz Eyz]].
    specialize (IH z Hz). apply existsb_exists in IH. destruct IH as [w [Hw Ezw]].
    apply existsb_exists. exists w. split; [exact Hw|]. eapply keyb_trans; eassumption.
  - cbn [existsb]. destruct Hx as [<-|Hx]; [rewrite keyb_refl; reflexivity|].
    rewrite (IH x Hx). apply orb_true_r.
Qed.

Lemma nodupb_same_set l : same_set keyb (nodupb keyb l) l = true.
Proof.
  unfold same_set. apply andb_true_intro; split; apply forallb_forall; intros x Hx.
  - apply existsb_exists. exists x. split; [apply nodupb_incl; exact Hx|apply keyb_refl].
  - apply nodupb_covers. exact Hx.
Qed.

Lemma same_set_trans a b c : same_set keyb a b = true -> same_set keyb b c = true -> same_set keyb a c = true.
Proof.
  unfold same_set. intros H1 H2. apply andb_prop in H1, H2. destruct H1 as [A1 A2], H2 as [B1 B2].
  rewrite forallb_forall in A1, A2, B1, B2.
  apply andb_true_intro; split; apply forallb_forall; intros x Hx.
  - specialize (A1 x Hx). apply existsb_exists in A1. destruct A1 as [y [Hy Exy]].
    specialize (B1 y Hy). apply existsb_exists in B1. destruct B1 as [z [Hz Eyz]].
    apply existsb_exists. exists z. split; [exact Hz|]. eapply keyb_trans; eassumption.
  - specialize (B2 x Hx). apply existsb_exists in B2. destruct B2 as [y [Hy Exy]].
    specialize (A2 y Hy). apply existsb_exists in A2. destruct A2 as [z [Hz Eyz]].
    apply existsb_exists. exists z. split; [exact Hz|]. eapply keyb_trans; eassumption.
Qed.

(* the distinct rows of two stores holding the same rows (any order, any multiplicity) are the same set *)
Lemma nodupb_set_invariant l l' :
  incl l l' -> incl l' l -> same_set keyb (nodupb keyb l) (nodupb keyb l') = true.
Proof.
  intros I1 I2. eapply same_set_trans; [apply nodupb_same_set|].
  eapply same_set_trans; [apply same_set_incl; eassumption|].
  rewrite same_set_sym. apply nodupb_same_set.
Qed.

Lemma nodupb_perm_invariant l l' :
  Permutation l l' -> same_set keyb (nodupb keyb l) (nodupb keyb l') = true.
Proof.
  intros P. apply nodupb_set_invariant; intros x Hx; eapply Permutation_in; try exact Hx;
    [exact P|apply Permutation_sym; exact P].
Qed.

(* no two kept elements are identified (one direction: an earlier kept element is not keyb-related to a later one) *)
Lemma nodupb_distinct l : forall x r, nodupb keyb l = x :: r -> existsb (keyb x) r = false.
Proof.
  induction l as [|y l IH]; intros x r E; [discriminate E|]. cbn [nodupb] in E.
  destruct (existsb (keyb y) l) eqn:D; [apply IH; exact E|].
  injection E as <- <-.
  destruct (existsb (keyb y) (nodupb keyb l)) eqn:D'; [|reflexivity].
  apply existsb_exists in D'. destruct D' as [z [Hz Eyz]].
  assert (existsb (keyb y) l = true) by (apply existsb_exists; exists z; split; [apply nodupb_incl; exact Hz|exact Eyz]).
  congruence.
Qed.
End RowSet.

Example ex_nodupb_same_set :
  let l  := [3%N; 1%N; 3%N; 2%N; 1%N; 3%N] in
  let l' := [1%N; 2%N; 2%N; 3%N] in
  nodupb N.eqb l = [2%N; 1%N; 3%N] /\ nodupb N.eqb l' = [1%N; 2%N; 3%N]
  /\ same_set N.eqb (nodupb N.eqb l) l = true
  /\ same_set N.eqb (nodupb N.eqb l) (nodupb N.eqb l') = true
  /\ same_set N.eqb l [1%N; 2%N] = false.
Proof. vm_compute. repeat split; reflexivity. Qed.

(* reflexivity of keyb alone is NOT enough for nodupb_same_set: with a non-transitive keyb a dropped
   element can lose its representative *)
Example ex_nodupb_needs_trans :
  let keyb := fun a b : N => N.eqb a b || (N.eqb a 0 && N.eqb b 1) || (N.eqb a 1 && N.eqb b 2) in
  (forall x, In x [0%N; 1%N; 2%N] -> keyb x x = true)
  /\ nodupb keyb [0%N; 1%N; 2%N] = [2%N]
  /\ same_set keyb (nodupb keyb [0%N; 1%N; 2%N]) [0%N; 1%N; 2%N] = false.
Proof.
  split; [|vm_compute; split; reflexivity].
  intros x [<-|[<-|[<-|[]]]]; reflexivity.
Qed.
