(* Refuted/C08.v — the two places where today's encoding.py breaks C08's full statement (DESIGN B-7).
   Both are outside the premises of Props/C08.v and unreachable in the shipped trace -> store -> stub flow. *)
From MT Require Import Types Encode EncodeRoundtrip EncodeStruct EncodeExamples.
Open Scope string_scope.

(* kf_tuplevar_encode: a rewritten form (RewriteLargeUnion's Tuple[T, ...]) over importable classes, unions
   normal, keys distinct — everything `inferable` asks except the absence of Tuple[T, ...] — and
   type_to_json raises AttributeError ('ellipsis' object has no attribute '__qualname__'),
   whatever the class names and the construction site *)
Theorem tuplevar_encode_refuted :
  exists t, has_tuplevar t = true /\ has_fwd t = false /\ union_nfb t = true /\ wf_tyb t = true
            /\ Forall (importable ex_cn ex_ev ex_hd) (classes t)
            /\ forall cname site, type_to_json cname site t = Raises AttributeError.
Proof.
  exists (TTupleVar (TCls cInt)). repeat split; try (vm_compute; reflexivity).
  repeat constructor.
Qed.
Print Assumptions tuplevar_encode_refuted.

(* kf_td_site: t and its decoded copy t' are structurally identical (corrb, even fields_perm), yet their JSON
   differs, because t's TypedDict classes were constructed in monkeytype.typing and t''s in monkeytype.encoding:
   encode_structural without the same-site premise is false *)
Theorem td_site_refuted :
  exists t j t' j',
    typing_ok ex_ev
    /\ (inferable t /\ Forall (importable ex_cn ex_ev ex_hd) (classes t))
    /\ type_to_json ex_cn "monkeytype.typing" t = Ok j
    /\ type_from_json ex_ev ex_hd j = Ok t'
    /\ corrb t t' = true /\ fields_perm t t'
    /\ type_to_json ex_cn "monkeytype.encoding" t' = Ok j'
    /\ json_eqb j j' = false.
Proof.
  exists (TTypedDict [("a", TCls cInt)] []). eexists. eexists. eexists.
  split; [exact ex_typing_ok|].
  split; [split; [repeat split; vm_compute; reflexivity|repeat constructor]|].
  split; [vm_compute; reflexivity|]. split; [vm_compute; reflexivity|]. split; [vm_compute; reflexivity|].
  split.
  - apply fields_perm_td. exists [("a", TCls cInt)], []. repeat split; try reflexivity; apply Permutation.Permutation_refl.
  - split; vm_compute; reflexivity.
Qed.
Print Assumptions td_site_refuted.
