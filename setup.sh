#!/bin/bash
# Build the framework from files on disk only (offline). Full .vo build, never -vos/-vok.
# `make -k`: one file that does not compile must not stop the others from being built — every check rebuilds and
# re-checks its own targets and reports a file that does not compile as a broken proof obligation of its property.
cd "$(dirname "$0")"
export PYTHONPATH="${VERIF_REPO:-/repo}:$(pwd)" PYTHONHASHSEED=0 PYTHONDONTWRITEBYTECODE=1
/venv/bin/python -c "from harness import common; import sys; ok,m=common.regenerate_all(); print(m); sys.exit(0 if ok else 1)" || echo "WARNING: a source extractor failed (see above)"
/venv/bin/python -c "from harness import common; common.write_coqproject()" || exit 2
cd coq || exit 2
coq_makefile -f _CoqProject -o Makefile || exit 2
timeout 3000 make -k -j16 > ../_work_setup.log 2>&1
rc=$?
tail -5 ../_work_setup.log
if [ $rc -ne 0 ]; then
  echo "WARNING: some Coq files did not compile:"; grep -E "^File |Error" ../_work_setup.log | head -20
fi
# the build is usable if the shared models compiled
test -f Model/Types.vo && test -f Check/Common.vo
