"""C04 — inferred types admit every observed value, for every TypedDict size limit."""
from harness import common, infer_cases

COQ_TARGETS = ["Check/InferCases.vo"]
TRUSTED_BASE = ["typing's Union normalisation / == / hash as modelled by union_mk, py_eqb (Model/Types.v)"]
ASSUMPTIONS = [
    "class hierarchy handed to the model is the live __mro__ table",
    "dict keys of a reified value are pairwise distinct (Python dict invariant)",
    "no two TypedDict occurrences are the same object (every get_type builds a fresh one)",
]
PARTIAL = []


def run(ctx):
    n = 3000 if ctx.tier == "quick" else 40000
    ct, cases = infer_cases.generate(ctx.seed, n, with_small_scope=True)
    header = infer_cases.HEADER % ct.hierarchy()
    outs = common.run_coq_shards(ctx.work, "c04", header, [c["term"] for c in cases], "icase",
                                 "bad (verdict_c04 h) 0 cases")
    bad = common.parse_bad(outs)
    failures, mismatches = [], []
    for i, code in bad:
        c = cases[i]
        rec = {"k": c["k"], "values": c["vs_repr"], "impl": c["impl"], "term": c["term"], "error": c["error"]}
        if code == 2:
            rec["what"] = f"inferred type does not admit an observed value (or inference raised): k={c['k']} values={c['vs_repr'][:200]}"
            failures.append(rec)
        else:
            mismatches.append(rec)
    distinct = len({common.digest(c["term"]) for c in cases if c["nontrivial"]})
    return {
        "evaluations": len(cases), "distinct_nontrivial": distinct,
        "rule": "exhaustive multisets (size<=3) over a 12-value alphabet x k in {0,1,2}, plus seeded random "
                "value collections (depth<=3, near-duplicates injected) x k in {0,1,2,3,10,200}; "
                "non-trivial = >=2 values with at least one container; distinct by hash of the reified case",
        "samples": [{"k": c["k"], "values": c["vs_repr"], "impl_type": c["impl"]} for c in cases[-3:]],
        "distribution": infer_cases.distribution(cases),
        "failures": failures, "mismatches": mismatches, "relation": "corrb (infer k vs) impl",
    }


def replay(ctx, payload):
    print(payload)
    return 0

CLAIM = {'note': "Trusted: Coq kernel + vm_compute; harness reifiers; typing's Union/==/hash semantics as modelled "
         '(union_mk, py_eqb). Totality and order/multiplicity invariance are checked by correspondence only '
         'so far.',
 'ref': '4/C04',
 'technique': 'Coq proof by nested induction over values/types + vm_compute differential correspondence',
 'text': 'Coq theorem infer_sound: for every hierarchy, every limit k and every finite collection of values, '
         'each observed value is a member of the inferred type (both readings of Any); plus '
         'infer_well_formed. The model (Model/Infer.v) is tied to typing.py by a differential check whose '
         'verdicts (membership + multiset correspondence) are computed inside Coq.'}
