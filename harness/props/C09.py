"""C09 — the trace store returns exactly what was added: deduplicated, filtered, bounded.

Correspondence: histories of add / faulted add / reopen / filter / list_modules over the colliding alphabet are run
through real SQLiteStore objects (three connections on one scratch file); every answer and every table read (through
an independent sqlite3 connection, with PRAGMA integrity_check) is reified and judged in Coq by
Check/StoreCases.verdict_c09 against the model state.  Exercised-not-proved campaigns (SQLite's atomicity, durability,
serialisability): progress-handler interrupt of the batch insert at every VM step, reads through a second connection from
inside the writer's transaction, SIGKILL of a writer process at VM steps / random times (default and tiny page cache),
2..16 concurrent writer processes plus a reader, batches with unserialisable traces at every position."""
import itertools
import json
import os
import random
import signal
import subprocess
import sys
import time
from concurrent.futures import ThreadPoolExecutor

from harness import common
from harness import store_model as sm

COQ_TARGETS = ["Check/StoreCases.vo"]
TRUSTED_BASE = [
    "SQLite (3.40.1 here) LIKE / GROUP BY / LIMIT / binary text comparison as modelled in Model/Store.v "
    "(byte-level; ASCII alphabet in the tie)",
    "SQLite transactions, rollback journal, locking and Python's sqlite3 `with conn:` commit/rollback: assumed "
    "(Add = one step, AddAborted = no step, Reopen = identity) and exercised by the fault campaigns, not proved",
    "harness/extract_store.py + extract_constants.query_skeleton (shape of add / make_query / list_modules -> Gen/*.v)",
    "CallTraceRow.from_trace is used to compute the row a trace serialises to (the codec itself is C08's subject)",
]
ASSUMPTIONS = [
    "module and qualname of stored traces are str (never NULL) and ASCII; limit is a non-negative int below 2**63 "
    "(SQLite reads a negative LIMIT as 'no limit')",
    "list_modules deliberately drops the empty module name (`if row[0]`): modules_spec is stated for non-empty names",
    "which min(n,d) rows a limited query keeps is SQLite's choice; the relation accepts any",
    "concurrent schedules are serialisable (SQLite's file lock); proved: every serial order gives the same answers",
]
PARTIAL = [
    "atomicity, durability across reopen/SIGKILL and serialisability of concurrent writers are properties of SQLite and "
    "of sqlite3's connection context manager: exercised on every run (interrupt at every VM step, SIGKILL, 2..16 "
    "writers), not proved",
]

T = lambda m, q, v=0, tag=None: ["t", m, q, v, tag]     # noqa: E731
BAD = lambda k="arg": ["bad", k]                        # noqa: E731
BAD_KINDS = ["arg", "ret", "yield", "func", "unhash_arg", "unhash_ret", "unhash_set"]   # the last three are also unhashable
ALT = "alt_traces"                                      # a second table in the same file

# add(traces: Iterable[CallTrace]): the batch is handed over as a generator / tuple / iterator / list / dict view
A1 = ["add", 0, [T("m", "my_func"), ["bad", "arg_of", "m", "myXfunc"], T("m", "myXfunc"), T("m", "MY_FUNC")], None, "gen"]
A2 = ["add", 1, [T("m", "foo"), T("m", "Foo.bar"), BAD("unhash_arg"), T("M", "foo"), T("m", "my_func"), T("m", "foo"),
                 T("m", "fop"), T("m", "my_fund"), ["bad", "arg_of", "m", "my_func"]], -1, "tuple"]      # the day before
A3 = ["add", 2, [T("m", "a%b", 1), BAD("func"), T("m", "aXXb", 1), T("", "foo", 2),
                 T("m", "a[b", 1), T("m", "a[b]c", 1), T("m", "a?c", 1), T("m", "aXc", 1), T("m", "a*b", 1),
                 T("m", "a\\b", 1)], None, "iter"]
# rows of one function that differ in exactly one column each (arg_types / return_type / yield_type, NULL vs text)
A4 = ["add", 1, [T("m", "foo", 0), T("m", "foo", 8), BAD("yield"), T("m", "foo", 9), T("m", "foo", 6), BAD("ret"),
                 T("m", "foo", 7), T("m", "foo", 10), T("m", "foo", 8), T("m", "foo", 11)], 2]                                         # two days later
X1 = ["add_fault", 1, [T("m", "my_func", 1), T("m", "foo", 1)], ["interrupt", 9]]
X2 = ["add_fault", 2, [T("M", "Foo.bar", 1), T("m", "a%b")], ["locked"]]
X3 = ["add_fault", 0, [T("m", "aXXb"), T("M", "my_func")], ["evil", 1]]
R0 = ["reopen", 0]
F1 = ["filter", 1, "m", "my_func", 2000]
F2 = ["filter", 0, "m", "foo", 2000]
F3 = ["filter", 2, "m", "a%b", 2000]
F4 = ["filter", 0, "m", None, 2]
F5 = ["filter", 1, "M", "FOO", 2000]
F6 = ["filter", 0, "m", "a[", 2000]
L1 = ["modules", 1]
LITERAL_ALPHABET = [A1, A2, A3, A4, X1, R0, F1, F2, F3, F4, F5, F6, L1]
MUTATORS = [A1, A2, A3, A4, X1, X2, X3, R0]


class _Conn:
    """random.Random whose randrange(3) (the connection draws of random_history) ranges over nconn connections"""

    def __init__(self, rnd, nconn):
        self._r, self._n = rnd, nconn

    def __getattr__(self, name):
        return getattr(self._r, name)

    def randrange(self, n):
        return self._r.randrange(self._n if n == 3 else n)


def query_sweep():
    qs = []
    i = 0
    for m in ["m", "M", ""]:
        for p in sm.PREFIXES:
            qs.append(["filter", i % 3, m, p, 2000])
            i += 1
        for p in [None, "my", "a"]:
            for n in [0, 1, 2, 3]:
                qs.append(["filter", i % 3, m, p, n])
                i += 1
    qs += [["modules", 0], ["modules", 1], ["modules", 2]]
    return qs


def random_history(rnd, maxlen=40, nconn=3, tables=None):
    n = rnd.randint(5, maxlen)
    ops = []
    rnd = _Conn(rnd, nconn)
    for _ in range(n):
        x = rnd.random()
        if x < 0.35:
            specs = []
            for _ in range(rnd.randint(0, 5)):
                if rnd.random() < 0.15:
                    specs.append(BAD(rnd.choice(BAD_KINDS)) if rnd.random() < 0.6 else
                                 ["bad", "arg_of", rnd.choice(["m", "M"]), rnd.choice(sm.QUALNAMES)])
                else:
                    specs.append(T(rnd.choice(["m", "m", "M", ""]), rnd.choice(sm.QUALNAMES + sm.GLOB_QUALNAMES + sm.SUCC_QUALNAMES),
                                   rnd.choice([0, 0, 0, 1, 2, 3, 6, 7, 8, 9, 10, 11])))
            ops.append(["add", rnd.randrange(3), specs, rnd.choice([None, None, -2, -1, 0, 1, 3]),
                        rnd.choice(sm.CONTAINERS)])
        elif x < 0.45:
            specs = [T(rnd.choice(["m", "M"]), rnd.choice(sm.QUALNAMES), rnd.choice([0, 1])) for _ in range(rnd.randint(1, 4))]
            f = rnd.choice(["interrupt", "interrupt", "locked", "evil"])
            if f == "interrupt":
                ops.append(["add_fault", rnd.randrange(3), specs, ["interrupt", rnd.randint(1, 70)]])
            elif f == "locked":
                ops.append(["add_fault", 1 + rnd._r.randrange(max(1, nconn - 1)), specs, ["locked"]])
            else:
                ops.append(["add_fault", rnd.randrange(3), specs, ["evil", rnd.randint(0, len(specs))]])
        elif x < 0.53:
            c = rnd.randrange(3)
            ops.append(["reopen", c])
            if c == 0 and (not tables or tables[0] == sm.TABLE):
                ops.append(["config", 0])
        elif x < 0.83:
            ops.append(["filter", rnd.randrange(3), rnd.choice(["m", "m", "M", ""]), rnd.choice(sm.PREFIXES),
                        rnd.choice(sm.LIMITS)])
        elif x < 0.90:
            ops.append(["modules", rnd.randrange(3)])
        else:
            ops.append(["table"] if not tables else ["table", rnd.choice(sorted(set(tables)))])
    if tables:
        return [["tables", list(tables)]] + ops + [["table", t] for t in sorted(set(tables))]
    ops.append(["table"])
    return ops


# ------------------------------------------------------------------------------------------------
# executing serial histories (forked pool; each worker has its own scratch file)
# ------------------------------------------------------------------------------------------------
_WORK = None


def _exec_chunk(chunk):
    sm.quiet()
    path = os.path.join(_WORK, f"h-{os.getpid()}.db")
    return [sm.run_history(path, ops) for ops in chunk]


def exec_histories(work, histories, nproc=8):
    global _WORK
    _WORK = work
    if len(histories) < 40:
        return _exec_chunk(histories)
    import multiprocessing as mp
    size = max(10, len(histories) // (nproc * 6))
    chunks = [histories[i:i + size] for i in range(0, len(histories), size)]
    with mp.get_context("fork").Pool(nproc) as pool:
        res = pool.map(_exec_chunk, chunks)
    return [h for c in res for h in c]


# ------------------------------------------------------------------------------------------------
# campaigns
# ------------------------------------------------------------------------------------------------
def campaign_positions(tier):
    """batches with unserialisable traces at every position (every subset of positions)"""
    hs = []
    for L in ([4] if tier == "quick" else [3, 4, 5, 6]):
        ops = []
        for mask in range(2 ** L):
            specs = []
            for i in range(L):
                if mask >> i & 1:
                    specs.append(BAD(BAD_KINDS[(mask + i) % len(BAD_KINDS)]))
                else:
                    specs.append(T(["m", "M"][(mask + i) % 2], sm.QUALNAMES[(mask * 3 + i) % 7], i % 2))
            if mask % 4 == 1:
                specs.append(specs[0])                    # an exact duplicate within the batch
            if mask % 8 == 6:
                specs.insert(1, specs[-1])
            ops.append(["add", mask % 3, specs, None, sm.CONTAINERS[(mask // 3) % len(sm.CONTAINERS)]])
            ops.append(["table"])
            if mask % 5 == 0:
                ops.append(["filter", (mask + 1) % 3, "m", None, 2000])
        ops += [["modules", 0], ["filter", 1, "M", "", 2000]]
        hs.append(ops)
    return hs


def campaign_tables(rnd, tier):
    """stores on different tables of one file (SQLiteStore(conn, table)): each table is a store of its own - rows
    added through a store land in its table and nowhere else, and it answers from its table only"""
    hs = []
    x = [T("m", "my_func"), BAD("arg"), T("M", "foo", 1)]
    y = [T("m", "foo"), T("m", "my_func", 8)]
    for tables in ([sm.TABLE, sm.TABLE, ALT, ALT], [ALT, sm.TABLE, "third_table"]):
        a = tables.index(ALT)
        d = tables.index(sm.TABLE)
        hs.append([["tables", tables],
                   ["add", a, x], ["table", ALT], ["table"], ["filter", d, "m", None, 2000], ["filter", a, "m", None, 2000],
                   ["modules", d], ["modules", a],
                   ["add", d, y], ["table"], ["table", ALT], ["filter", a, "m", "my_func", 2000],
                   ["filter", d, "m", "my_func", 2000], ["reopen", a], ["reopen", d], ["filter", a, "M", None, 2000],
                   ["add_fault", a, y, ["interrupt", 7]], ["modules", a], ["modules", d], ["table", ALT], ["table"]])
        for _ in range(40 if tier == "quick" else 500):
            hs.append(random_history(rnd, 30, len(tables), tables))
    return hs


def campaign_requery():
    """one long-lived store is asked the same questions again after it, and after another connection, added rows"""
    qs = [["filter", 0, "m", "foo", 2000], ["filter", 0, "m", None, 2000], ["filter", 0, "m", "my_func", 2], ["modules", 0],
          ["filter", 0, "M", None, 2000], ["filter", 0, "m", "a", 2000]]
    hs = []
    for c in (0, 1):
        q = [[x[0], c] + x[2:] for x in qs]
        hs.append(q + [["add", c, A2[2]]] + q + [["add", c, A4[2], 2]] + q + [["add", 2, A3[2]]] + q +
                  [["add", c, A1[2]], ["table"]] + q + [["reopen", c]] + q)
    return hs


def campaign_isolation(work, it):
    """stores on different databases with the same connection string (two `:memory:` stores; one relative path opened
    from two working directories) are independent stores: each is judged as a history of its own"""
    p = _spawn(["isolation", os.path.join(work, "iso")])
    out, err = p.communicate(timeout=120)
    if p.returncode != 0:
        raise RuntimeError("isolation worker failed: " + err[-800:])
    cases = []
    for scen, logs in json.loads(out.strip().splitlines()[-1]).items():
        for k, log in enumerate(logs):
            steps = []
            for op, obs in log:
                if obs.get("k") == "rows":
                    obs["rows"] = [tuple(r) for r in obs["rows"]]
                steps.append((op, obs))
            ops = [op for op, _ in steps]
            cases.append({"kind": f"isolation-{scen}", "ops": ops, "steps": steps, "pre": [], "tables": None,
                          "nontrivial": True, "no_replay": True, "term": sm.hist_term(it, [], steps)})
    return cases


def campaign_config():
    """what make_store() configured, read through its own connection, fresh / after writes / after reopen"""
    return [[["config", 0], A1, ["config", 0], ["reopen", 0], ["config", 0], A2, ["table"], ["reopen", 0], ["config", 0],
             ["filter", 0, "m", None, 2000]]]


def campaign_many_modules():
    """more distinct modules than any listing limit: the listing has to be complete"""
    big = sm.many_modules_batch()
    probe = big[2050][1]
    return [[["add", 0, big, None, "gen"], ["modules", 1], ["filter", 2, probe, None, 2000],
             ["add", 1, [T("zzz_last", "f")]], ["reopen", 0], ["modules", 0]]]


def campaign_row_cap():
    """more than 100000 raw rows in the table: nothing that was committed may go away"""
    big = sm.row_cap_batch()
    return [[["add", 0, big, None, "tuple"], ["add", 1, big, -1, "list"], ["table"], ["filter", 2, "m", "my_func", 2000],
             ["add", 0, [T("m", "foo")]], ["table"], ["modules", 1]]]


def campaign_days(tier):
    """the same row committed on several calendar days, in every order of the days, interleaved with other rows and
    with same-day repeats; limits from 1 to above the number of distinct rows (LIMIT / ORDER BY date(created_at) work
    on grouped rows: a row must come back once however many days it was committed on)"""
    hs = []
    x = T("m", "my_func")
    day_sets = [(-1, 0), (0, -1), (-2, -1, 0), (0, -2, -1), (-1, 0, -2), (3, None), (None, -400)]
    if tier != "quick":
        day_sets += [p for p in itertools.permutations((-2, -1, 0, 1))]
    for ds in day_sets:
        ops = []
        for i, d in enumerate(ds):
            others = [T("m", sm.QUALNAMES[(i + j + 1) % 7], j % 2) for j in range(i % 3)]
            ops.append(["add", i % 3, others[:1] + [x] + others[1:] + ([x] if i == 1 else []), d])
            ops.append(["table"])
            for n in (1, 2):
                ops.append(["filter", (i + n) % 3, "m", "my_func", n])
        for n in range(1, 8):
            ops.append(["filter", n % 3, "m", None, n])
            ops.append(["filter", (n + 1) % 3, "m", "my", n])
        ops += [["filter", 0, "m", None, 2000], ["modules", 1], ["reopen", 2], ["filter", 2, "m", "my_func", 2000]]
        hs.append(ops)
    return hs


def campaign_interrupt(work, tier):
    """interrupt the batch insert after every n VM steps: first measure how many steps a whole add takes"""
    configs = [(1, 0, 5)] if tier == "quick" else [(0, 0, 5), (1, 0, 5), (2, 1, 9), (1, 4, 3)]
    hs = []
    for ci, variant, nrows in configs:
        specs = [T(["m", "M"][i % 2], sm.QUALNAMES[i % 7], variant, "I%d" % i) for i in range(nrows)]
        specs.insert(2, BAD("arg"))
        probe = sm.run_history(os.path.join(work, "probe.db"),
                               [A1, ["add_fault", ci, specs, ["interrupt", 10 ** 9]]], 3)
        total = probe[1][1]["vm_steps"]
        ops = [A1, ["table"]]
        for k in range(1, total + 3):
            ops.append(["add_fault", ci, specs, ["interrupt", k]])
            if k % 7 == 0:
                ops.append(["filter", (ci + 1) % 3, "m", None, 2000])
        ops += [A2, ["table"], ["filter", 0, "m", "my_func", 2000], ["modules", 2]]
        hs.append((ops, total))
    return hs


def big_batch_specs(n=1300):
    """one large batch (well above any plausible chunk size): 14 distinct rows repeated, a few unserialisable traces"""
    specs = []
    for i in range(n):
        specs.append(T(["m", "M"][i % 2], sm.QUALNAMES[i % 7], 0, "G%d" % (i % 14)))
        if i in (3, 700, 1200):
            specs.append(BAD("arg"))
    return specs


def campaign_big_batch(work, tier):
    """interrupt the insert of one 1300-row batch at points spread over the whole insert (a store that commits a
    batch piecewise leaves a torn batch behind)"""
    specs = big_batch_specs()
    probe = sm.run_history(os.path.join(work, "probe-big.db"), [["add_fault", 1, specs, ["interrupt", 10 ** 9]]], 2)
    total = probe[0][1]["vm_steps"]
    fracs = [0.02, 0.3, 0.45, 0.62, 0.8, 0.97] if tier == "quick" else [i / 40.0 for i in range(1, 40)] + [0.995]
    ops = [A1, ["table"]]
    for fr in fracs:
        ops.append(["add_fault", 1 + len(ops) % 2, specs, ["interrupt", max(1, int(total * fr))]])
    ops += [["filter", 0, "m", "my_func", 2000],
            ["add_fault", 0, specs, ["interrupt", total + 50]],       # does not fire: the whole batch lands
            ["filter", 2, "M", "foo", 2000], ["modules", 1]]
    return ops, total


def campaign_mid_reads(work, tier, it, dist):
    """from inside the writer's transaction (progress handler of connection 0 at VM step k) read through connection 1
    and through an independent connection: only whole committed batches may be visible"""
    import sqlite3
    cases = []
    pre_specs = A1[2]
    n_pre = len([r for r in sm.batch_rows(pre_specs) if r])
    specs = [T(["m", "M"][i % 2], sm.QUALNAMES[i % 7], 0, "J%d" % i) for i in range(6)]
    path = os.path.join(work, "mid.db")
    ks = range(1, 140, 9 if tier == "quick" else 1)
    for k in ks:
        for suffix in ("", "-journal"):
            if os.path.exists(path + suffix):
                os.remove(path + suffix)
        rig = sm.Rig(path, 2)
        try:
            rig.do(["add", 0, pre_specs])
            calls = [0]
            seen = {}

            def handler():
                calls[0] += 1
                if calls[0] == k:
                    seen["filter"] = rig.do(["filter", 1, "m", None, 2000])
                    try:
                        seen["table"] = sm.read_table(path, timeout=0.02)
                    except sqlite3.OperationalError as e:
                        seen["table_err"] = str(e)
                return 0
            try:
                rig.stores[0].conn.set_progress_handler(handler, 1)
                rig.do(["add", 0, specs])
                rig.stores[0].conn.set_progress_handler(None, 1)
            except sqlite3.Error as e:          # the store's connection is unusable: a failure of its own
                seen.clear()
                cases.append({"kind": "mid-read", "nontrivial": True, "term": "CReach [] [] [] [] false",
                              "desc": f"the connection of a fresh SQLiteStore.make_store() cannot be used: {type(e).__name__}: {e}"})
        finally:
            rig.close()
        if not seen:
            continue
        pre = it.batch(sm.batch_rows(pre_specs))
        sub = it.batch(sm.batch_rows(specs))
        f = seen["filter"]
        if f["k"] == "rows":
            dist["mid_txn_reads"] += 1
            cases.append({"kind": "mid-read", "nontrivial": True,
                          "term": f"CSnap [{pre}] [{sub}] \"m\"%string None 2000%N {it.rows_term(f['rows'])}",
                          "desc": f"filter('m') through a second connection at VM step {k} of another connection's add() "
                                  f"returned {sorted(r[1] for r in f['rows'])}"})
        else:
            dist["mid_txn_reads_locked"] += 1
        if "table" in seen:
            rows, ok = seen["table"]
            dist["mid_txn_reads"] += 1
            cases.append({"kind": "mid-read", "nontrivial": True,
                          "term": f"CReach [{pre}] [({sub}, 2)] [{'0' if len(rows) > n_pre else ''}] "
                                  f"{it.rows_term(rows)} {common.coq_bool(ok)}",
                          "desc": f"independent connection at VM step {k} of an in-flight add() saw {len(rows)} rows "
                                  f"(the committed batch has {len([r for r in sm.batch_rows(pre_specs) if r])})"})
    return cases


def _spawn(args):
    return subprocess.Popen([common.PY, "-m", "harness.store_worker"] + [str(a) for a in args], env=common.sub_env(),
                            stdout=subprocess.PIPE, stderr=subprocess.PIPE, text=True, cwd=common.VERIF)


def _order_from_table(rows, ids):
    """batch indices in order of first appearance in the table (ids: batch id -> index)"""
    order = []
    unknown = 0
    for r in rows:
        b = sm.batch_of_row(r)
        if b not in ids:
            unknown += 1
            continue
        if ids[b] not in order:
            order.append(ids[b])
    return order, unknown


def _post_history(path, it, pre_batches, tagc):
    """after a campaign: a fresh store on the surviving file must keep working and answer from what is there"""
    ops = [["config", 0], ["add", 0, [T("m", "my_func", 0, tagc), BAD("ret"), T("M", "Foo.bar", 0, tagc)]], ["table"],
           ["filter", 1, "m", "my_func", 2000], ["filter", 2, "M", None, 2000], ["filter", 0, "m", "a%b", 2000],
           ["modules", 1], ["reopen", 0], ["filter", 0, "m", None, 2000]]
    rig = sm.Rig(path, 3)
    try:
        steps = [(op, rig.do(op)) for op in ops]
    finally:
        rig.close()
    return {"kind": "post-campaign", "nontrivial": True, "ops": ops, "steps": steps, "pre": pre_batches,
            "term": sm.hist_term(it, pre_batches, steps)}


def one_kill(work, it, dist, idx, mode, k, cache, wide, n_rows, delay):
    path = os.path.join(work, f"kill-{idx}.db")
    a_specs, b_specs = sm.kill_batches(wide, n_rows)
    a_rows, b_rows = sm.batch_rows(a_specs), sm.batch_rows(b_specs)
    if mode == "selfkill":
        p = _spawn(["selfkill", path, k, cache, int(wide), n_rows])
        out, err = p.communicate(timeout=120)
        done_b = "OK B" in out
    else:
        calib_done = False
        p = _spawn(["victim", path, cache, int(wide), n_rows])
        line = p.stdout.readline()
        if "START" not in line:
            p.kill()
            raise RuntimeError("victim did not start: " + line + p.stderr.read()[-500:])
        if delay is None:       # calibration: let it finish, measure how long INSERT + COMMIT take
            t1 = time.time()
            calib_done = "DONE" in p.stdout.readline()
            dist["victim_insert_commit_ms"] = round((time.time() - t1) * 1000, 2)
            delay = 0.0
        time.sleep(delay)
        p.send_signal(signal.SIGKILL)
        out, err = p.communicate(timeout=60)
        done_b = "DONE" in out or calib_done
    killed = p.returncode == -signal.SIGKILL
    if not killed and not done_b:
        raise RuntimeError(f"kill worker ended rc={p.returncode}: {err[-800:]}")
    hot = os.path.exists(path + "-journal")
    rows, ok = sm.read_table(path)
    order, unknown = _order_from_table(rows, {"A": 0, "B": 1})
    status_b = 0 if done_b else 2
    dist["kills"] += 1
    dist["kills_hot_journal"] += int(hot)
    dist["kills_batch_survived"] += int(1 in order)
    dist["kills_not_fired"] += int(not killed)
    a, b = it.batch(a_rows), it.batch(b_rows)
    what = (f"writer process SIGKILLed ({mode} k={k} delay={delay:.4f}s cache_size={cache or 'default'} rows={n_rows}"
            f"{' wide' if wide else ''}): table has {len(rows)} rows, batch A has "
            f"{len([r for r in a_rows if r])}, batch B {len([r for r in b_rows if r])}; integrity_ok={ok}")
    cases = [{"kind": "sigkill", "nontrivial": True, "desc": what,
              "term": f"CReach [] [({a}, 0); ({b}, {status_b})] {common.coq_list(str(i) for i in order)} "
                      f"{it.rows_term(rows)} {common.coq_bool(ok and unknown == 0)}"}]
    pre = [a_rows] + ([b_rows] if 1 in order else [])
    if len(rows) == sum(len([r for r in bb if r]) for bb in pre):     # otherwise the CReach case already fails
        cases.append(_post_history(path, it, pre, "C"))
    for suffix in ("", "-journal"):
        if os.path.exists(path + suffix):
            os.remove(path + suffix)
    return cases


def spill_kill(work, it, dist, idx, grow, with_post=True):
    """SIGKILL inside a batch of several MB, after SQLite has written part of it into the database file (cache spill)"""
    path = os.path.join(work, f"spill-{idx}.db")
    a_specs, b_specs = sm.spill_batches()
    a_rows, b_rows = sm.batch_rows(a_specs), sm.batch_rows(b_specs)
    p = _spawn(["spillkill", path, grow])
    out, err = p.communicate(timeout=300)
    done_b = "OK B" in out
    killed = p.returncode == -signal.SIGKILL
    if "OK A" not in out or (not killed and not done_b):
        raise RuntimeError(f"spill-kill worker ended rc={p.returncode}: {err[-800:]}")
    size_a = int(out.split("OK A")[1].split()[0])
    size_kill = os.path.getsize(path)
    hot = os.path.exists(path + "-journal")
    rows, ok = sm.read_table_or_fail(path, timeout=5.0)
    order, unknown = _order_from_table(rows, {"A": 0, "B": 1})
    dist["spill_kills"] += 1
    dist["spill_kills_hot_journal"] += int(hot)
    dist["spill_kill_file_growth_kb"] = (size_kill - size_a) // 1024
    a, b = it.batch(a_rows), it.batch(b_rows)
    what = (f"writer process SIGKILLed inside a batch of {len(b_rows)} rows once the file had grown by {size_kill - size_a} "
            f"bytes (cache spill; on-disk journal present: {hot}): after reopening, the table has "
            f"{len(rows)} rows{' (' + str(rows[0][1]) + ')' if rows and rows[0][0] == '?unreadable' else ''}, "
            f"the committed batch has {len(a_rows)}, the interrupted one {len(b_rows)}; integrity_ok={ok}")
    cases = [{"kind": "sigkill-spill", "nontrivial": True, "desc": what,
              "term": f"CReach [] [({a}, 0); ({b}, {0 if done_b else 2})] {common.coq_list(str(i) for i in order)} "
                      f"{it.rows_term(rows)} {common.coq_bool(ok and unknown == 0)}"}]
    pre = [a_rows] + ([b_rows] if 1 in order else [])
    if with_post and ok and len(rows) == sum(len([r for r in bb if r]) for bb in pre):
        cases.append(_post_history(path, it, pre, "S"))
    for suffix in ("", "-journal"):
        if os.path.exists(path + suffix):
            os.remove(path + suffix)
    return cases


def campaign_kill(work, tier, rnd, it, dist):
    jobs = []
    if tier == "quick":
        for k in (1, 17, 40, 75, 100, 117):
            jobs.append(("selfkill", k, 0, False, 8, 0.0))
        jobs.append(("selfkill", 300, 1, True, 60, 0.0))
        jobs.append(("selfkill", 10 ** 8, 0, False, 8, 0.0))         # never fires: the control
        jobs.append(("selfkill", 7500, 0, False, 1300, 0.0))         # large batch, killed about 40% / 85% into the insert
        jobs.append(("selfkill", 15500, 0, False, 1300, 0.0))
        for _ in range(6):
            jobs.append(("victim", 0, 1, True, 120, rnd.uniform(0.0, 0.03)))
    else:
        for k in range(1, 140):
            jobs.append(("selfkill", k, 0, False, 8, 0.0))
        for k in range(1, 1200, 7):
            jobs.append(("selfkill", k, 1, True, 60, 0.0))
        jobs.append(("selfkill", 10 ** 8, 0, False, 8, 0.0))
        for k in range(500, 18000, 900):
            jobs.append(("selfkill", k, 0, False, 1300, 0.0))
        for i in range(80):
            jobs.append(("victim", 0, 1 if i % 2 else 0, True, 120, rnd.uniform(0.0, 0.03)))
    cases = []
    # how long does the victim's INSERT + COMMIT take here?  kill delays are drawn from 0 .. 1.3 x that
    cases += one_kill(work, it, dist, 10 ** 6, "victim", 0, 1, True, 120, None)
    span = 1.3 * dist["victim_insert_commit_ms"] / 1000.0
    jobs = [j[:5] + (rnd.uniform(0.0, span),) if j[0] == "victim" else j for j in jobs]
    with ThreadPoolExecutor(max_workers=8) as ex:
        futs = [ex.submit(one_kill, work, it, dist, i, *j) for i, j in enumerate(jobs)]
        for f in futs:
            cases += f.result()
    return cases


def one_concurrency_round(work, it, dist, idx, W, nb, nsnap):
    path = os.path.join(work, f"conc-{idx}.db")
    t0 = time.time() + 0.9
    writers = [_spawn(["writer", path, w, nb, t0]) for w in range(W)]
    reader = _spawn(["reader", path, t0 + 0.002, nsnap])
    results = []
    for w, p in enumerate(writers):
        out, err = p.communicate(timeout=180)
        if p.returncode != 0:
            raise RuntimeError(f"writer {w} failed rc={p.returncode}: {err[-800:]}")
        results.append(json.loads(out.strip().splitlines()[-1]))
    rout, rerr = reader.communicate(timeout=180)
    if reader.returncode != 0:
        raise RuntimeError(f"reader failed: {rerr[-800:]}")
    snaps = json.loads(rout.strip().splitlines()[-1])["snaps"]
    subs, ids = [], {}
    for w in range(W):
        st = results[w]["status"]
        if "open_error" in results[w]:
            dist["conc_open_errors"] += 1
        for j in range(nb):
            specs = sm.writer_batch(w, j)
            s = st[j] if j < len(st) else "raised (store could not be opened)"
            ids[f"w{w}_b{j}"] = len(subs)
            subs.append((sm.batch_rows(specs), 0 if s == "ok" else 2, s))
            dist["conc_batches"] += 1
            dist["conc_batches_raised"] += int(s != "ok")
    rows, ok = sm.read_table(path)
    order, unknown = _order_from_table(rows, ids)
    subs_term = common.coq_list(f"({it.batch(b)}, {st})" for b, st, _ in subs)
    cases = [{"kind": "concurrent", "nontrivial": True,
              "desc": f"{W} concurrent writer processes x {nb} batches: table has {len(rows)} rows, "
                      f"{sum(1 for _, st, _ in subs if st == 0)} batches reported committed, integrity_ok={ok}, "
                      f"raised: {[s for _, st, s in subs if st != 0][:3]}",
              "term": f"CReach [] {subs_term} {common.coq_list(str(i) for i in order)} {it.rows_term(rows)} "
                      f"{common.coq_bool(ok and unknown == 0)}"}]
    only_batches = common.coq_list(it.batch(b) for b, _, _ in subs)
    for s in snaps:
        if s["k"] == "rows":
            dist["conc_reader_snapshots"] += 1
            rws = [tuple(r) for r in s["rows"]]
            pt = "None" if s["p"] is None else f"(Some {common.coq_str(s['p'])})"
            cases.append({"kind": "concurrent-read", "nontrivial": len(rws) > 0,
                          "desc": f"reader during {W} writers: filter({s['m']!r}, {s['p']!r}) returned {len(rws)} rows",
                          "term": f"CSnap [] {only_batches} {common.coq_str(s['m'])} {pt} 2000%N {it.rows_term(rws)}"})
        elif s["k"] == "mods":
            dist["conc_reader_snapshots"] += 1
            ms = common.coq_list(common.coq_str(m) for m in s["mods"])
            cases.append({"kind": "concurrent-read", "nontrivial": len(s["mods"]) > 0,
                          "desc": f"reader during {W} writers: list_modules() returned {s['mods']}",
                          "term": f"CSnapMods [] {only_batches} {ms}"})
        else:
            dist["conc_reader_errors"] += 1
    pre = [subs[i][0] for i in order]
    if len(rows) == sum(len([r for r in b if r]) for b in pre):
        cases.append(_post_history(path, it, pre, "P"))
    for suffix in ("", "-journal"):
        if os.path.exists(path + suffix):
            os.remove(path + suffix)
    return cases


def campaign_concurrency(work, tier, it, dist):
    rounds = [(2, 4, 25), (5, 3, 25), (16, 2, 30)] if tier == "quick" else \
        [(W, 5, 40) for W in range(2, 17)] + [(16, 8, 60), (12, 8, 60)]
    cases = []
    # rounds run one after another (each already uses up to 17 processes)
    for i, (W, nb, nsnap) in enumerate(rounds):
        dist["conc_rounds"] += 1
        dist[f"conc_writers_{W}"] += 1
        cases += one_concurrency_round(work, it, dist, i, W, nb, nsnap)
    return cases


# ------------------------------------------------------------------------------------------------
# describing failures
# ------------------------------------------------------------------------------------------------
def describe_history(pre, steps, tables=None):
    """(index, sentence) of the first step whose observation breaks the property according to the reference, else None.
    With `tables` (table name per connection) every table of the file has its own reference state."""
    refs = {sm.TABLE: sm.RefModel(pre)}
    for i, (op, obs) in enumerate(steps):
        t = sm.table_of(op, tables)
        ref = refs.setdefault(t or sm.TABLE, sm.RefModel())
        if op[0] == "filter":
            d = ref.describe_filter(op, obs)
            if d:
                return i, d
        elif op[0] == "modules":
            want = {r[0] for r in ref.rows if r[0]}
            if obs["k"] != "mods" or set(obs["mods"]) != want or len(set(obs["mods"])) != len(obs["mods"]):
                got = obs.get("mods", obs.get("err"))
                if isinstance(got, list) and len(got) + len(want) > 24:
                    return i, (f"list_modules() returned {len(got)} modules ({len(set(got))} distinct), "
                               f"{len(want)} modules have rows; missing e.g. {sorted(want - set(got))[:3]}, "
                               f"unexpected e.g. {sorted(set(got) - want)[:3]}")
                return i, f"list_modules() returned {got}, modules with rows: {sorted(want)}"
        elif op[0] == "table":
            if list(obs["table"]) != ref.rows or not obs["ok"]:
                return i, (f"table {t} read through an independent connection has {len(obs['table'])} rows, the batches "
                           f"committed through its stores have {len(ref.rows)} (integrity_ok={obs['ok']})")
        elif op[0] == "add_fault" and obs["k"] != "none":
            full = ref.rows + [r for r in sm.batch_rows(op[2]) if r is not None]
            if list(obs["table"]) not in (ref.rows, full) or not obs["ok"]:
                return i, (f"add() interrupted by {op[3]} left {len(obs['table'])} rows; before: {len(ref.rows)}, "
                           f"whole batch would be {len(full)} (integrity_ok={obs['ok']}, error {obs.get('err')})")
        elif op[0] == "config":
            if not sm.config_ok(obs):
                return i, ("the connection built by SQLiteStore.make_store() is configured "
                           + ", ".join(f"{k}={obs[k]}" for k in sm.CONFIG_KEYS)
                           + ": atomic commit / durability of a batch needs an on-disk journal (delete|truncate|persist|wal), "
                             "synchronous != OFF, normal locking and transactional `with conn:`")
        elif obs["k"] == "raised":
            return i, (f"{op[0]}() raised {obs.get('err')}" +
                       ("; the batch's serialisable traces are lost" if op[0] == "add" else ""))
        ref.apply(op, obs)
    return None


def summarise_ops(ops):
    out = []
    for op in ops:
        if op[0] == "tables":
            out.append("stores " + ", ".join(f"conn{i} on table {t}" for i, t in enumerate(op[1])))
        if op[0] in ("add", "add_fault"):
            rows = [f"{r[0]}:{r[1]}" if r else "<unserialisable>" for r in sm.op_rows(op)]
            if len(rows) > 12:
                rows = f"<batch of {len(rows)} traces, {len([r for r in rows if r != '<unserialisable>'])} serialisable: " \
                       f"{rows[:3]} ...>"
            day = f", day{op[3]:+d}" if op[0] == "add" and len(op) > 3 and op[3] is not None else ""
            if sm.container_of(op) != "list":
                day += f", batch passed as {sm.container_of(op)}"
            out.append(("add" if op[0] == "add" else f"add[{op[3][0]}]") + f"(conn{op[1]}, {rows}{day})")
        elif op[0] == "filter":
            out.append(f"filter(conn{op[1]}, {op[2]!r}, {op[3]!r}, {op[4]})")
        elif op[0] == "modules":
            out.append(f"list_modules(conn{op[1]})")
        elif op[0] == "reopen":
            out.append(f"reopen(conn{op[1]})")
        elif op[0] == "config":
            out.append(f"read PRAGMAs of conn{op[1]}")
    return "; ".join(out)


def minimise(work, ops):
    """drop operations while the last query keeps failing (reference-guided delta debugging on the real store)"""
    path = os.path.join(work, "min.db")

    tables, body = sm.split_head(ops)
    head = [["tables", tables]] if tables else []

    def fails(cand):
        steps = sm.run_history(path, head + cand)
        d = describe_history([], steps, tables)
        return d is not None and d[0] == len(cand) - 1
    cur = body
    if not fails(cur):
        return ops
    i = len(cur) - 2
    while i >= 0:
        cand = cur[:i] + cur[i + 1:]
        if fails(cand):
            cur = cand
        i -= 1
    # shrink the batches too
    for bi, op in enumerate(cur[:-1]):
        if op[0] == "add" and len(op[2]) <= 12:
            j = len(op[2]) - 1
            while j >= 0:
                cand_op = [op[0], op[1], op[2][:j] + op[2][j + 1:]] + list(op[3:])
                cand = cur[:bi] + [cand_op] + cur[bi + 1:]
                if fails(cand):
                    cur, op = cand, cand_op
                j -= 1
    return head + cur


# ------------------------------------------------------------------------------------------------
class cases_built:
    """Context manager: holds the shared build lock, regenerates Gen/*.v from the repo under test and (re)builds
    Check/StoreCases.vo, so that the case shards are evaluated against exactly that build (other checks running in
    parallel regenerate Gen/Constants.v from *their* tree).  Check/StoreCases.vo depends on the model only; it is
    built even when Props/C09.vo does not check (a changed query operator breaks the proof, and that is exactly when
    a failing input must be searched for)."""

    def __init__(self, work=None):
        self.work = work
        self.fallback = None      # reason, when the shards are evaluated against the reference constants
        self.saved_coq = None

    def __enter__(self):
        import fcntl
        self.lock = open(os.path.join(common.VERIF, ".build.lock"), "w")
        fcntl.flock(self.lock, fcntl.LOCK_EX)
        try:
            ok, msg = common.regenerate_all()
            why = None
            if not ok:
                # only the generated files this property's Coq files import concern it
                mine = common.gen_failures_for(["Check/StoreCases.v", "Props/C09.v"])
                ok = not mine
                msg = "; ".join(mine.values())
            if not ok:
                why = "source extractor failed closed: " + msg
            else:
                if common.write_coqproject() or not os.path.exists(os.path.join(common.COQ, "Makefile")):
                    subprocess.run(["coq_makefile", "-f", "_CoqProject", "-o", "Makefile"], cwd=common.COQ,
                                   capture_output=True, text=True)
                p = subprocess.run(["timeout", "900", "make", "-j", "8", "Check/StoreCases.vo"], cwd=common.COQ,
                                   capture_output=True, text=True)
                if p.returncode != 0:
                    why = "Check/StoreCases.vo does not build: " + (p.stdout + p.stderr)[-600:]
            if why is not None:
                # The model no longer knows the code's shape.  The property predicate (verdict 2) does not depend on
                # it, so evaluate the cases against a private build with the reference constants: the search for a
                # concrete failing history must still run.
                if self.work is None:
                    raise RuntimeError(why)
                self.fallback = why
                self.saved_coq = common.COQ
                common.COQ = sm.build_reference_coq(self.work)
        except BaseException:
            self.__exit__(None, None, None)
            raise
        return self

    def __exit__(self, *exc):
        import fcntl
        if self.saved_coq is not None:
            common.COQ = self.saved_coq
            self.saved_coq = None
        fcntl.flock(self.lock, fcntl.LOCK_UN)
        self.lock.close()
        return False


def run(ctx):
    import collections
    sm.quiet()
    rnd = random.Random(ctx.seed * 1000003 + 9)
    quick = ctx.tier == "quick"
    it = sm.Interner()
    dist = collections.Counter()
    cases = []          # dicts with: kind, term, nontrivial, and (ops, steps, pre) or desc

    # 1. literal exhaustive histories
    L = 3 if quick else 4
    histories = []
    for n in range(1, L + 1):
        for combo in itertools.product(LITERAL_ALPHABET, repeat=n):
            histories.append(("exhaustive", list(combo) + [["table"]]))
    n_exh = len(histories)
    if quick:   # a sample of the next length
        for _ in range(300):
            histories.append(("exhaustive-sampled-len4", [rnd.choice(LITERAL_ALPHABET) for _ in range(4)] + [["table"]]))
    # 2. every mutator sequence x the query sweep
    sweep = query_sweep()
    seqs = [list(c) for n in range(0, 3) for c in itertools.product(MUTATORS, repeat=n)]
    seqs3 = [list(c) for c in itertools.product(MUTATORS, repeat=3)]
    seqs += rnd.sample(seqs3, 50) if quick else seqs3
    for s in seqs:
        ops = []
        for o in s:
            ops += [o, ["table"]]
        histories.append(("sweep", ops + sweep))
    # 3. random histories
    for _ in range(250 if quick else 3000):
        histories.append(("random", random_history(rnd)))
    # 4. unserialisable traces at every position
    for ops in campaign_positions(ctx.tier):
        histories.append(("unserialisable-positions", ops))
    # 4a. stores on different tables of one file
    for ops in campaign_tables(rnd, ctx.tier):
        histories.append(("two-tables", ops))
    for ops in campaign_config():
        histories.append(("store-configuration", ops))
    for ops in campaign_requery():
        histories.append(("requery", ops))
    for ops in campaign_many_modules():
        histories.append(("many-modules", ops))
    if not quick:          # 100200 raw rows: about 30 s of execution and evaluation, thorough tier only
        for ops in campaign_row_cap():
            histories.append(("row-cap", ops))
    # 4b. the same rows committed on different calendar days
    for ops in campaign_days(ctx.tier):
        histories.append(("calendar-days", ops))
    # 5. interrupt at every VM step
    for ops, total in campaign_interrupt(ctx.work, ctx.tier):
        dist["interrupt_points"] += total + 2
        histories.append(("interrupt-every-step", ops))

    # 5b. one large batch interrupted at points spread over the whole insert
    ops, total = campaign_big_batch(ctx.work, ctx.tier)
    dist["big_batch_vm_steps"] = total
    histories.append(("big-batch-interrupt", ops))

    t_exec = time.time()
    results = exec_histories(ctx.work, [h for _, h in histories])
    for (kind, ops), steps in zip(histories, results):
        tables, _ = sm.split_head(ops)
        refs = {}
        nontrivial_q = False
        for op, obs in steps:
            ref = refs.setdefault(sm.table_of(op, tables) or sm.TABLE, sm.RefModel())
            dist["op_" + op[0]] += 1
            if op[0] == "add_fault":
                if obs["k"] == "none":
                    dist["fault_not_fired"] += 1
                else:
                    dist["fault_" + op[3][0]] += 1
                    if len(obs["table"]) > len(ref.rows):
                        dist["add_raised_but_committed"] += 1
            if op[0] == "filter" and ref.wanted(op[2], op[3]) and op[4] > 0:
                nontrivial_q = True
            ref.apply(op, obs)
        dist["hist_" + kind] += 1
        dist["hist_len_%s" % ("1-4" if len(ops) <= 5 else "5-20" if len(ops) <= 20 else "21-60" if len(ops) <= 60 else "61+")] += 1
        any_rows = any(r.rows for r in refs.values())
        for t in (sorted(set(tables)) if tables else [None]):
            sub = steps if t is None else sm.project(steps, tables, t)
            cases.append({"kind": kind, "ops": ops, "steps": steps, "pre": [], "tables": tables,
                          "nontrivial": nontrivial_q and any_rows, "term": sm.hist_term(it, [], sub)})
    t_exec = time.time() - t_exec

    # 6..8 campaigns with their own case shapes
    t_camp = time.time()
    cases += campaign_mid_reads(ctx.work, ctx.tier, it, dist)
    cases += campaign_isolation(ctx.work, it)
    cases += campaign_kill(ctx.work, ctx.tier, rnd, it, dist)
    cases += campaign_concurrency(ctx.work, ctx.tier, it, dist)
    # (the file has to grow by more than the 2 MB page cache before pages of the committed index are written over)
    for i, grow in enumerate([2200000] if quick else [1500000, 2200000, 3500000, 5000000]):
        cases += spill_kill(ctx.work, it, dist, i, grow, with_post=False)
    t_camp = time.time() - t_camp

    t_coq = time.time()
    with cases_built(ctx.work) as cb:
        fallback = cb.fallback
        header = it.compile_defs(ctx.work)
        t_defs = time.time() - t_coq
        outs = common.run_coq_shards(ctx.work, "c09", header, [c["term"] for c in cases], "scase",
                                     "bad verdict_c09 0 cases", shard_size=125 if quick else 400)
    bad = common.parse_bad(outs)
    t_coq = time.time() - t_coq

    failures, mismatches = [], []
    for i, code in sorted(bad, key=lambda ic: (len(cases[ic[0]].get("ops", [])) or 10 ** 6, ic[0])):
        c = cases[i]
        rec = {"kind": c["kind"], "verdict": code}
        if "steps" in c:
            tables, body = sm.split_head(c["ops"])
            head = [["tables", tables]] if tables else []
            d = describe_history(c["pre"], c["steps"], tables)
            rec["ops"] = c["ops"]
            rec["pre"] = c["pre"]
            if d:
                k, sentence = d
                rec["failing_step"] = k
                rec["observed"] = c["steps"][k][1]
                prefix_ops = head + body[:k + 1]
                if code == 2 and not failures and not c["pre"] and not c.get("no_replay"):
                    prefix_ops = minimise(ctx.work, prefix_ops)
                    steps = sm.run_history(os.path.join(ctx.work, "min.db"), prefix_ops)
                    d2 = describe_history([], steps, tables)
                    if d2:
                        sentence = d2[1]
                        rec["observed"] = steps[d2[0]][1]
                rec["ops"] = prefix_ops
                rec["what"] = f"[{c['kind']}] after {summarise_ops(prefix_ops[:-1]) or 'nothing'}: {sentence}"
            else:
                rec["what"] = (f"[{c['kind']}] Coq verdict {code} on a history of {len(c['ops'])} operations "
                               f"({summarise_ops(c['ops'])[:300]}); the Python reference sees no difference")
        else:
            rec["what"] = f"[{c['kind']}] {c['desc']}"
            rec["term"] = c["term"][:3000]
        if code == 2:
            failures.append(rec)
        else:
            mismatches.append(rec)
    if fallback:
        dist["evaluated_against_reference_constants"] = 1
        if hasattr(ctx, "notes"):
            ctx.notes.append("C09 cases judged against reference constants: " + fallback[:300])
        for r in mismatches:
            r["what"] = "(reference constants) " + r["what"]
    n_fail, n_mis = len(failures), len(mismatches)
    distinct = len({common.digest(c["term"]) for c in cases if c["nontrivial"]})
    dist = dict(dist)
    dist.update({"rows_interned": len(it.rows), "seconds_histories": round(t_exec, 1), "seconds_campaigns": round(t_camp, 1),
                 "seconds_coq": round(t_coq, 1), "seconds_coq_defs": round(t_defs, 1), "failures_total": n_fail, "mismatches_total": n_mis})

    def sample(c):
        if "steps" in c:
            return {"kind": c["kind"], "ops": summarise_ops(c["ops"])[:600],
                    "answers": [o for _, o in c["steps"] if o["k"] in ("rows", "mods")][:3]}
        return {"kind": c["kind"], "what": c["desc"]}
    picks = [c for c in cases if c["kind"] == "random"][:1] + [c for c in cases if c["kind"] == "sigkill"][:1] + \
            [c for c in cases if c["kind"] == "concurrent"][:1]
    return {
        "evaluations": len(cases), "distinct_nontrivial": distinct,
        "rule": f"all {n_exh} operation sequences of length <= {L} over a 13-operation alphabet (4 adds with colliding (case, LIKE and GLOB metacharacters) "
                "names, duplicates and unserialisable traces on 3 connections, an interrupted add, reopen, 5 filters, "
                "list_modules); every sequence of <= 3 mutators (adds, interrupted / locked-out / BaseException adds, reopen) "
                "followed by a sweep of 117 queries (3 modules x 26 prefixes incl. None, '', wildcard and case variants; "
                "limits 0..3, 2000); random histories of 5..40 operations; batches with unserialisable traces at every "
                "subset of positions, handed to add() as list / tuple / generator / iterator / dict view; the same rows committed on different calendar days (patched clock) in every order, "
                "limits 1..d+2; interrupt of the insert at every VM step; reads from inside another connection's "
                "transaction; SIGKILL of writer processes at VM steps / random times; 2..16 concurrent writers + reader. "
                "Each case is one history (or one post-fault table / concurrent answer); non-trivial = a row is committed "
                "and a query with a non-empty correct answer is asked (campaign cases: a batch is committed); distinct by "
                "hash of the reified case",
        "samples": [sample(c) for c in picks],
        "distribution": dist,
        "failures": failures[:25], "mismatches": mismatches[:25],
        "relation": "filter_answerb / modules_answerb / table = run ops (Check/StoreCases.verdict_c09)",
        "exhaustive": True,
        "extra": {"exhaustive_scope": f"operation sequences of length <= {L} over LITERAL_ALPHABET ({n_exh} histories); "
                                      f"mutator sequences of length <= {2 if quick else 3} x query sweep",
                  "not_proved_but_exercised": PARTIAL},
    }


def replay(ctx, payload):
    """re-run a stored history against the real store; print implementation answer and the property judgement"""
    sm.quiet()
    ops = payload.get("ops")
    if not ops:
        print(json.dumps(payload, indent=1)[:4000])
        return 0
    tables, _ = sm.split_head(ops)
    steps = sm.run_history(os.path.join(ctx.work, "replay.db"), ops)
    for op, obs in steps:
        shown = {k: v for k, v in obs.items() if k != "table"}
        print("  ", summarise_ops([op]) or op[0], "->", json.dumps(shown, default=str)[:400])
    d = describe_history([], steps, tables)
    it = sm.Interner()
    terms = [sm.hist_term(it, [], sm.project(steps, tables, t)) for t in sorted(set(tables))] if tables else \
        [sm.hist_term(it, [], steps)]
    with cases_built(ctx.work):
        outs = common.run_coq_shards(ctx.work, "replay", it.compile_defs(ctx.work, "replaydefs"), terms, "scase",
                                     "bad verdict_c09 0 cases ++ map (fun o => match o with Some i => (1000, i) | None => (1000, 1000) end) "
                                     "(map first_bad cases)")
    print("Coq [(case, verdict)] ++ [(1000, index of the first failing step | 1000 = none)]:",
          " ".join(outs[0][1].split()))
    print("property:", "VIOLATED - " + d[1] if d else "holds on this history")
    return 1 if d else 0


CLAIM = {'text': 'Coq model of the trace store as a state machine over committed rows (Model/Store.v; query operator, '
                 'GROUP BY/SELECT columns, add/list_modules shape regenerated from source) with theorems over ALL histories: '
                 'filter_spec (accepted answers = distinct committed rows of module m whose qualname literally starts with p, '
                 'min(n,d) of them), modules_spec, add_atomic/add_not_torn, history_refines_set, schedule_irrelevant; '
                 'SQLite LIKE modelled structurally to show the unrepaired operator refuted. Real SQLiteStore histories '
                 '(exhaustive to length 3/4, random to 40, three connections) judged in Coq against the model state; '
                 'atomicity/durability/serialisability exercised by interrupt-at-every-VM-step, SIGKILL, reopen and 2..16 '
                 'concurrent writers with independent re-reads and integrity_check.',
         'note': 'Partial: SQLite transactions/journal/locking are assumed and exercised, not proved. Trusted: Coq kernel + '
                 'vm_compute; harness; extract_store.py; SQLite query semantics as modelled (ASCII, byte-level).',
         'technique': 'Coq refinement proof (induction over operation lists) + vm_compute differential correspondence + fault campaigns',
         'ref': '4/C09'}
