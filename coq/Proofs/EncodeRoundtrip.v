(* Proofs/EncodeRoundtrip.v — C08: the codec model round-trips every well-formed type built from importable
   classes (structural induction with the nested principle ty_ind'), keeps "absent" apart from NoneType, and
   round-trips call traces. *)
From MT Require Import Types TypesFacts Encode EncodeSort Constants.
From Coq Require Import Lia Permutation.
Open Scope string_scope.
Open Scope list_scope.

(* ---------- small generic helpers ---------- *)
Lemma Forall_mp {A} (P Q : A -> Prop) l : Forall (fun x => P x -> Q x) l -> Forall P l -> Forall Q l.
Proof. intros H. induction H as [|x r Hx Hr IH]; intros HP; [constructor|]. inversion HP; subst. constructor; auto. Qed.

Lemma sequence_map_ok {A B} (f : A -> result B) (g : A -> B) l :
  Forall (fun x => f x = Ok (g x)) l -> sequence (map f l) = Ok (map g l).
Proof. induction 1 as [|x r Hx Hr IH]; [reflexivity|]. cbn [map sequence]. rewrite Hx, IH. reflexivity. Qed.

Lemma sequence_kv_map_ok {A B} (f : A -> result B) (g : A -> B) (l : list (string * A)) :
  Forall (fun x => f (snd x) = Ok (g (snd x))) l ->
  sequence_kv (map (fun x => (fst x, f (snd x))) l) = Ok (map (fun x => (fst x, g (snd x))) l).
Proof. induction 1 as [|x r Hx Hr IH]; [reflexivity|]. cbn [map sequence_kv fst snd]. rewrite Hx, IH. reflexivity. Qed.

Lemma existsb_false_iff {A} (f : A -> bool) l : existsb f l = false <-> forall x, In x l -> f x = false.
Proof.
  induction l as [|a r IH]; cbn [existsb]; split; intros H.
  - intros x [].
  - reflexivity.
  - apply orb_false_iff in H. destruct H as [H1 H2]. intros x [<-|Hx]; [exact H1|]. apply IH; assumption.
  - apply orb_false_iff. split; [apply H; left; reflexivity|]. apply IH. intros x Hx. apply H. right. exact Hx.
Qed.

Lemma all_rty_l_map ts : all_rty_l (map RTy ts) = Some ts.
Proof. induction ts as [|t r IH]; [reflexivity|]. cbn [map all_rty_l]. rewrite IH. reflexivity. Qed.

Lemma all_rty_map (fs : list (string * ty)) : all_rty (map (fun f => (fst f, RTy (snd f))) fs) = Some fs.
Proof. induction fs as [|[k t] r IH]; [reflexivity|]. cbn [map all_rty fst snd]. rewrite IH. reflexivity. Qed.

Lemma map_fst_map {A B} (g : A -> B) (l : list (string * A)) : map fst (map (fun f => (fst f, g (snd f))) l) = map fst l.
Proof. rewrite map_map. apply map_ext. reflexivity. Qed.

(* ---------- corrb, unfolded ---------- *)
Lemma corrb_tuple xs ys : corrb (TTuple xs) (TTuple ys) = forallb2 corrb xs ys.
Proof. cbn [corrb]. revert ys. induction xs as [|x r IH]; intros [|y ys]; try reflexivity.
  cbn [forallb2]. rewrite <- IH. reflexivity. Qed.

Fixpoint rm_c (x : ty) (ys : list ty) : option (list ty) :=
  match ys with [] => None | y :: r => if corrb x y then Some r else option_map (cons y) (rm_c x r) end.
Fixpoint perm_c (xs ys : list ty) : bool :=
  match xs with
  | [] => match ys with [] => true | _ => false end
  | x :: xs' => match rm_c x ys with Some ys' => perm_c xs' ys' | None => false end
  end.

Lemma corrb_union xs ys : corrb (TUnion xs) (TUnion ys) = perm_c xs ys.
Proof.
  cbn [corrb]. revert ys. induction xs as [|x r IH]; intros ys; [reflexivity|].
  cbn [perm_c].
  assert (E : forall l, (fix rm (ys0 : list ty) : option (list ty) :=
            match ys0 with [] => None | y :: r0 => if corrb x y then Some r0 else option_map (cons y) (rm r0) end) l
          = rm_c x l).
  { induction l as [|y l IHl]; [reflexivity|]. cbn [rm_c]. rewrite <- IHl. reflexivity. }
  rewrite E. destruct (rm_c x ys); [apply IH|reflexivity].
Qed.

Definition fsub_c (xs ys : list (string * ty)) : bool :=
  forallb (fun f => match lookup_f (fst f) ys with Some y => corrb (snd f) y | None => false end) xs.

Lemma corrb_td r o r' o' :
  corrb (TTypedDict r o) (TTypedDict r' o') =
  Nat.eqb (List.length r) (List.length r') && fsub_c r r' && Nat.eqb (List.length o) (List.length o') && fsub_c o o'.
Proof.
  cbn [corrb]. unfold fsub_c.
  assert (E : forall xs ys,
    (fix fsub (xs0 ys0 : list (string * ty)) {struct xs0} : bool :=
       match xs0 with
       | [] => true
       | f :: xs' => match lookup_f (fst f) ys0 with Some y => corrb (snd f) y | None => false end && fsub xs' ys0
       end) xs ys
    = forallb (fun f => match lookup_f (fst f) ys with Some y => corrb (snd f) y | None => false end) xs).
  { induction xs as [|x xs IH]; intros ys; [reflexivity|]. cbn [forallb]. rewrite <- IH. reflexivity. }
  rewrite !E. reflexivity.
Qed.

(* ---------- has_td and Python == ---------- *)
Lemma py_eqb_has_td a : forall b, py_eqb a b = true -> has_td a = has_td b.
Proof.
  induction a as [ | c | x IH | | x IH | x IH | x IH | k v IHk IHv | k v IHk IHv | xs IH | x IH
                 | a1 a2 a3 IH1 IH2 IH3 | xs IH | r o IHr IHo | s ] using ty_ind';
    intros b E; destruct b; cbn [py_eqb] in E; try discriminate E; cbn [has_td]; try reflexivity; auto.
  - apply andb_prop in E. destruct E as [E1 E2]. rewrite (IHk _ E1), (IHv _ E2). reflexivity.
  - apply andb_prop in E. destruct E as [E1 E2]. rewrite (IHk _ E1), (IHv _ E2). reflexivity.
  - change (py_eqb (TTuple xs) (TTuple ts) = true) in E. rewrite py_eqb_TTuple in E.
    revert ts E. induction IH as [|x l Hx Hl IHl]; intros [|y ys] E; cbn [forallb2] in E; try discriminate E; [reflexivity|].
    apply andb_prop in E. destruct E as [E1 E2]. cbn [existsb]. rewrite (Hx _ E1), (IHl _ E2). reflexivity.
  - apply andb_prop in E. destruct E as [E E3]. apply andb_prop in E. destruct E as [E1 E2].
    rewrite (IH1 _ E1), (IH2 _ E2), (IH3 _ E3). reflexivity.
  - change (py_eqb (TUnion xs) (TUnion ts) = true) in E. rewrite py_eqb_TUnion in E.
    apply andb_prop in E. destruct E as [E1 E2].
    assert (F : forall (l : list ty) g, forallb (fun x => negb (has_td x) && g x) l = true -> existsb has_td l = false).
    { intros l g H. apply existsb_false_iff. intros x Hx. rewrite forallb_forall in H. specialize (H x Hx).
      apply andb_prop in H. destruct H as [H _]. apply negb_true_iff in H. exact H. }
    rewrite (F _ _ E1), (F _ _ E2). reflexivity.
Qed.

(* ================================================================================================ *)
Section RT.
Variable cname : cls -> string * string.
Variable site : string.
Variable env : string -> string -> lookup.
Variable hidden : string -> option cls.

(* the class's own (module, qualname) leads back to it *)
Definition importable (c : cls) : Prop :=
  resolve env hidden (fst (cname c)) (snd (cname c)) = LFound (OClass c).

(* the typing module is what it is *)
Definition typing_ok : Prop :=
  env m_typing "Any" = LFound OAny
  /\ forall g, match g with GOther _ => True | _ => env m_typing (gen_name g) = LFound (OGen g) end.

(* what a live, serialisable typing object looks like: no Tuple[T, ...] / forward reference, classes
   importable, unions in typing's normal form, TypedDict keys distinct *)
Inductive good : ty -> Prop :=
| G_Any : good TAny
| G_Callable : good TCallable
| G_Cls c : importable c -> good (TCls c)
| G_Type x : good x -> good (TType x)
| G_List x : good x -> good (TList x)
| G_Set x : good x -> good (TSet x)
| G_Iterator x : good x -> good (TIterator x)
| G_Dict k v : good k -> good v -> good (TDict k v)
| G_DefaultDict k v : good k -> good v -> good (TDefaultDict k v)
| G_Tuple ts : Forall good ts -> good (TTuple ts)
| G_Generator a b c : good a -> good b -> good c -> good (TGenerator a b c)
| G_Union ts : Nat.leb 2 (List.length ts) = true -> forallb (fun x => negb (is_tunion x)) ts = true ->
               nodupb [] ts = true -> Forall good ts -> good (TUnion ts)
| G_TD r o : nodup_strb (map fst r ++ map fst o) = true ->
             Forall (fun f => good (snd f)) r -> Forall (fun f => good (snd f)) o -> good (TTypedDict r o).

(* ---------- good, from the boolean predicates of Model/Encode.v ---------- *)
Lemma enc_split2 a b c d :
  negb (a || b) && negb (c || d) = true -> (negb a && negb c = true) /\ (negb b && negb d = true).
Proof. destruct a, b, c, d; cbn; intuition discriminate. Qed.

Lemma encodable_list ts :
  negb (existsb has_tuplevar ts) && negb (existsb has_fwd ts) = true -> Forall (fun x => encodable x = true) ts.
Proof.
  induction ts as [|t r IH]; intros H; [constructor|]. cbn [existsb] in H.
  apply enc_split2 in H. destruct H as [H1 H2]. constructor; [exact H1|apply IH; exact H2].
Qed.

Lemma encodable_fields (fs : list (string * ty)) :
  negb (existsb (fun f => has_tuplevar (snd f)) fs) && negb (existsb (fun f => has_fwd (snd f)) fs) = true ->
  Forall (fun f => encodable (snd f) = true) fs.
Proof.
  induction fs as [|t r IH]; intros H; [constructor|]. cbn [existsb] in H.
  apply enc_split2 in H. destruct H as [H1 H2]. constructor; [exact H1|apply IH; exact H2].
Qed.

Lemma forallb_Forall {A} (f : A -> bool) l : forallb f l = true -> Forall (fun x => f x = true) l.
Proof. intros H. apply Forall_forall. apply forallb_forall. exact H. Qed.

Lemma Forall4 {A} (P1 P2 P3 P4 Q : A -> Prop) l :
  Forall (fun x => P1 x -> P2 x -> P3 x -> P4 x -> Q x) l ->
  Forall P1 l -> Forall P2 l -> Forall P3 l -> Forall P4 l -> Forall Q l.
Proof.
  intros H. induction H as [|x r Hx Hr IH]; intros H1 H2 H3 H4; [constructor|].
  inversion H1; inversion H2; inversion H3; inversion H4; subst. constructor; auto.
Qed.

Lemma good_of_bools t :
  encodable t = true -> union_nfb t = true -> wf_tyb t = true -> Forall importable (classes t) -> good t.
Proof.
  induction t as [ | c | x IH | | x IH | x IH | x IH | k v IHk IHv | k v IHk IHv | xs IH | x IH
                 | a1 a2 a3 IH1 IH2 IH3 | xs IH | r o IHr IHo | s ] using ty_ind';
    intros E N W I; try (constructor; fail); try (cbn in E; discriminate E).
  - constructor. cbn [classes] in I. inversion I; assumption.
  - constructor. apply IH; assumption.
  - constructor. apply IH; assumption.
  - constructor. apply IH; assumption.
  - constructor. apply IH; assumption.
  - unfold encodable in E. cbn [has_tuplevar has_fwd union_nfb wf_tyb classes] in *.
    apply enc_split2 in E. destruct E. apply andb_prop in N, W. destruct N, W. apply Forall_app in I. destruct I.
    constructor; [apply IHk|apply IHv]; assumption.
  - unfold encodable in E. cbn [has_tuplevar has_fwd union_nfb wf_tyb classes] in *.
    apply enc_split2 in E. destruct E. apply andb_prop in N, W. destruct N, W. apply Forall_app in I. destruct I.
    constructor; [apply IHk|apply IHv]; assumption.
  - unfold encodable in E. cbn [has_tuplevar has_fwd union_nfb wf_tyb classes] in *.
    constructor. apply encodable_list in E. apply forallb_Forall in N, W. apply Forall_flat_map in I.
    exact (Forall4 _ _ _ _ _ _ IH E N W I).
  - unfold encodable in E. cbn [has_tuplevar has_fwd union_nfb wf_tyb classes] in *.
    assert (E' : (negb (has_tuplevar a1) && negb (has_fwd a1) = true)
                 /\ (negb (has_tuplevar a2) && negb (has_fwd a2) = true)
                 /\ (negb (has_tuplevar a3) && negb (has_fwd a3) = true)).
    { destruct (has_tuplevar a1), (has_tuplevar a2), (has_tuplevar a3), (has_fwd a1), (has_fwd a2), (has_fwd a3);
        cbn in E; try discriminate E; repeat split. }
    destruct E' as [E1 [E2 E3]].
    apply andb_prop in N, W. destruct N as [N N3], W as [W W3]. apply andb_prop in N, W. destruct N, W.
    apply Forall_app in I. destruct I as [I1 I]. apply Forall_app in I. destruct I.
    constructor; [apply IH1|apply IH2|apply IH3]; assumption.
  - unfold encodable in E. cbn [has_tuplevar has_fwd union_nfb wf_tyb classes] in *.
    apply andb_prop in N. destruct N as [N N4]. apply andb_prop in N. destruct N as [N N3].
    apply andb_prop in N. destruct N as [N1 N2].
    constructor; try assumption.
    apply encodable_list in E. apply forallb_Forall in N4, W. apply Forall_flat_map in I.
    exact (Forall4 _ _ _ _ _ _ IH E N4 W I).
  - unfold encodable in E. cbn [has_tuplevar has_fwd union_nfb wf_tyb classes] in *.
    assert (E' : (negb (existsb (fun f => has_tuplevar (snd f)) r) && negb (existsb (fun f => has_fwd (snd f)) r) = true)
                 /\ (negb (existsb (fun f => has_tuplevar (snd f)) o) && negb (existsb (fun f => has_fwd (snd f)) o) = true)).
    { apply enc_split2. exact E. }
    destruct E' as [E1 E2]. apply encodable_fields in E1, E2.
    apply andb_prop in N. destruct N as [N1 N2]. apply forallb_Forall in N1, N2.
    apply andb_prop in W. destruct W as [W W3]. apply andb_prop in W. destruct W as [W1 W2].
    apply forallb_Forall in W2, W3.
    apply Forall_app in I. destruct I as [I1 I2]. apply Forall_flat_map in I1, I2.
    constructor; [exact W1| |].
    + exact (Forall4 (fun f => encodable (snd f) = true) (fun f => union_nfb (snd f) = true)
                     (fun f => wf_tyb (snd f) = true) (fun f => Forall importable (classes (snd f))) _ _ IHr E1 N1 W2 I1).
    + exact (Forall4 (fun f => encodable (snd f) = true) (fun f => union_nfb (snd f) = true)
                     (fun f => wf_tyb (snd f) = true) (fun f => Forall importable (classes (snd f))) _ _ IHo E2 N2 W3 I2).
Qed.

(* ---------- the encoder never fails on a good type: a total form ---------- *)
Fixpoint enc0 (t : ty) : json :=
  match t with
  | TTypedDict req opt =>
      jtd site dummy_td_name
        [(k_optional, jtd site dummy_opt_name (map (fun f => (fst f, enc0 (snd f))) opt));
         (k_required, jtd site dummy_req_name (map (fun f => (fst f, enc0 (snd f))) req))]
  | TUnion ts => jtype m_typing (gen_name GUnion) (Some (map enc0 ts))
  | TAny => jtype m_typing "Any" None
  | TCls c => jtype (fst (cname c)) (snd (cname c)) None
  | TCallable => jtype m_typing (gen_name GCallable) None
  | TType x => jtype m_typing (gen_name GType) (Some [enc0 x])
  | TList x => jtype m_typing (gen_name GList) (Some [enc0 x])
  | TSet x => jtype m_typing (gen_name GSet) (Some [enc0 x])
  | TIterator x => jtype m_typing (gen_name GIterator) (Some [enc0 x])
  | TDict k v => jtype m_typing (gen_name GDict) (Some [enc0 k; enc0 v])
  | TDefaultDict k v => jtype m_typing (gen_name GDefaultDict) (Some [enc0 k; enc0 v])
  | TTuple ts => jtype m_typing (gen_name GTuple) (Some (map enc0 ts))
  | TGenerator a b c => jtype m_typing (gen_name GGenerator) (Some [enc0 a; enc0 b; enc0 c])
  | TTupleVar _ | TFwd _ => JNull
  end.

Lemma enc0_ok t : good t -> type_to_dict cname site t = Ok (enc0 t).
Proof.
  induction t as [ | c | x IH | | x IH | x IH | x IH | k v IHk IHv | k v IHk IHv | xs IH | x IH
                 | a1 a2 a3 IH1 IH2 IH3 | xs IH | r o IHr IHo | s ] using ty_ind';
    intros G; inversion G; subst; cbn [type_to_dict enc0]; try reflexivity.
  - rewrite IH by assumption. reflexivity.
  - rewrite IH by assumption. reflexivity.
  - rewrite IH by assumption. reflexivity.
  - rewrite IH by assumption. reflexivity.
  - rewrite IHk, IHv by assumption. reflexivity.
  - rewrite IHk, IHv by assumption. reflexivity.
  - rewrite (sequence_map_ok _ enc0); [reflexivity|]. eapply Forall_mp; eassumption.
  - rewrite IH1, IH2, IH3 by assumption. reflexivity.
  - rewrite (sequence_map_ok _ enc0); [reflexivity|]. eapply Forall_mp; eassumption.
  - rewrite (sequence_kv_map_ok _ enc0) by (eapply (Forall_mp (fun f => good (snd f))); eassumption).
    rewrite (sequence_kv_map_ok _ enc0) by (eapply (Forall_mp (fun f => good (snd f))); eassumption).
    reflexivity.
Qed.

(* ---------- the decoder on the encoder's shapes ---------- *)
Notation decn := (dec env hidden).

Lemma dec_jtype m q elems :
  as_ty (decn (jtype m q elems)) =
  match resolve env hidden m q with
  | LNoModule | LNoAttr => Raises NameLookupError
  | LUnknown => OutOfModel
  | LFound (OClass c) => Ok (RTy (TCls c))
  | LFound OAny => Ok (RTy TAny)
  | LFound (OGen g) => match elems with
                       | None => bare g
                       | Some js => rbind (sequence (map (fun x => as_ty (decn x)) js)) (subscript g)
                       end
  | LFound _ => Raises InvalidTypeError
  end.
Proof.
  destruct elems as [js|]; unfold jtype; cbn [app dec map fst snd as_ty]; unfold obj_as_type;
    cbn [nlookup fst snd String.eqb Ascii.eqb Bool.eqb k_module k_qualname k_elem k_istd td_flag rbind];
    destruct (resolve env hidden m q) as [| |ob|]; try reflexivity; destruct ob; reflexivity.
Qed.

Lemma dec_jtd name fields :
  as_ty (decn (jtd site name fields)) =
  rbind (sequence_kv (map (fun kv => (fst kv, as_ty (decn (snd kv)))) fields)) (build_td name).
Proof.
  unfold jtd. cbn [dec map fst snd as_ty]. unfold obj_as_type.
  cbn [nlookup fst snd String.eqb Ascii.eqb Bool.eqb k_module k_qualname k_elem k_istd td_flag rbind].
  rewrite map_map. cbn [fst snd]. reflexivity.
Qed.

Lemma resolve_typing q : resolve env hidden m_typing q = env m_typing q.
Proof. reflexivity. Qed.

Lemma flatten_no_union ts : forallb (fun x => negb (is_tunion x)) ts = true -> flatten ts = ts.
Proof.
  unfold flatten. induction ts as [|t r IH]; intros H; [reflexivity|]. cbn [forallb] in H.
  apply andb_prop in H. destruct H as [H1 H2]. cbn [flat_map]. rewrite (IH H2).
  destruct t; try reflexivity. discriminate H1.
Qed.

Lemma nodupb_dedup : forall ts seen, nodupb seen ts = true -> dedup seen ts = ts.
Proof.
  induction ts as [|t r IH]; intros seen H; [reflexivity|]. cbn [nodupb] in H. cbn [dedup].
  apply andb_prop in H. destruct H as [H1 H2]. apply negb_true_iff in H1. rewrite H1. rewrite (IH _ H2). reflexivity.
Qed.

Lemma union_mk_nf ts :
  Nat.leb 2 (List.length ts) = true -> forallb (fun x => negb (is_tunion x)) ts = true -> nodupb [] ts = true ->
  union_mk ts = TUnion ts.
Proof.
  intros L F N. unfold union_mk. rewrite (flatten_no_union _ F), (nodupb_dedup _ _ N).
  destruct ts as [|a [|b r]]; try discriminate L. reflexivity.
Qed.

Lemma nodup_app_l (a b : list string) : nodup_strb (a ++ b) = true -> nodup_strb a = true.
Proof. rewrite !nodup_strb_NoDup. apply NoDup_app_l. Qed.
Lemma nodup_app_r (a b : list string) : nodup_strb (a ++ b) = true -> nodup_strb b = true.
Proof. rewrite !nodup_strb_NoDup. apply NoDup_app_r. Qed.

Lemma build_td_raw name (fs : list (string * ty)) :
  nodup_strb (map fst fs) = true -> String.eqb name dummy_td_name = false ->
  build_td name (map (fun f => (fst f, RTy (snd f))) fs) = Ok (RRawTD name fs).
Proof.
  intros ND NE. unfold build_td. rewrite map_fst_map, ND, NE. cbn [negb andb]. rewrite all_rty_map. reflexivity.
Qed.

Lemma dec_enc0 t : typing_ok -> good t -> as_ty (decn (enc0 t)) = Ok (RTy t).
Proof.
  intros [TA TG].
  induction t as [ | c | x IH | | x IH | x IH | x IH | k v IHk IHv | k v IHk IHv | xs IH | x IH
                 | a1 a2 a3 IH1 IH2 IH3 | xs IH | r o IHr IHo | s ] using ty_ind';
    intros G; inversion G; subst; cbn [enc0].
  - rewrite dec_jtype, resolve_typing, TA. reflexivity.
  - rewrite dec_jtype. match goal with H : importable _ |- _ => rewrite H end. reflexivity.
  - rewrite dec_jtype, resolve_typing, (TG GType). cbn [map sequence]. rewrite IH by assumption. reflexivity.
  - rewrite dec_jtype, resolve_typing, (TG GCallable). reflexivity.
  - rewrite dec_jtype, resolve_typing, (TG GList). cbn [map sequence]. rewrite IH by assumption. reflexivity.
  - rewrite dec_jtype, resolve_typing, (TG GSet). cbn [map sequence]. rewrite IH by assumption. reflexivity.
  - rewrite dec_jtype, resolve_typing, (TG GIterator). cbn [map sequence]. rewrite IH by assumption. reflexivity.
  - rewrite dec_jtype, resolve_typing, (TG GDict). cbn [map sequence]. rewrite IHk, IHv by assumption. reflexivity.
  - rewrite dec_jtype, resolve_typing, (TG GDefaultDict). cbn [map sequence]. rewrite IHk, IHv by assumption. reflexivity.
  - rewrite dec_jtype, resolve_typing, (TG GTuple). rewrite map_map.
    rewrite (sequence_map_ok _ RTy) by (eapply Forall_mp; eassumption).
    cbn [rbind subscript]. rewrite all_rty_l_map. reflexivity.
  - rewrite dec_jtype, resolve_typing, (TG GGenerator). cbn [map sequence]. rewrite IH1, IH2, IH3 by assumption. reflexivity.
  - rewrite dec_jtype, resolve_typing, (TG GUnion). rewrite map_map.
    rewrite (sequence_map_ok _ RTy) by (eapply Forall_mp; eassumption).
    cbn [rbind subscript]. rewrite all_rty_l_map.
    rewrite union_mk_nf by assumption.
    destruct xs as [|a l]; [discriminate|]. reflexivity.
  - match goal with H : nodup_strb (_ ++ _) = true |- _ => pose proof (nodup_app_l _ _ H) as NDr; pose proof (nodup_app_r _ _ H) as NDo end.
    rewrite dec_jtd. cbn [map fst snd]. rewrite !dec_jtd. rewrite !map_map. cbn [fst snd].
    rewrite (sequence_kv_map_ok (fun x => as_ty (decn (enc0 x))) RTy) by (eapply (Forall_mp (fun f => good (snd f))); eassumption).
    rewrite (sequence_kv_map_ok (fun x => as_ty (decn (enc0 x))) RTy) by (eapply (Forall_mp (fun f => good (snd f))); eassumption).
    cbn [rbind]. rewrite !build_td_raw by (assumption || reflexivity).
    reflexivity.
Qed.

(* ---------- json.dumps(sort_keys=True) of an encoding = the encoding of the field-sorted type ---------- *)
Lemma jsort_jtype m q elems :
  jsort (jtype m q elems) = jtype m q (match elems with Some js => Some (map jsort js) | None => None end).
Proof. destruct elems; reflexivity. Qed.

Lemma jsort_jtd name fields :
  jsort (jtd site name fields) = jtd site name (sort_kv (map (fun kv => (fst kv, jsort (snd kv))) fields)).
Proof. reflexivity. Qed.

Lemma jsort_fields (fs : list (string * ty)) :
  Forall (fun f => jsort (enc0 (snd f)) = enc0 (canon (snd f))) fs ->
  sort_kv (map (fun kv => (fst kv, jsort (snd kv))) (map (fun f => (fst f, enc0 (snd f))) fs))
  = map (fun f => (fst f, enc0 (snd f))) (sort_kv (map (fun f => (fst f, canon (snd f))) fs)).
Proof.
  intros H. rewrite map_map. cbn [fst snd].
  rewrite <- (sort_kv_map enc0). rewrite map_map. cbn [fst snd]. f_equal.
  apply map_ext_in. intros f Hf. rewrite Forall_forall in H. rewrite (H f Hf). reflexivity.
Qed.

Lemma jsort_enc0 t : jsort (enc0 t) = enc0 (canon t).
Proof.
  induction t as [ | c | x IH | | x IH | x IH | x IH | k v IHk IHv | k v IHk IHv | xs IH | x IH
                 | a1 a2 a3 IH1 IH2 IH3 | xs IH | r o IHr IHo | s ] using ty_ind';
    cbn [enc0 canon]; try reflexivity;
    try (rewrite jsort_jtype; cbn [map]; rewrite ?IH, ?IHk, ?IHv, ?IH1, ?IH2, ?IH3; reflexivity).
  - rewrite jsort_jtype. f_equal. f_equal. rewrite !map_map. apply map_ext_in. intros x Hx.
    rewrite Forall_forall in IH. apply IH. exact Hx.
  - rewrite jsort_jtype. f_equal. f_equal. rewrite !map_map. apply map_ext_in. intros x Hx.
    rewrite Forall_forall in IH. apply IH. exact Hx.
  - rewrite jsort_jtd. cbn [map fst snd]. rewrite !jsort_jtd. rewrite (jsort_fields r IHr), (jsort_fields o IHo).
    reflexivity.
Qed.

(* ---------- canon keeps everything the decoder needs ---------- *)
Lemma has_td_canon t : has_td (canon t) = has_td t.
Proof.
  induction t as [ | c | x IH | | x IH | x IH | x IH | k v IHk IHv | k v IHk IHv | xs IH | x IH
                 | a1 a2 a3 IH1 IH2 IH3 | xs IH | r o IHr IHo | s ] using ty_ind';
    cbn [canon has_td]; try reflexivity; try assumption;
    try (rewrite ?IHk, ?IHv, ?IH1, ?IH2, ?IH3; reflexivity).
  - induction IH as [|x l Hx Hl IHl]; [reflexivity|]. cbn [map existsb]. rewrite Hx, IHl. reflexivity.
  - induction IH as [|x l Hx Hl IHl]; [reflexivity|]. cbn [map existsb]. rewrite Hx, IHl. reflexivity.
Qed.

Lemma canon_tdfree t : has_td t = false -> canon t = t.
Proof.
  induction t as [ | c | x IH | | x IH | x IH | x IH | k v IHk IHv | k v IHk IHv | xs IH | x IH
                 | a1 a2 a3 IH1 IH2 IH3 | xs IH | r o IHr IHo | s ] using ty_ind';
    cbn [canon has_td]; intros H; try reflexivity; try (rewrite IH by exact H; reflexivity); try discriminate H.
  - apply orb_false_iff in H. destruct H. rewrite IHk, IHv by assumption. reflexivity.
  - apply orb_false_iff in H. destruct H. rewrite IHk, IHv by assumption. reflexivity.
  - f_equal. induction IH as [|x l Hx Hl IHl]; [reflexivity|]. cbn [existsb] in H.
    apply orb_false_iff in H. destruct H. cbn [map]. rewrite Hx, IHl by assumption. reflexivity.
  - apply orb_false_iff in H. destruct H as [H H3]. apply orb_false_iff in H. destruct H.
    rewrite IH1, IH2, IH3 by assumption. reflexivity.
  - f_equal. induction IH as [|x l Hx Hl IHl]; [reflexivity|]. cbn [existsb] in H.
    apply orb_false_iff in H. destruct H. cbn [map]. rewrite Hx, IHl by assumption. reflexivity.
Qed.

Lemma is_tunion_canon t : is_tunion (canon t) = is_tunion t.
Proof. destruct t; reflexivity. Qed.

Lemma nodupb_canon : forall ts seen, nodupb seen ts = true -> nodupb (map canon seen) (map canon ts) = true.
Proof.
  induction ts as [|t r IH]; intros seen H; [reflexivity|]. cbn [nodupb map] in *.
  apply andb_prop in H. destruct H as [H1 H2]. apply andb_true_intro. split; [|apply (IH (t :: seen)); exact H2].
  rewrite has_td_canon. destruct (has_td t) eqn:TD; [reflexivity|]. cbn [negb andb] in *.
  rewrite (canon_tdfree _ TD). apply negb_true_iff in H1. apply negb_true_iff.
  apply existsb_false_iff. intros s' Hs'. apply in_map_iff in Hs'. destruct Hs' as [s [<- Hs]].
  destruct (has_td s) eqn:TDs.
  - destruct (py_eqb t (canon s)) eqn:E; [|reflexivity].
    apply py_eqb_has_td in E. rewrite has_td_canon in E. congruence.
  - rewrite (canon_tdfree _ TDs). rewrite existsb_false_iff in H1. apply H1. exact Hs.
Qed.

Lemma good_canon t : good t -> good (canon t).
Proof.
  induction t as [ | c | x IH | | x IH | x IH | x IH | k v IHk IHv | k v IHk IHv | xs IH | x IH
                 | a1 a2 a3 IH1 IH2 IH3 | xs IH | r o IHr IHo | s ] using ty_ind';
    intros G; inversion G; subst; cbn [canon]; try (constructor; auto; fail).
  - constructor. apply Forall_map. eapply Forall_mp; eassumption.
  - constructor.
    + rewrite map_length. assumption.
    + rewrite forallb_forall in *. intros y Hy. apply in_map_iff in Hy. destruct Hy as [x [<- Hx]].
      rewrite is_tunion_canon. auto.
    + apply (nodupb_canon xs []). assumption.
    + apply Forall_map. eapply Forall_mp; eassumption.
  - constructor.
    + match goal with H : nodup_strb _ = true |- _ => revert H end. apply nodup_strb_perm.
      apply Permutation_sym. apply Permutation_app.
      * eapply Permutation_trans; [apply sort_kv_keys_perm|]. rewrite map_fst_map. apply Permutation_refl.
      * eapply Permutation_trans; [apply sort_kv_keys_perm|]. rewrite map_fst_map. apply Permutation_refl.
    + apply sort_kv_Forall. apply Forall_map. cbn [snd]. eapply (Forall_mp (fun f => good (snd f))); eassumption.
    + apply sort_kv_Forall. apply Forall_map. cbn [snd]. eapply (Forall_mp (fun f => good (snd f))); eassumption.
Qed.

(* ---------- the decoded type is the original up to TypedDict field order ---------- *)
Lemma fsub_c_sorted (fs : list (string * ty)) :
  nodup_strb (map fst fs) = true ->
  Forall (fun f => corrb (snd f) (canon (snd f)) = true) fs ->
  fsub_c fs (sort_kv (map (fun f => (fst f, canon (snd f))) fs)) = true.
Proof.
  intros ND H. unfold fsub_c. apply forallb_forall. intros f Hf.
  assert (L : lookup_f (fst f) (sort_kv (map (fun f => (fst f, canon (snd f))) fs)) = Some (canon (snd f))).
  { apply lookup_f_NoDup.
    - eapply Permutation_NoDup; [apply Permutation_sym; apply sort_kv_keys_perm|].
      rewrite map_fst_map. apply nodup_strb_NoDup. exact ND.
    - apply sort_kv_In. apply (in_map (fun f => (fst f, canon (snd f)))) in Hf. exact Hf. }
  rewrite L. rewrite Forall_forall in H. apply H. exact Hf.
Qed.

Lemma corr_canon t : good t -> corrb t (canon t) = true.
Proof.
  induction t as [ | c | x IH | | x IH | x IH | x IH | k v IHk IHv | k v IHk IHv | xs IH | x IH
                 | a1 a2 a3 IH1 IH2 IH3 | xs IH | r o IHr IHo | s ] using ty_ind';
    intros G; inversion G; subst; cbn [canon]; try reflexivity; try (cbn [corrb]; auto; fail).
  - cbn [corrb]. apply N.eqb_refl.
  - cbn [corrb]. rewrite IHk, IHv by assumption. reflexivity.
  - cbn [corrb]. rewrite IHk, IHv by assumption. reflexivity.
  - rewrite corrb_tuple.
    match goal with H : Forall good xs |- _ => revert H end. clear - IH.
    induction IH as [|x l Hx Hl IHl]; intros GF; [reflexivity|]. inversion GF; subst.
    cbn [map forallb2]. rewrite Hx, IHl by assumption. reflexivity.
  - cbn [corrb]. rewrite IH1, IH2, IH3 by assumption. reflexivity.
  - rewrite corrb_union.
    match goal with H : Forall good xs |- _ => revert H end. clear - IH.
    induction IH as [|x l Hx Hl IHl]; intros GF; [reflexivity|]. inversion GF; subst.
    cbn [map perm_c rm_c]. rewrite Hx by assumption. apply IHl. assumption.
  - rewrite corrb_td. rewrite !sort_kv_length, !map_length, !Nat.eqb_refl.
    match goal with H : nodup_strb (_ ++ _) = true |- _ => pose proof (nodup_app_l _ _ H) as NDr; pose proof (nodup_app_r _ _ H) as NDo end.
    rewrite !fsub_c_sorted; try assumption; try reflexivity.
    + eapply (Forall_mp (fun f => good (snd f))); eassumption.
    + eapply (Forall_mp (fun f => good (snd f))); eassumption.
Qed.

(* ================================================================================================
   type_roundtrip
   ================================================================================================ *)
Lemma type_to_json_good t : good t -> type_to_json cname site t = Ok (enc0 (canon t)).
Proof. intros G. unfold type_to_json. rewrite (enc0_ok _ G). cbn [rbind]. rewrite jsort_enc0. reflexivity. Qed.

Lemma type_from_json_enc0 t : typing_ok -> good t -> type_from_json env hidden (enc0 t) = Ok t.
Proof. intros TOK G. unfold type_from_json, type_from_dict. rewrite (dec_enc0 _ TOK G). reflexivity. Qed.

Theorem type_roundtrip_good t :
  typing_ok -> good t ->
  type_to_json cname site t = Ok (enc0 (canon t))
  /\ type_from_json env hidden (enc0 (canon t)) = Ok (canon t)
  /\ corrb t (canon t) = true.
Proof.
  intros TOK G. split; [apply type_to_json_good; exact G|]. split; [|apply corr_canon; exact G].
  apply type_from_json_enc0; [exact TOK|apply good_canon; exact G].
Qed.

Theorem type_roundtrip t :
  typing_ok -> encodable t = true -> union_nfb t = true -> wf_tyb t = true -> Forall importable (classes t) ->
  exists j t', type_to_json cname site t = Ok j /\ type_from_json env hidden j = Ok t' /\ corrb t t' = true.
Proof.
  intros TOK E N W I. pose proof (good_of_bools t E N W I) as G.
  destruct (type_roundtrip_good t TOK G) as [H1 [H2 H3]]. eauto.
Qed.

(* ================================================================================================
   absent vs NoneType
   ================================================================================================ *)
Lemma type_to_dict_obj t j : type_to_dict cname site t = Ok j -> exists kvs, j = JObj kvs.
Proof.
  destruct t; cbn [type_to_dict]; unfold jgeneric, rbind, jtype, jtd;
    repeat match goal with |- context [match ?x with _ => _ end] => destruct x end;
    intros H; try discriminate H; injection H as <-; eexists; reflexivity.
Qed.

Lemma type_to_json_obj t j : type_to_json cname site t = Ok j -> exists kvs, j = JObj kvs.
Proof.
  unfold type_to_json. destruct (type_to_dict cname site t) as [j0| |] eqn:E; cbn [rbind]; intros H; try discriminate H.
  injection H as <-. destruct (type_to_dict_obj _ _ E) as [kvs ->]. eexists. reflexivity.
Qed.

(* nothing observed stays nothing; an observed type (NoneType included) never reads back as nothing *)
Theorem absent_vs_none :
  maybe_encode_type cname site None = Ok None
  /\ maybe_decode_type env hidden None = Ok None
  /\ maybe_decode_type env hidden (Some JNull) = Ok None
  /\ (forall t e, maybe_encode_type cname site (Some t) = Ok e ->
        e <> None /\ e <> Some JNull /\ maybe_decode_type env hidden e <> Ok None)
  /\ (forall t, typing_ok -> good t ->
        exists j, maybe_encode_type cname site (Some t) = Ok (Some j)
                  /\ maybe_decode_type env hidden (Some j) = Ok (Some (canon t))).
Proof.
  split; [reflexivity|]. split; [reflexivity|]. split; [reflexivity|]. split.
  - intros t e H. cbn [maybe_encode_type] in H.
    destruct (type_to_json cname site t) as [j| |] eqn:E; cbn [rbind] in H; try discriminate H.
    injection H as <-. destruct (type_to_json_obj _ _ E) as [kvs ->].
    split; [discriminate|]. split; [discriminate|]. cbn [maybe_decode_type].
    destruct (type_from_json env hidden (JObj kvs)); cbn [rbind]; discriminate.
  - intros t TOK G. destruct (type_roundtrip_good t TOK G) as [H1 [H2 _]].
    exists (enc0 (canon t)). cbn [maybe_encode_type]. rewrite H1. cbn [rbind]. split; [reflexivity|].
    destruct (type_to_json_obj _ _ H1) as [kvs Ek]. rewrite Ek in *. cbn [maybe_decode_type].
    rewrite H2. reflexivity.
Qed.

End RT.

(* ================================================================================================
   trace_roundtrip
   ================================================================================================ *)
Section TraceRT.
Variable cname : cls -> string * string.
Variable fname : fid -> string * string.
Variable site : string.
Variable env : string -> string -> lookup.
Variable hidden : string -> option cls.

Notation goodt := (good cname env hidden).
Notation enc := (enc0 cname site).

(* the function's own (module, qualname) leads back to it through get_func_in_module's unwrapping *)
Definition importable_func (f : fid) : Prop :=
  get_func_in_module env cname fname (fst (fname f)) (snd (fname f)) = Ok (OFunc f).

(* the repaired last step of get_func_in_module (7b578c3): whatever is decoded carries the recorded qualified name ... *)
Theorem decoded_function_has_recorded_name m q func own :
  get_func_in_module env cname fname m q = Ok func ->
  obj_qualname cname fname func = Ok (Some own) -> own = q.
Proof.
  unfold get_func_in_module. destruct (env m q) as [| |o|]; try discriminate.
  destruct (func_of_kind (unwrap o)) as [f0| |]; cbn [rbind]; try discriminate.
  destruct (obj_qualname cname fname f0) as [[qn|]| |] eqn:E; cbn [rbind]; try discriminate.
  - destruct (String.eqb qn q) eqn:Q; try discriminate. intros H. injection H as <-.
    rewrite E. intros H. injection H as <-. apply String.eqb_eq. exact Q.
  - intros H. injection H as <-. rewrite E. discriminate.
Qed.

(* ... and a name that is now bound to another function (an alias, a non-wrapping decorator's inner function) is a
   stale row: InvalidTypeError, never that other function *)
Theorem rebound_name_rejected m q o g :
  env m q = LFound o -> func_of_kind (unwrap o) = Ok (OFunc g) -> snd (fname g) <> q ->
  get_func_in_module env cname fname m q = Raises InvalidTypeError.
Proof.
  intros E K N. unfold get_func_in_module. rewrite E, K. cbn [rbind obj_qualname].
  destruct (String.eqb (snd (fname g)) q) eqn:Q; [|reflexivity].
  apply String.eqb_eq in Q. contradiction.
Qed.

(* for the function's own name the test is vacuous: importable_func is exactly "lookup, unwrap and the kind steps lead to f" *)
Lemma importable_func_iff f :
  importable_func f <->
  exists o, env (fst (fname f)) (snd (fname f)) = LFound o /\ func_of_kind (unwrap o) = Ok (OFunc f).
Proof.
  unfold importable_func, get_func_in_module. split.
  - destruct (env (fst (fname f)) (snd (fname f))) as [| |o|]; try discriminate.
    intros H. exists o. split; [reflexivity|].
    destruct (func_of_kind (unwrap o)) as [f0| |]; cbn [rbind] in H; try discriminate.
    destruct (obj_qualname cname fname f0) as [[qn|]| |]; cbn [rbind] in H; try discriminate.
    + destruct (String.eqb qn (snd (fname f))); try discriminate. injection H as ->. reflexivity.
    + injection H as ->. reflexivity.
  - intros [o [E K]]. rewrite E, K. cbn [rbind obj_qualname]. rewrite String.eqb_refl. reflexivity.
Qed.

Definition good_opt (o : option ty) : Prop := match o with Some t => goodt t | None => True end.

Definition good_trace (tr : trace) : Prop :=
  importable_func (tr_func tr)
  /\ nodup_strb (map fst (tr_args tr)) = true
  /\ Forall (fun a => goodt (snd a)) (tr_args tr)
  /\ good_opt (tr_ret tr) /\ good_opt (tr_yield tr).

Definition canon_args (a : list (string * ty)) : list (string * ty) :=
  sort_kv (map (fun f => (fst f, canon (snd f))) a).

Lemma arg_types_to_json_good args :
  Forall (fun a => goodt (snd a)) args ->
  arg_types_to_json cname site args = Ok (JObj (map (fun f => (fst f, enc (snd f))) (canon_args args))).
Proof.
  intros G. unfold arg_types_to_json.
  rewrite (sequence_kv_map_ok _ enc).
  2:{ eapply Forall_impl; [|exact G]. intros a Ha. apply (enc0_ok cname site env hidden). exact Ha. }
  cbn [rbind jsort]. f_equal. f_equal. unfold canon_args.
  apply jsort_fields. apply Forall_forall. intros f _. apply jsort_enc0.
Qed.

Lemma arg_types_from_json_good (args : list (string * ty)) :
  typing_ok env -> Forall (fun a => goodt (snd a)) args ->
  arg_types_from_json env hidden (JObj (map (fun f => (fst f, enc (snd f))) args)) = Ok args.
Proof.
  intros TOK G. unfold arg_types_from_json. cbn [dec]. rewrite !map_map. cbn [fst snd].
  rewrite (sequence_kv_map_ok (fun x => as_ty (dec env hidden (enc x))) RTy).
  2:{ eapply Forall_impl; [|exact G]. intros a Ha. apply (dec_enc0 cname site env hidden); assumption. }
  cbn [rbind]. rewrite all_rty_map. reflexivity.
Qed.

Lemma maybe_roundtrip (o : option ty) :
  typing_ok env -> good_opt o ->
  exists e, maybe_encode_type cname site o = Ok e
            /\ maybe_decode_type env hidden e = Ok (option_map canon o)
            /\ (o = None <-> e = None).
Proof.
  intros TOK G. destruct o as [t|].
  - destruct (absent_vs_none cname site env hidden) as [_ [_ [_ [_ H]]]].
    destruct (H t TOK G) as [j [H1 H2]]. exists (Some j). split; [exact H1|]. split; [exact H2|].
    split; discriminate.
  - exists None. repeat split; reflexivity.
Qed.

Lemma args_corr_canon args :
  nodup_strb (map fst args) = true -> Forall (fun a => goodt (snd a)) args ->
  args_corrb args (canon_args args) = true.
Proof.
  intros ND G. unfold args_corrb, canon_args. rewrite sort_kv_length, map_length, Nat.eqb_refl. cbn [andb].
  apply (fsub_c_sorted args ND). eapply Forall_impl; [|exact G]. intros a Ha. eapply corr_canon. exact Ha.
Qed.

Lemma good_canon_args args :
  Forall (fun a => goodt (snd a)) args -> Forall (fun a => goodt (snd a)) (canon_args args).
Proof.
  intros G. unfold canon_args. apply sort_kv_Forall. apply Forall_map. cbn [snd].
  eapply Forall_impl; [|exact G]. intros a Ha. apply good_canon. exact Ha.
Qed.

Lemma opt_corr_canon o : good_opt o -> opt_corrb o (option_map canon o) = true.
Proof. destruct o as [t|]; intros G; [|reflexivity]. cbn [option_map opt_corrb]. eapply corr_canon. exact G. Qed.

Theorem trace_roundtrip tr :
  typing_ok env -> good_trace tr ->
  exists r d,
    from_trace cname fname site tr = Ok r
    /\ to_trace cname fname env hidden r = Ok d
    /\ r_module r = fst (fname (tr_func tr)) /\ r_qualname r = snd (fname (tr_func tr))
    /\ dt_func d = OFunc (tr_func tr)
    /\ args_corrb (tr_args tr) (dt_args d) = true
    /\ opt_corrb (tr_ret tr) (dt_ret d) = true
    /\ opt_corrb (tr_yield tr) (dt_yield d) = true
    /\ (tr_ret tr = None <-> r_ret r = None) /\ (tr_ret tr = None <-> dt_ret d = None)
    /\ (tr_yield tr = None <-> r_yield r = None) /\ (tr_yield tr = None <-> dt_yield d = None).
Proof.
  intros TOK [GF [ND [GA [GR GY]]]].
  destruct (maybe_roundtrip (tr_ret tr) TOK GR) as [er [R1 [R2 R3]]].
  destruct (maybe_roundtrip (tr_yield tr) TOK GY) as [ey [Y1 [Y2 Y3]]].
  eexists. eexists. split.
  - unfold from_trace. rewrite (arg_types_to_json_good _ GA), R1, Y1. cbn [rbind]. reflexivity.
  - split.
    + unfold to_trace. cbn [r_module r_qualname r_args r_ret r_yield].
      unfold importable_func in GF. rewrite GF. cbn [rbind].
      rewrite (arg_types_from_json_good _ TOK (good_canon_args _ GA)). cbn [rbind].
      rewrite R2, Y2. cbn [rbind]. reflexivity.
    + cbn [r_module r_qualname r_ret r_yield dt_func dt_args dt_ret dt_yield].
      split; [reflexivity|]. split; [reflexivity|]. split; [reflexivity|].
      split; [apply args_corr_canon; assumption|].
      split; [apply opt_corr_canon; assumption|].
      split; [apply opt_corr_canon; assumption|].
      split; [exact R3|]. split; [destruct (tr_ret tr); cbn; split; congruence|].
      split; [exact Y3|]. destruct (tr_yield tr); cbn; split; congruence.
Qed.

(* serialize_traces keeps every good trace *)
Lemma serialize_traces_keeps trs :
  Forall good_trace trs -> List.length (serialize_traces cname fname site trs) = List.length trs.
Proof.
  induction 1 as [|tr r [_ [_ [GA [GR GY]]]] Hr IH]; [reflexivity|].
  unfold serialize_traces in *. cbn [flat_map]. rewrite app_length, IH.
  unfold from_trace. rewrite (arg_types_to_json_good _ GA).
  assert (M : forall o, good_opt o -> exists e, maybe_encode_type cname site o = Ok e).
  { intros [t|] G; [|eexists; reflexivity]. cbn [maybe_encode_type].
    rewrite (type_to_json_good cname site env hidden t G). eexists. reflexivity. }
  destruct (M _ GR) as [e1 ->]. destruct (M _ GY) as [e2 ->]. reflexivity.
Qed.
End TraceRT.

(* ================================================================================================
   The same theorems under the boolean premises of Model/Encode.v (what Props/C08.v states)
   ================================================================================================ *)
(* a type MonkeyType can infer, or any rewritten form of one other than Tuple[T, ...]: no Tuple[T, ...],
   no forward reference, unions in typing's normal form, TypedDict keys distinct *)
Definition inferable (t : ty) : Prop := encodable t = true /\ union_nfb t = true /\ wf_tyb t = true.

Section Ok.
Variable cname : cls -> string * string.
Variable fname : fid -> string * string.
Variable site : string.
Variable env : string -> string -> lookup.
Variable hidden : string -> option cls.

Definition ok_type (t : ty) : Prop := inferable t /\ Forall (importable cname env hidden) (classes t).
Definition ok_opt (o : option ty) : Prop := match o with Some t => ok_type t | None => True end.
Definition ok_trace (tr : trace) : Prop :=
  importable_func cname fname env (tr_func tr)
  /\ nodup_strb (map fst (tr_args tr)) = true
  /\ Forall (fun a => ok_type (snd a)) (tr_args tr)
  /\ ok_opt (tr_ret tr) /\ ok_opt (tr_yield tr).

Lemma good_of_ok t : ok_type t -> good cname env hidden t.
Proof. intros [[E [N W]] I]. apply good_of_bools; assumption. Qed.

Lemma good_trace_of_ok tr : ok_trace tr -> good_trace cname fname env hidden tr.
Proof.
  intros [F [ND [A [R Y]]]]. split; [exact F|]. split; [exact ND|]. split.
  - eapply Forall_impl; [|exact A]. intros a Ha. apply good_of_ok. exact Ha.
  - split; [destruct (tr_ret tr)|destruct (tr_yield tr)]; cbn in *; try exact I; apply good_of_ok; assumption.
Qed.

Theorem type_roundtrip_ok t :
  typing_ok env -> ok_type t ->
  exists j t', type_to_json cname site t = Ok j /\ type_from_json env hidden j = Ok t' /\ corrb t t' = true.
Proof. intros TOK [[E [N W]] I]. apply type_roundtrip; assumption. Qed.

Theorem absent_vs_none_ok :
  maybe_encode_type cname site None = Ok None
  /\ maybe_decode_type env hidden None = Ok None
  /\ maybe_decode_type env hidden (Some JNull) = Ok None
  /\ (forall t e, maybe_encode_type cname site (Some t) = Ok e ->
        e <> None /\ e <> Some JNull /\ maybe_decode_type env hidden e <> Ok None)
  /\ (forall t, typing_ok env -> ok_type t ->
        exists j t', maybe_encode_type cname site (Some t) = Ok (Some j)
                     /\ maybe_decode_type env hidden (Some j) = Ok (Some t') /\ corrb t t' = true).
Proof.
  destruct (absent_vs_none cname site env hidden) as [H1 [H2 [H3 [H4 H5]]]].
  repeat (split; [assumption|]). intros t TOK OKT. pose proof (good_of_ok t OKT) as G.
  destruct (H5 t TOK G) as [j [E1 E2]]. exists j, (canon t). repeat split; try assumption.
  eapply corr_canon. exact G.
Qed.

Theorem trace_roundtrip_ok tr :
  typing_ok env -> ok_trace tr ->
  exists r d,
    from_trace cname fname site tr = Ok r
    /\ to_trace cname fname env hidden r = Ok d
    /\ r_module r = fst (fname (tr_func tr)) /\ r_qualname r = snd (fname (tr_func tr))
    /\ dt_func d = OFunc (tr_func tr)
    /\ args_corrb (tr_args tr) (dt_args d) = true
    /\ opt_corrb (tr_ret tr) (dt_ret d) = true
    /\ opt_corrb (tr_yield tr) (dt_yield d) = true
    /\ (tr_ret tr = None <-> r_ret r = None) /\ (tr_ret tr = None <-> dt_ret d = None)
    /\ (tr_yield tr = None <-> r_yield r = None) /\ (tr_yield tr = None <-> dt_yield d = None).
Proof. intros TOK OKT. apply trace_roundtrip; [exact TOK|apply good_trace_of_ok; exact OKT]. Qed.

Theorem serialize_traces_keeps_ok trs :
  Forall ok_trace trs -> List.length (serialize_traces cname fname site trs) = List.length trs.
Proof.
  intros H. apply (serialize_traces_keeps cname fname site env hidden).
  eapply Forall_impl; [|exact H]. intros tr. apply good_trace_of_ok.
Qed.
End Ok.
