"""C16 — --pep_563 confines only annotation-only imports and keeps the module importable."""
import importlib
import json
import os
import random
import re
import subprocess
import sys

from harness import common, confine_gen as G

COQ_TARGETS = ["Check/ConfineCases.vo"]
TRUSTED_BASE = [
    "libcst 1.9.0 is modelled, not verified: GatherImportsVisitor.symbol_mapping (Model/Confine.v gather), "
    "AddImportsVisitor (add_tc, render), RemoveFromParent on emptied statements",
    "libcst's ApplyTypeAnnotationsVisitor is not modelled: its real output is an input of every case and of the theorems, "
    "under the assumptions listed in ASSUMPTIONS, each re-checked per case by a Coq boolean (libcst_ok)",
    "harness/confine_gen.py: the abstraction Python ast -> Model/Confine.v module (one statement per line; compound "
    "statements become a digest of their annotation-/import-free text plus the imports inside them with their context), "
    "the mirror apply_only of cli.py:171-182, the fixture package and workload",
]
ASSUMPTIONS = [
    "apply step (libcst): every statement and import name of the source is still in the applied module, in order "
    "(embedsb src applied), checked per case",
    "apply step (libcst): it adds imports at module level only (nested_ok), checked per case",
    "apply step (libcst): when it changes the module it puts `from __future__ import annotations` first (after a docstring)",
    "MonkeyType's stub generator: generated classes derive from mypy_extensions.TypedDict or from each other, and libcst "
    "imports that base at module level (needed_okb), checked per case",
    "stub import items have no module `__future__` and never import one object both plain and aliased from one module "
    "(in_domain); MonkeyType's ImportBlockStub renders only `from m import a, b`",
]
PARTIAL = [
    "sources with several small statements on one line (`a; b`) are abstracted one statement per small statement: exact for "
    "the specification's clauses, not for libcst's leading-import-block rule, so for them only the property clauses and "
    "the behaviour are checked, not model = implementation",
    "the behavioural half (the result imports and the workload returns the same values) is tested on every case by "
    "executing source and result in fresh interpreters, not proved",
    "concrete syntax (comments, blank lines) is outside the model",
]

HEADER = "From MT Require Import Common ConfineCases.\nFrom Coq Require Import List String.\nImport ListNotations.\nOpen Scope list_scope.\n"

FINDING_OF = {21: "kf_shadow", 22: "kf_apply_extra", 23: "kf_shadow"}

# (imports forced into the source, functions, k) — the design-phase witnesses and their neighbours, run first on every run
DIRECTED = [
    ([("import shapes", "t")], ["area_of"], 0),
    ([("from shapes import Circle as C", "t")], ["area_of"], 0),
    ([], ["total"], 5),
    ([("import geo.pts", "t"), ("import geo.pts as gp", "t")], ["origin"], 0),
    ([("import shapes", "f")], ["area_of"], 0),
    ([("from shapes import Circle as Ci, Square", "t")], ["area_of"], 0),
    ([("import os, shapes", "t")], ["area_of"], 0),
    ([("from shapes import Circle", "t"), ("from other import Circle", "f")], ["area_of"], 0),
    ([("from shapes import Circle", "c")], ["area_of"], 0),
    ([("from shapes import Circle", "f")], ["area_of"], 0),
    ([("from other import Circle", "t")], ["area_of"], 0),                          # libcst qualifies: kf_apply_extra
    ([("from shapes import *", "t")], ["area_of", "pick"], 0),
    ([("from typing import List", "t")], ["pick", "rows"], 5),
    ([("from typing import *", "t")], ["pick"], 0),
    ([("from mypy_extensions import TypedDict", "t")], ["total"], 5),
    ([("from shapes import Square", "t")], ["annotated"], 0),
    # TYPE_CHECKING imported by the source only where it does not bind the module-level name (or too late)
    ([("from typing import TYPE_CHECKING", "f")], ["area_of"], 0),
    ([("import os", "t"), ("from typing import TYPE_CHECKING", "y")], ["area_of"], 0),
    # user modules whose names merely start with "typing" / "mypy_extensions"
    ([], ["payload"], 0),
    ([("import typings", "t")], ["helper", "compat"], 0),
    ([("from typing_helpers import Helper as H", "t")], ["helper", "total"], 5),
    # the stub's item is in the source only under TYPE_CHECKING / in a function while the name is bound to something else
    # at run time (before C16-4 the new module-level import silently rebound the name)
    ([("from other import Circle", "t"), ("from shapes import Circle", "c")], ["area_of"], 0),
    ([("from other import Circle", "t"), ("from shapes import Circle", "f")], ["area_of"], 0),
    ([("from shapes import Circle", "t"), ("from other import Circle", "m")], ["area_of"], 0),   # kf_shadow (module level)
    ([("from shapes import *", "t"), ("from shapes import Circle", "m")], ["area_of"], 0),       # kf_shadow (star quirk)
    # one-line compound statements holding an import the stub also needs (SimpleStatementSuite)
    ([("from shapes import Circle", "Y")], ["area_of"], 0),
    ([("from shapes import Circle", "F")], ["area_of"], 0),
    ([("from geo.pts import Point", "I"), ("from shapes import Circle", "Y")], ["area_of", "origin"], 0),
    # an existing TYPE_CHECKING block imports the object under another local name / the plain name next to other aliases
    ([("from shapes import Circle as C", "c")], ["area_of"], 0),
    ([("from geo.pts import Point as P", "c"), ("from shapes import Circle", "c")], ["area_of", "origin"], 0),
    ([("from typing_helpers import Helper as H", "c"), ("from other import Thing as Circle", "c")], ["helper", "area_of"], 0),
    # the target is a module of package c16app.sub and imports relatively from modules whose tails are the stub's absolute ones
    ([("from .shapes import Circle", "t")], ["area_of"], 0, {"pkg": True}),
    ([("from ..shapes import Square, Circle", "t"), ("from .geo.pts import Point", "m")], ["area_of", "origin"], 0, {"pkg": True}),
    ([("from . import shapes", "t"), ("from .shapes import Circle as C", "m")], ["area_of"], 0, {"pkg": True}),
    # the TYPE_CHECKING statement has else / elif branches holding run-time imports
    ([("from shapes import Circle", "E")], ["area_of"], 0),
    ([("from shapes import Square", "c"), ("from shapes import Circle", "E"), ("from geo.pts import Point", "E")],
     ["area_of", "origin"], 0),
    # hand-written stubs whose new imports carry aliases
    ([], ["area_of"], 0, {"alias": True}),
    ([("import os", "t")], ["origin", "helper"], 0, {"alias": True}),
    ([("from shapes import Circle", "t")], ["area_of", "thing", "payload"], 0, {"alias": True}),
    # `import m` in the source against `import m as a` in the stub, and the reverse
    ([("import geo.pts", "t")], ["origin"], 0, {"alias": True}),
    ([("import typing_helpers", "t"), ("import os", "t")], ["helper"], 0, {"alias": True}),
    ([("import geo.pts as gp", "t")], ["origin"], 0, {"alias": "module"}),
    ([("import shapes as shp, os", "t"), ("import typing_helpers as th", "m")], ["area_of", "helper"], 0, {"alias": "module"}),
    # TYPE_CHECKING blocks local to a function / class body hold what the stub needs at module level
    ([("from shapes import Circle", "N")], ["area_of"], 0),
    ([("from geo.pts import Point", "K"), ("from shapes import Circle", "K")], ["area_of", "origin"], 0),
    # hand-written stub `import shapes` + dotted annotation: libcst adds `from shapes import Circle` (kf_apply_extra_rebind)
    ([("from other import Circle", "t")], ["area_of"], 0, {"alias": "module"}),
    # run-time imports inside module-level with / for / while / try-else / try-finally bodies
    ([("from shapes import Circle", "W")], ["area_of"], 0),
    ([("from shapes import Circle", "l"), ("from geo.pts import Point", "H")], ["area_of", "origin"], 0),
    ([("from shapes import Circle", "w"), ("from geo.pts import Point", "L"), ("from typings import Payload", "h")],
     ["area_of", "origin", "payload"], 0),
    ([("from shapes import Circle", "T"), ("from geo.pts import Point", "U")], ["area_of", "origin"], 0),
    # an explicit import followed by a star import of the same module (libcst collapses object_mapping to {"*"}; the
    # symbol mapping keeps the explicit item), also with an unrelated star import in between
    ([("from shapes import Circle", "t"), ("from shapes import *", "m")], ["area_of"], 0),
    ([("from shapes import Square, Circle", "t"), ("from typing import *", "t"), ("from shapes import *", "m")],
     ["area_of", "pick"], 0),
    # >= 2 new names from one module and >= 1 from another (the order of the moved list follows PYTHONHASHSEED)
    ([], ["pick", "area_of", "origin"], 0),
    ([("import os", "t")], ["both", "pick", "thing"], 0),
    ([], ["pick", "area_of", "origin", "thing", "payload"], 0),
    # several small statements on one line
    ([("from shapes import Circle", "S")], ["area_of"], 0),
    ([("import os", "t"), ("from geo.pts import Point", "S"), ("from shapes import Square", "S")], ["origin", "pick"], 0),
]

FX_MODULES = ("shapes", "geo.pts", "other", "typings", "typing_helpers", "mypy_extensions_compat")

RUNNER = r"""
import sys, json, importlib
sys.path.insert(0, sys.argv[1])
res = {}
for name in sys.argv[2:]:
    try:
        res[name] = ["ok", importlib.import_module(name).run()]
    except BaseException as e:
        res[name] = ["exc", type(e).__name__ + ": " + str(e)]
print("C16RESULT " + json.dumps(res))
"""


def _load_fixture(fx_root):
    G.write_fixture(fx_root)
    sys.path.insert(0, fx_root)
    importlib.invalidate_caches()
    for m in FX_MODULES + ("geo",):
        sys.modules.pop(m, None)
    return {m: importlib.import_module(m) for m in FX_MODULES}


def _unload_fixture(fx_root):
    if fx_root in sys.path:
        sys.path.remove(fx_root)
    for m in list(sys.modules):
        if m in FX_MODULES or m == "geo" or m.split(".")[0] == "c16app" or re.match(r"t\d+_(src|out)$", m):
            sys.modules.pop(m, None)


def build_case(i, source, stub, overwrite, fx_root, meta=None):
    """Run the real code on (stub, source); reify.  Returns a dict (term None when the real code raised)."""
    c = {"i": i, "source": source, "stub": stub, "overwrite": overwrite, "meta": meta or {}, "error": None,
         "term": None, "output": None}
    c["mod"] = (G.PKG + "." if c["meta"].get("pkg") else "") + f"t{i}"
    try:
        applied = G.apply_only(stub, source, overwrite)
        newly = G.real_newly(stub, source)
        out = G.real_confined(stub, source, overwrite)
    except Exception as e:
        c["error"] = f"{type(e).__name__}: {e}"[:600]
        return c
    c["output"], c["applied"] = out, applied
    c["changed"] = applied != source
    c["newly"] = sorted(repr(n) for n in newly)
    try:
        flags = {}
        c["term"] = "CCase (%s) (%s) (%s) (%s) %s %s %s" % (
            G.reify_module(stub, flags), G.reify_module(source, flags), G.reify_module(applied, flags),
            G.reify_module(out, flags),
            common.coq_list(G.reify_item(n) for n in sorted(newly, key=repr)), common.coq_bool(c["changed"]),
            common.coq_bool(not flags))
        c["exact"] = not flags
    except (G.Unreifiable, SyntaxError) as e:
        c["error"] = f"result not reifiable: {type(e).__name__}: {e}"[:600]
    with open(G.mod_path(fx_root, c["mod"] + "_src"), "w") as f:
        f.write(source)
    with open(G.mod_path(fx_root, c["mod"] + "_out"), "w") as f:
        f.write(out)
    return c


def _build_case_star(job):
    return build_case(*job)


HISTORY_RUNNER = r"""
import json, sys
from harness.props import C16
jobs = json.load(open(sys.argv[1]))
out = []
for job in jobs:            # several applies, one after the other, in this one process
    out.append(C16.build_case(*job))
json.dump(out, open(sys.argv[2], "w"))
"""

HISTORY_SEEDS = (1, 2, 3, 4)


def _multi_module_stub(stub):
    """the stub brings >= 2 names from one non-typing module and >= 1 from another"""
    import ast
    per = {}
    try:
        for st in ast.parse(stub).body:
            if isinstance(st, ast.ImportFrom) and st.module not in ("typing", "mypy_extensions", "__future__"):
                per[st.module] = per.get(st.module, 0) + len(st.names)
    except SyntaxError:
        return False
    return len(per) >= 2 and max(per.values()) >= 2


def history_stream(ctx, jobs, base, fx_root, limit):
    """HISTORY stream: the same applies, called in sequence inside ONE fresh interpreter (state kept between applies
    shows), once per PYTHONHASHSEED in HISTORY_SEEDS (the order of list(set(import items)) follows the hash seed).
    Every result goes through the same Coq verdict and execution as a case of its own."""
    multi = [j for j in jobs if _multi_module_stub(j[2])]
    chosen = jobs[:12] + multi[:limit]
    seen, hist = set(), []
    for j in chosen + [j for j in jobs if j[0] in (8, 21, 22, 40, 41)]:
        if j[0] not in seen:
            seen.add(j[0])
            hist.append(j)
    script = os.path.join(ctx.work, "c16_history.py")
    with open(script, "w") as f:
        f.write(HISTORY_RUNNER)
    procs = []
    for k, seed in enumerate(HISTORY_SEEDS):
        order = hist if k % 2 == 0 else list(reversed(hist))
        mine = [[base + 1000 * k + pos, j[1], j[2], j[3], j[4],
                 dict(j[5], hashseed=seed, history_pos=pos, history_of=[x[0] for x in order[:pos]], original=j[0])]
                for pos, j in enumerate(order)]
        jf, of = os.path.join(ctx.work, f"hist_jobs_{seed}.json"), os.path.join(ctx.work, f"hist_out_{seed}.json")
        json.dump(mine, open(jf, "w"))
        procs.append((of, subprocess.Popen([common.PY, script, jf, of], env=common.sub_env({"PYTHONHASHSEED": str(seed)}),
                                           cwd=common.VERIF, stdout=subprocess.PIPE, stderr=subprocess.PIPE, text=True)))
    return procs, len(hist)


def history_collect(procs):
    cases = []
    for of, p in procs:
        _, err = p.communicate(timeout=900)
        if p.returncode != 0 or not os.path.exists(of):
            raise RuntimeError("history runner failed: " + err[-1500:])
        cases += json.load(open(of))
    return cases


def execute(ctx, fx_root, idxs, chunk=24):
    """import <mod>_src / <mod>_out (top-level or inside the package G.PKG) in fresh interpreters and run the workload; returns {name: [status, value]}"""
    script = os.path.join(ctx.work, "c16_runner.py")
    with open(script, "w") as f:
        f.write(RUNNER)
    jobs = [idxs[k:k + chunk] for k in range(0, len(idxs), chunk)]
    res = {}

    def one(job):
        names = [f"{mod}_{w}" for mod in job for w in ("src", "out")]
        p = subprocess.run([common.PY, script, fx_root] + names, capture_output=True, text=True, timeout=300,
                           env=common.sub_env(), cwd=ctx.work)
        for line in p.stdout.splitlines():
            if line.startswith("C16RESULT "):
                return json.loads(line[len("C16RESULT "):])
        return {n: ["exc", "runner died: " + p.stderr[-300:]] for n in names}

    from concurrent.futures import ThreadPoolExecutor
    with ThreadPoolExecutor(max_workers=common.NCPU) as ex:
        for r in ex.map(one, jobs):
            res.update(r)
    return res


def evaluate(ctx, cases, fx_root):
    """Coq verdicts + behavioural half.  Returns (codes {i: code}, clauses {i: [bool]}, behaviour {i: (ok, text)})"""
    good = [c for c in cases if c["term"] is not None]
    codes, clauses = {}, {}
    if good:
        outs = common.run_coq_shards(ctx.work, "c16", HEADER, [c["term"] for c in good], "ccase", "bad verdict 0 cases",
                                     shard_size=150)
        for k, code in common.parse_bad(outs):
            codes[good[k]["i"]] = code
        flagged = [c for c in good if c["i"] in codes]
        if flagged:
            outs = common.run_coq_shards(ctx.work, "c16cl", HEADER, [c["term"] for c in flagged], "ccase",
                                         "bad clause_code 0 cases", shard_size=150)
            for k, num in common.parse_bad(outs):
                bits = bin(num)[3:]          # drop '0b1'
                clauses[flagged[k]["i"]] = [b == "1" for b in bits]
    beh = {}
    res = execute(ctx, fx_root, [c["mod"] for c in cases if c["output"] is not None])
    for c in cases:
        if c["output"] is None:
            continue
        s, o = res.get(c["mod"] + "_src"), res.get(c["mod"] + "_out")
        if s is None or o is None:
            beh[c["i"]] = (False, "no result from the runner")
        elif s[0] != "ok":
            beh[c["i"]] = (None, f"generated source itself fails: {s[1]}")      # generator bug, not a finding
        elif o != s:
            beh[c["i"]] = (False, f"source run() -> {s[1]!r}; result -> {o[0]} {o[1]!r}"[:400])
        else:
            beh[c["i"]] = (True, "")
    return codes, clauses, beh


CLAUSE_NAMES = ["head_is_future_import", "new_items_under_TYPE_CHECKING", "no_new_runtime_import", "source_imports_in_place",
                "runtime_names_bound", "generated_class_bases_bound", "model_eq_impl", "libcst_assumptions",
                "kf_shadow", "kf_apply_extra", "TYPE_CHECKING_bound_before_block",
                "no_second_copy_under_TYPE_CHECKING", "no_empty_TYPE_CHECKING_block_added", "kf_rebind"]


def describe(c, code, cl, beh):
    failing = [n for k, (n, v) in enumerate(zip(CLAUSE_NAMES, cl or [])) if not v and (k < 6 or 10 <= k <= 12)]
    bits = []
    if failing:
        bits.append("clauses false: " + ", ".join(failing))
    if beh and beh[0] is False:
        bits.append("behaviour: " + beh[1])
    hist = ""
    if "hashseed" in c.get("meta", {}):
        m = c["meta"]
        hist = (f" [HISTORY: apply #{m['history_pos'] + 1} in one process with PYTHONHASHSEED={m['hashseed']}, after the "
                f"applies of cases {m['history_of'][-6:]} of this run; the same apply alone is case {m['original']}]")
    return (f"confinement breaks the module{hist}: {'; '.join(bits)} | source={c['source']!r} stub={c['stub']!r} "
            f"overwrite={c['overwrite']} -> output={c['output']!r}")[:1900]


def run(ctx):
    rnd = random.Random(ctx.seed * 7919 + 16)
    n = 140 if ctx.tier == "quick" else 2000
    fx_root = os.path.join(ctx.work, "fx")
    os.makedirs(fx_root)
    fx = _load_fixture(fx_root)
    cases, jobs = [], []
    dist = {"placement": {}, "k": {0: 0, 5: 0}, "changed": 0, "apply_noop": 0, "codes": {}, "moved_nonempty": 0,
            "behaviour_ok": 0, "behaviour_fail": 0, "impl_raised": 0, "source_gen_broken": 0}
    try:
        for i in range(n):
            opts = {}
            if i < len(DIRECTED):
                forced, funcs, k, *rest = DIRECTED[i]
                opts = rest[0] if rest else {}
                src = G.gen_source(rnd, fx, directed=forced, funcs=funcs, minimal=True, package=bool(opts.get("pkg")))
            else:
                k = rnd.choice([0, 5, 5])
                forced = []
                if rnd.random() < 0.25:      # the target lives inside a package and may use relative imports
                    opts["pkg"] = True
                pool_all = G.IMPORT_POOL + G.REL_POOL
                if rnd.random() < 0.5:   # aim at the seams: an import that resembles what the stub will import
                    seam = G.IMPORT_POOL[:14] + G.IMPORT_POOL[-5:] + \
                        [e for e in G.IMPORT_POOL if e[0] == "from typing import TYPE_CHECKING"] * 2 + \
                        (G.REL_POOL * 2 if opts.get("pkg") else [])
                    forced = [(rnd.choice(seam)[0], None)]
                    forced = [(st, rnd.choice([p for s2, _, p in pool_all if s2 == st][0])) for st, _ in forced]
                src = G.gen_source(rnd, fx, directed=forced, package=bool(opts.get("pkg")))
                if rnd.random() < 0.3 and all(f in G.ALIAS_STUBS for f in src["funcs"]):
                    opts["alias"] = True
                elif rnd.random() < 0.15 and all(f in G.MODULE_STUBS for f in src["funcs"]):
                    opts["alias"] = "module"
            modname = (G.PKG + "." if opts.get("pkg") else "") + f"t{i}_src"
            if opts.get("alias"):        # hand-written stub whose new imports carry aliases / import the module itself
                stub = G.alias_stub(src["funcs"], G.MODULE_STUBS if opts["alias"] == "module" else None)
            else:
                stub = G.make_stub(modname, fx_root, src, rnd, fx, k)
            for o in opts:
                dist["mode_" + o] = dist.get("mode_" + o, 0) + 1
            jobs.append((i, src["text"], stub, rnd.random() < 0.3, fx_root,
                         dict({"desc": src["desc"], "k": k, "funcs": src["funcs"]}, **opts)))
            dist["k"][k] += 1
            for d in src["desc"]:
                p = d.split(":")[0]
                dist["placement"][p] = dist["placement"].get(p, 0) + 1
        # the real code (libcst is slow: ~0.8 s per case) runs in worker processes
        from concurrent.futures import ProcessPoolExecutor
        hist_procs, dist["history_len"] = history_stream(ctx, jobs, n + 5000, fx_root, 10 if ctx.tier == "quick" else 60)
        with ProcessPoolExecutor(max_workers=max(2, common.NCPU - len(HISTORY_SEEDS))) as ex:
            cases = list(ex.map(_build_case_star, jobs, chunksize=4))
            # re-application stream: the result of a first application (which now holds `if TYPE_CHECKING:` blocks and
            # the __future__ import) is the source of a second application of the same stub, overwrite on and off
            again = []
            for c in cases:
                if c["output"] is not None and (c["i"] < len(DIRECTED) or c["i"] % 4 == 0):
                    again.append((n + len(again), c["output"], c["stub"], len(again) % 2 == 0, fx_root,
                                  dict(c["meta"], reapplied=c["i"])))
            dist["reapplied"] = len(again)
            cases += list(ex.map(_build_case_star, again, chunksize=4))
        hist_cases = history_collect(hist_procs)
        dist["history_cases"] = len(hist_cases)
        cases += hist_cases
        codes, clauses, beh = evaluate(ctx, cases, fx_root)
    finally:
        _unload_fixture(fx_root)

    failures, mismatches = [], []
    for c in cases:
        i = c["i"]
        code = codes.get(i, 0)
        dist["codes"][str(code)] = dist["codes"].get(str(code), 0) + 1
        if c["error"] is not None:
            dist["impl_raised"] += 1
            failures.append({"what": f"apply_stub_using_libcst raised / produced unparsable text: {c['error']} | "
                                     f"source={c['source']!r} stub={c['stub']!r}"[:1800],
                             "source": c["source"], "stub": c["stub"], "overwrite": c["overwrite"]})
            continue
        dist["changed" if c["changed"] else "apply_noop"] += 1
        b = beh.get(i)
        if b and b[0] is None:
            dist["source_gen_broken"] += 1
        elif b and b[0]:
            dist["behaviour_ok"] += 1
        elif b:
            dist["behaviour_fail"] += 1
        rec = {"source": c["source"], "stub": c["stub"], "overwrite": c["overwrite"], "output": c["output"],
               "verdict": code, "clauses": dict(zip(CLAUSE_NAMES, clauses.get(i, []))), "behaviour": b[1] if b else ""}
        beh_bad = bool(b) and b[0] is False
        if code in (2, 21, 22, 23) or beh_bad:
            rec["what"] = describe(c, code, clauses.get(i), b)
            # a behavioural failure is excused only by the class that lets source imports move (kf_shadow) or, inside
            # kf_apply_extra, by the exact sub-class in which the unmoved new import rebinds a run-time name (kf_rebind)
            rebind = bool(rec["clauses"].get("kf_rebind"))
            if code in FINDING_OF and (not beh_bad or code in (21, 23)):
                rec["finding"] = FINDING_OF[code]
            elif code == 22 and beh_bad and rebind:
                rec["finding"] = "kf_apply_extra_rebind"
            failures.append(rec)
        elif code in (1, 3):
            rec["what"] = ("malformed case (harness)" if code == 3 else "model and implementation differ") + \
                          f" | source={c['source']!r} stub={c['stub']!r}"[:1500]
            mismatches.append(rec)
    nontrivial = {common.digest(c["term"]) for c in cases
                  if c["term"] and "Item" in c["term"].rsplit("(CCase", 1)[-1] and ("SImp" in c["term"])}
    dist["moved_nonempty"] = sum(1 for c in cases if c.get("newly"))
    # order: untagged failures first so that the driver's first replay files are the violations
    failures.sort(key=lambda f: (1 if f.get("finding") else 0))
    return {
        "evaluations": len(cases), "distinct_nontrivial": len(nontrivial),
        "rule": "57 directed witnesses (the design-phase defects and their neighbours), then random sources: optional docstring / "
                "__future__ import, 0-5 import statements from a 32-entry pool (import a.b, aliases, star, typing, "
                "mypy_extensions, clashing names) placed at the top, after a statement, in a function, under an existing "
                "TYPE_CHECKING block (also aliased), in try/except, in one-line try / def / if suites, in module-level with / for / while / try-else / try-finally bodies (blocks and one-line suites), in TYPE_CHECKING blocks local to a function or class body, on `;`-joined lines (those cases are compared with the specification only, not with the model), or in the else / elif branch of the TYPE_CHECKING statement; a quarter of the targets are modules of a package and also use relative imports (from .m / .. / .a.b) whose tails coincide with the stub's absolute modules; 1-3 functions whose stub is rendered by MonkeyType's own "
                "build_module_stubs_from_traces (k in {0,5}) or, for ~10%, hand-written with aliased imports (from a import b as c, import a.b as d) or plain module imports (import a.b); every case goes through the real apply step, "
                "get_newly_imported_items and apply_stub_using_libcst(..., True); verdict in Coq; then source and result are "
                "imported in fresh interpreters and run() compared; the results of all directed and a quarter of the random "
                "cases are then the source of a second application of the same stub (re-application stream); a HISTORY stream repeats the first directed cases and the cases whose stub brings >= 2 names from one module and one from another as a sequence of applies inside one fresh interpreter, once per PYTHONHASHSEED in 1..4 (forward and reversed order). non-trivial = the stub brings a newly imported item and "
                "the source has an import; distinct by hash of the reified case",
        "samples": [{"source": c["source"], "stub": c["stub"], "output": c["output"]} for c in cases[57:60]],
        "distribution": dist, "failures": failures, "mismatches": mismatches,
        "relation": "module_eqb (confine stub src applied) out  /\\  set_eqb (newly stub src) impl_newly",
    }


def replay(ctx, payload):
    fx_root = os.path.join(ctx.work, "fx")
    os.makedirs(fx_root)
    _load_fixture(fx_root)
    try:
        p = payload.get("case", payload)
        c = build_case(0, p["source"], p["stub"], p.get("overwrite", False), fx_root)
        print("implementation output:\n" + str(c["output"] or c["error"]))
        codes, clauses, beh = evaluate(ctx, [c], fx_root)
        print("verdict:", codes.get(0, 0))
        print("clauses:", dict(zip(CLAUSE_NAMES, clauses.get(0, []))))
        print("behaviour:", beh.get(0))
        return 0 if codes.get(0, 0) == 0 and beh.get(0, (True,))[0] else 1
    finally:
        _unload_fixture(fx_root)


CLAIM = {
    'text': 'Coq theorems confine_spec and runtime_names_preserved about the model of MonkeyType\'s own confinement logic '
            '(get_newly_imported_items, transform_module_impl, RemoveImportsTransformer) for every stub, source and applied '
            'module; the real apply_stub_using_libcst(..., True) is compared with the model and with the specification inside '
            'Coq on every generated case, and its result is executed.',
    'note': 'Trusted: Coq kernel + vm_compute; the ast abstraction; libcst modelled (GatherImportsVisitor, AddImportsVisitor) '
            'or taken as input under per-case checked assumptions (ApplyTypeAnnotationsVisitor). Importability and '
            'unchanged behaviour are tested by execution, not proved.',
    'technique': 'Coq proof (induction over statement lists, embedding relation) + vm_compute differential correspondence + '
                 'execution of the result',
    'ref': '4/C16',
}
