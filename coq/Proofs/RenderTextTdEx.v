(* Proofs/RenderTextTdEx.v — non-vacuity of td_stub_resolves_flat (C11). *)
From MT Require Import Types Render TypesFacts RenderTok RenderTextStr RenderTextPx RenderText RenderTextTd RenderTextEx.
From Coq Require Import Lia.

Open Scope string_scope.
Open Scope nat_scope.
Open Scope list_scope.

Definition td_req : list (string * ty) := [("x", TCls 2%N); ("b", TList (TCls 3%N))].
Definition td_opt : list (string * ty) := [("z", TTuple [TCls 2%N; TType (TCls 3%N)]); ("a", TDict (TCls 3%N) TAny)].
Definition td_cs : list cstub := snd (rtd (TTypedDict td_req td_opt) "some_arg").
Definition td_ns : namespace := cstubs_ns xct td_cs ++ ("TypedDict", NsTDBase) :: xns.

Example ex_td_stub_resolves_flat :
  fst (rtd (TTypedDict td_req td_opt) "some_arg") = TFwd "SomeArgTypedDict__RENAME_ME__NonTotal"
  /\ map cs_header td_cs = ["SomeArgTypedDict__RENAME_ME__(TypedDict)";
                            "SomeArgTypedDict__RENAME_ME__NonTotal(SomeArgTypedDict__RENAME_ME__, total=False)"]
  /\ exists r, resolve xct td_ns 3 (TFwd "SomeArgTypedDict__RENAME_ME__NonTotal") = Some r
               /\ corrb (TTypedDict td_req td_opt) r = true.
Proof.
  split; [vm_compute; reflexivity|]. split; [vm_compute; reflexivity|].
  assert (Hb : binds_base td_ns).
  { split; [reflexivity|]. split; [reflexivity|].
    intros k Hk. cbn in Hk. repeat (destruct Hk as [<-|Hk]; [reflexivity|]). destruct Hk. }
  assert (W : wf_ty (TTypedDict td_req td_opt)).
  { apply wf_TTypedDict. split.
    - cbn. repeat constructor; cbn; intuition discriminate.
    - split; repeat constructor; cbn; auto. }
  assert (HF : Forall (fld_good xct td_ns) (td_req ++ td_opt)).
  { cbn [td_req td_opt app]. repeat constructor; try (vm_compute; reflexivity);
      intros c Hc Hn; cbn in Hc;
      repeat (destruct Hc as [<-|Hc]; [first [vm_compute; reflexivity | exfalso; apply Hn; reflexivity]|]);
      destruct Hc. }
  pose proof (td_stub_resolves_flat xct td_ns Hb "some_arg" td_req td_opt 3 W HF) as T.
  change (rtd (TTypedDict td_req td_opt) "some_arg")
    with (TFwd "SomeArgTypedDict__RENAME_ME__NonTotal", td_cs) in T.
  cbv beta iota in T. apply T.
  - discriminate.
  - vm_compute. repeat constructor; cbn; intuition discriminate.
  - intros s Hs. vm_compute in Hs. destruct Hs as [<-|[<-|[]]]; vm_compute; reflexivity.
  - reflexivity.
  - vm_compute. lia.
Qed.

Print Assumptions td_stub_resolves_flat.
