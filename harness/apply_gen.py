"""C15: generator of source modules (text), of the fixture module they import, and of CallTraces for subsets of
their functions.  All randomness comes from the `random.Random` handed in."""
import importlib
import os
import sys
from typing import Any, Callable, Dict, List, Optional, Set, Tuple, Type

SHAPES_SRC = '''class Circle:
    pass


class Square:
    pass


class Outer:
    class Inner:
        pass


def area(x):
    return 1
'''

PLAIN_ANNOS = ["int", "str", "bool", "float", "object"]
TYPING_ANNOS = ["Dict[str, int]", "Any", "Dict[str, Any]"]


class Fn:
    def __init__(self, name, params, ret, kind="func", is_async=False, is_gen=False, deco=False, nested=False,
                 comment=False, local_import=False):
        self.name, self.params, self.ret, self.kind = name, params, ret, kind
        self.is_async, self.is_gen, self.deco, self.nested, self.comment = is_async, is_gen, deco, nested, comment
        self.local_import = local_import
        self.und = False

    def render(self, ind, shapes):
        pad = " " * ind
        out = []
        if self.comment:
            out.append(f"{pad}# about {self.name}: keep me")
        if self.kind == "classmethod":
            out.append(f"{pad}@classmethod")
        elif self.kind == "staticmethod":
            out.append(f"{pad}@staticmethod")
        elif self.kind == "property":
            out.append(f"{pad}@property")
        if self.deco:
            out.append(f"{pad}@passthru")
        parts, seen_kwonly, seen_posonly = [], False, False
        ps = list(self.params)
        k0 = "PosOnly" if any(p[1] == "PosOnly" for p in ps) else "PosOrKw"
        if self.kind in ("method", "property"):
            ps = [("self", k0, None, None)] + ps
        elif self.kind == "classmethod":
            ps = [("cls", k0, None, None)] + ps
        n_posonly = sum(1 for p in ps if p[1] == "PosOnly")
        # positional-only parameters must come first
        ps = [p for p in ps if p[1] == "PosOnly"] + [p for p in ps if p[1] != "PosOnly"]
        has_var = any(p[1] == "VarPos" for p in ps)
        for i, (n, k, a, d) in enumerate(ps):
            if k == "KwOnly" and not seen_kwonly and not has_var:
                parts.append("*")
            if k == "KwOnly":
                seen_kwonly = True
            s = {"VarPos": "*", "VarKw": "**"}.get(k, "") + n
            if a is not None:
                s += f": {a}"
            if d is not None:
                s += (" = " if a is not None else "=") + d
            parts.append(s)
            if k == "PosOnly" and i == n_posonly - 1:
                parts.append("/")
        head = f"{pad}{'async ' if self.is_async else ''}def {self.name}({', '.join(parts)})"
        if self.ret is not None:
            head += f" -> {self.ret}"
        out.append(head + ":  # sig" if self.comment else head + ":")
        b = pad + "    "
        if self.comment:
            out.append(f'{b}"""doc of {self.name}"""')
        if self.local_import:
            out.append(f"{b}import json")
            out.append(f"{b}from {shapes} import Square as _Sq")
        if self.nested:
            out.append(f"{b}def helper(z, w: int = 0):")
            out.append(f"{b}    # nested comment")
            out.append(f"{b}    return (z, w)")
            out.append(f"{b}helper(1)")
        if self.is_gen:
            out.append(f"{b}yield 1")
            out.append(f"{b}yield 2")
        else:
            out.append(f"{b}x = [1, 2, 3]  # trailing")
            out.append(f"{b}return None")
        return out


def gen_params(rnd, typing_ok, feature):
    if feature == "po_kw":        # def f(v, /, *, k): a bare `*` right after the `/`
        return [("v", "PosOnly", None, None), ("k", "KwOnly", None, rnd.choice([None, "0"]))]
    if feature == "po_var":       # def f(s, /, *a, e): `*args` right after the `/`
        return [("s", "PosOnly", None, None), ("a", "VarPos", None, None), ("e", "KwOnly", None, rnd.choice([None, "None"]))]
    if feature.startswith("po_all"):   # every parameter positional-only: def clamp(x, lo, hi, /)
        n = int(feature[-1])
        with_defaults = rnd.random() < 0.5
        return [(nm, "PosOnly", None, ("None" if with_defaults and i >= n - 1 - (n > 2) else None))
                for i, nm in enumerate(["x", "lo", "hi"][:n])]
    names = ["a", "b", "c", "d", "e"]
    n = rnd.randint(0, 4)
    ps = []
    order = []
    for i in range(n):
        order.append(rnd.choice(["PosOrKw", "PosOrKw", "PosOrKw", "KwOnly", "PosOnly"]))
    order.sort(key=lambda k: {"PosOnly": 0, "PosOrKw": 1, "KwOnly": 3}[k])
    need_default = False
    for i, k in enumerate(order):
        anno = None
        if rnd.random() < 0.3:
            anno = rnd.choice(PLAIN_ANNOS + (TYPING_ANNOS if typing_ok else []))
        d = None
        if k == "KwOnly":
            d = rnd.choice([None, "None", "0", "'s'"])
        elif need_default or rnd.random() < 0.3:
            d = rnd.choice(["None", "3", "()", "'x'"])
            need_default = True
        ps.append((names[i], k, anno, d))
    if feature == "star" or rnd.random() < 0.35:
        ps.append(("args", "VarPos", "int" if rnd.random() < 0.2 else None, None))
    if feature == "star" or rnd.random() < 0.35:
        ps.append(("kw", "VarKw", None, None))
    order2 = {"PosOnly": 0, "PosOrKw": 1, "VarPos": 2, "KwOnly": 3, "VarKw": 4}
    ps.sort(key=lambda p: order2[p[1]])
    # positional parameters: once one has a default, all later ones need one
    seen, fixed = False, []
    for (n, k, a, d) in ps:
        if k in ("PosOnly", "PosOrKw"):
            if d is not None:
                seen = True
            elif seen:
                d = "None"
        fixed.append((n, k, a, d))
    return fixed


class Mod:
    """One generated source module."""

    def __init__(self, rnd, name, shapes, idx):
        self.name, self.shapes = name, shapes
        r = rnd.random
        self.doc = r() < 0.6
        self.future = r() < 0.25
        self.typing_from = rnd.choice([None, None, "Any, Dict", "Dict, Any, List", "Optional"])
        typing_ok = self.typing_from in ("Any, Dict", "Dict, Any, List")
        self.import_typing_mod = r() < 0.08          # `import typing` -> libcst qualifies names (outside the model fragment)
        self.import_shapes_mod = r() < 0.12          # `import <shapes>`  (the C16 seam; qualification)
        self.from_shapes = rnd.choice([None, None, "Circle", "Circle as C0", "Square"])
        self.conflict = r() < 0.06                   # `from <shapes> import Circle as List`-like clash
        self.late_import = r() < 0.25
        self.star_import = r() < 0.06
        self.code_first = r() < 0.1                  # a statement before the import block
        self.block_fn = r() < 0.3
        self.nested_class = r() < 0.15
        self.global_cls_name_as_var = r() < 0.15
        feats = ["star", "plain", "plain", "gen", "async", "plain"]
        self.fns = []
        for i in range(rnd.randint(2, 4)):
            f = rnd.choice(feats)
            self.fns.append(Fn(f"f{i}", gen_params(rnd, typing_ok, f), rnd.choice([None, None, "int", "str"]) if f != "gen" else None,
                               is_async=(f == "async"), is_gen=(f == "gen"), deco=r() < 0.2, nested=r() < 0.3,
                               comment=r() < 0.5, local_import=r() < 0.15))
        # the seam between positional-only parameters and `*` / `*args` (stub rendering of the separators)
        for f in (["po_kw", "po_var"] if idx == 0 else [rnd.choice(["po_kw", "po_var", None])]):
            if f:
                self.fns.append(Fn(f"g_{f}", gen_params(rnd, typing_ok, f), None, comment=r() < 0.3))
        # parameters without alphanumerics (`_`, `__`: the conventional "ignored" argument) - the hint of generated
        # TypedDict class names; their traced values hold dicts at tuple positions >= 2 (see und_pool)
        if idx == 0 or r() < 0.2:
            fu = Fn("on_reload", [("_", "PosOrKw", None, None), ("__", "PosOrKw", None, None), ("_1", "PosOrKw", None, "None")],
                    None, comment=r() < 0.3)
            fu.und = True
            self.fns.append(fu)
        # plain `import m` of modules the stub needs `from m import Name` for (datetime.datetime, decimal.Decimal, shapes)
        self.plain_imports = idx == 4 or r() < 0.15
        if idx == 4:
            self.import_shapes_mod = True
            self.from_shapes = None
        # functions all of whose parameters are positional-only (the trailing `/` of the stub rendering)
        for n in ([1, 2, 3] if idx == 4 else [k for k in (1, 2, 3) if r() < 0.15]):
            self.fns.append(Fn(f"clamp{n}", gen_params(rnd, typing_ok, f"po_all{n}"), None, comment=r() < 0.3))
        # imports the source already holds in a non-module-level position (the confinement seam)
        self.tc_block = rnd.choice([None, "Circle", "Circle, Square"]) if idx != 1 else "Circle"
        self.try_import = (r() < 0.3) or idx == 1
        self.local_plain_import = (r() < 0.3) or idx == 1
        # module-level imports that are NOT at the top (after a def / class / if / assignments) of a name the stub needs
        self.late_needed = rnd.choice([None, None, "after_def", "after_class", "after_if", "after_assign"])
        # imports inside ONE-LINE compound statements (needed by the stub and not)
        self.oneline = [i for i in range(8) if r() < 0.2]
        if idx == 2:
            self.late_needed = rnd.choice(["after_def", "after_class", "after_if"])
            self.from_shapes = rnd.choice([None, "Circle"])
        if idx == 3:
            self.oneline = list(range(8))
            self.from_shapes = None
            self.import_shapes_mod = False
        self.classes = []
        for ci in range(rnd.randint(0, 2)):
            ms = []
            for mi in range(rnd.randint(1, 3)):
                kind = rnd.choice(["method", "method", "classmethod", "staticmethod", "property"])
                ps = [] if kind == "property" else gen_params(rnd, typing_ok, "plain")
                ms.append(Fn(f"m{mi}", ps, rnd.choice([None, None, "int"]), kind=kind, comment=r() < 0.4,
                             nested=r() < 0.2, deco=(r() < 0.15 and kind == "method")))
            self.classes.append((f"K{ci}", ms, r() < 0.5))
        if idx == 4 or r() < 0.15:
            ms = [Fn("__eq__", [("other", "PosOnly", None, None)], None, kind="method"),
                  Fn("pm", gen_params(rnd, typing_ok, f"po_all{rnd.randint(1, 3)}"), None, kind="method"),
                  Fn("ps", gen_params(rnd, typing_ok, f"po_all{rnd.randint(1, 3)}"), None, kind="staticmethod"),
                  Fn("pc", gen_params(rnd, typing_ok, f"po_all{rnd.randint(1, 3)}"), None, kind="classmethod")]
            # an async method that sorts last among the methods of its class
            ms.append(Fn("zz_async", gen_params(rnd, typing_ok, "plain"), None, kind="method", is_async=True))
            self.classes.append(("KP", ms, False))
        if idx == 3 or r() < 0.2:
            # async methods that sort first / in the middle (another method follows in the stub)
            ms = [Fn("a_async", gen_params(rnd, typing_ok, "plain"), None, kind="method", is_async=True, comment=r() < 0.3),
                  Fn("b_sync", gen_params(rnd, typing_ok, "plain"), rnd.choice([None, "int"]), kind="method"),
                  Fn("c_async", [("x", "PosOrKw", None, None)], None, kind="method", is_async=True),
                  Fn("d_static", [("y", "PosOrKw", None, "0")], None, kind="staticmethod")]
            self.classes.append(("KA", ms, r() < 0.5))
        # defaults with permissive equality (compare equal to everything) after another defaulted parameter
        self.wild = idx == 2 or r() < 0.2
        if self.wild:
            self.fns.append(Fn("wild_any", [("a", "PosOrKw", None, None), ("b", "PosOrKw", None, "None"), ("c", "PosOrKw", None, "ANY")], None))
            self.fns.append(Fn("wild_own", [("a", "PosOrKw", None, "0"), ("w", "PosOrKw", "object" if r() < 0.5 else None, "WILD"),
                                            ("k", "KwOnly", None, "WILD")], None, comment=True))
        self.idx = idx

    def text(self):
        L = []
        if self.doc:
            L.append(f'"""Module {self.name}."""')
        if self.future:
            L.append("from __future__ import annotations")
        if self.code_first:
            L.append("FIRST = 0")
        L.append("import os  # os comment")
        L.append("import functools")
        if self.typing_from:
            L.append(f"from typing import {self.typing_from}")
        if self.import_typing_mod:
            L.append("import typing")
        if self.import_shapes_mod:
            L.append(f"import {self.shapes}")
        if self.plain_imports:
            L.append("import datetime")
            L.append("import decimal")
        if self.from_shapes:
            L.append(f"from {self.shapes} import {self.from_shapes}")
        if self.conflict:
            L.append(f"from {self.shapes} import Square as Set")
        if self.star_import:
            L.append("from typing import *")
        if self.tc_block:
            L.append("from typing import TYPE_CHECKING")
            L.append("if TYPE_CHECKING:")
            L.append(f"    from {self.shapes} import {self.tc_block}")
        if self.try_import:
            L.append("try:")
            L.append(f"    from {self.shapes} import Square")
            L.append("except ImportError:")
            L.append("    Square = None")
        if self.wild:
            L.append("from unittest.mock import ANY")
        L.append("")
        L.append("# a free-standing comment")
        L.append("LIMIT = 10")
        if self.wild:
            L += ["class _Wild:", "    def __eq__(self, other): return True", "    def __ne__(self, other): return False",
                  "    __hash__ = None", "WILD = _Wild()"]
        if self.global_cls_name_as_var:
            L.append("K9 = None")
        late = [f"from {self.shapes} import Square  # late import", "UNIT = Square()"]
        if self.late_needed == "after_assign":
            L += late
        if self.late_needed == "after_if":
            L += ["if LIMIT < 0:", "    LIMIT = 0"] + late
        L.append("")
        L.append("def passthru(fn):")
        L.append("    @functools.wraps(fn)")
        L.append("    def wrapper(*a, **k):")
        L.append("        return fn(*a, **k)")
        L.append("    return wrapper")
        L.append("")
        if self.late_needed == "after_def":
            L += late + [""]
        sh = self.shapes
        one = [
            [f"def make_c(n): from {sh} import Circle; return Circle()"],
            ["def make_j(n): import json; return json.dumps(n)"],
            [f"try: from {sh} import Square", "except ImportError: Square = None"],
            ["try: import string as _string", "except ImportError: _string = None"],
            [f"if LIMIT: from {sh} import Circle as _IfC", "else: _IfC = None"],
            [f"if LIMIT > 100: from {sh} import Square"],
            [f"class Holder: from {sh} import Circle"],
            [f"with open(os.devnull) as _fh: from {sh} import Square"],
        ]
        for i in self.oneline:
            L += one[i]
        if self.oneline:
            L.append("")
        if self.local_plain_import:
            L.append("def uses_local_import():")
            L.append(f"    from {self.shapes} import Circle")
            L.append("    return Circle")
            L.append("")
        for i, f in enumerate(self.fns):
            if i == 1 and self.block_fn:
                L.append("if LIMIT > 5:")
                L += f.render(4, self.shapes)
                L.append("else:")
                L.append("    pass")
            else:
                L += f.render(0, self.shapes)
            L.append("")
            if i == 0 and self.late_import:
                L.append("from os import path as _p")
                L.append("")
        for cname, ms, attrs in self.classes:
            L.append(f"class {cname}:")
            if attrs:
                L.append("    # class level code")
                L.append("    count = 0")
                L.append("    label: str = 'k'")
            for m in ms:
                L += m.render(4, self.shapes)
                L.append("")
            if self.nested_class and cname == "K0":
                L.append("    class Deep:")
                L.append("        def dm(self, q):")
                L.append("            return q")
                L.append("")
        if self.late_needed == "after_class":
            L += late
        if self.plain_imports:
            L.append("STARTED = datetime.date(2020, 1, 1); ONE = decimal.Decimal(1)  # run-time uses of the plain imports")
        L.append("print_ok = os.sep  # module level code at the end")
        return "\n".join(L) + "\n"


def load(workdir, name):
    if workdir not in sys.path:
        sys.path.insert(0, workdir)
    importlib.invalidate_caches()
    return importlib.import_module(name)


def func_objects(mod_obj, m: Mod):
    """[(qualname, function object as the tracer would record it, Fn)]"""
    out = []

    def unwrap(f):
        return getattr(f, "__wrapped__", f)
    for f in m.fns:
        out.append((f.name, unwrap(getattr(mod_obj, f.name)), f))
    for cname, ms, _ in m.classes:
        cls = getattr(mod_obj, cname)
        for f in ms:
            raw = cls.__dict__[f.name]
            if f.kind in ("classmethod", "staticmethod"):
                fo = raw.__func__
            elif f.kind == "property":
                fo = raw.fget
            else:
                fo = unwrap(raw)
            out.append((f"{cname}.{f.name}", fo, f))
        if m.nested_class and cname == "K0":
            out.append((f"{cname}.Deep.dm", cls.Deep.__dict__["dm"], Fn("dm", [("q", "PosOrKw", None, None)], None, kind="method")))
    return out


def type_pool(mod_obj, shapes_obj, k):
    from monkeytype.typing import get_type
    NoneT = type(None)
    pool = [int, str, NoneT, List[int], Dict[str, int], Set[int], Tuple[int, str], Optional[int],
            shapes_obj.Circle, shapes_obj.Square, shapes_obj.Outer.Inner, Type[shapes_obj.Circle],
            List[shapes_obj.Circle], Optional[shapes_obj.Square], Dict[str, shapes_obj.Outer.Inner],
            get_type({"a": 1, "b": "x"}, k), get_type([{"n": 1}], k), get_type({"p": {"q": 1.5}}, k),
            Callable[[int], str] if False else float, Any]
    if hasattr(mod_obj, "STARTED"):
        import datetime
        import decimal
        pool += [datetime.datetime, decimal.Decimal, List[datetime.datetime], Optional[decimal.Decimal]] * 2
    for cname in ("K0", "K1"):
        c = getattr(mod_obj, cname, None)
        if c is not None:
            pool += [c, c, List[c], Type[c]]
    return pool


def und_pool(k):
    """Types of values that hold dicts at tuple positions >= 2 and under the key `_` (identifier keys only: a key that is not
    an identifier makes today's stub unparseable, reported separately)."""
    from monkeytype.typing import get_type
    vals = [({"a": 1}, {"b": "x"}, {"c": 1.5}), {"_": ({"a": 1}, {"b": 2}, {"c": 3})}, [({"n": 1}, {"m": 2}, {"o": "s"})],
            ({"a": 1}, 2, {"c": {"d": 1}})]
    return [get_type(v, k) for v in vals]


def traces_for(rnd, fobjs, pool, chosen, k=0):
    """One or two CallTraces for each chosen function."""
    from monkeytype.tracing import CallTrace
    traces = []
    for qn, fo, f in fobjs:
        if qn not in chosen:
            continue
        for _ in range(rnd.randint(1, 2)):
            args = {}
            ps = list(f.params)
            if f.kind in ("method", "property"):
                args["self"] = pool[0]
            elif f.kind == "classmethod":
                args["cls"] = Type[int]
            up = und_pool(k) if getattr(f, "und", False) else None
            for (n, kd, a, d) in ps:
                if up is not None:
                    args[n] = rnd.choice(up)
                elif rnd.random() < 0.9:
                    args[n] = rnd.choice(pool)
            ret = None if rnd.random() < 0.15 else rnd.choice(pool)
            yt = rnd.choice(pool) if f.is_gen else None
            if f.is_gen and rnd.random() < 0.7:
                ret = None
            traces.append(CallTrace(fo, args, ret, yt))
    return traces
