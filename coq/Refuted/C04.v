(* Known finding kf_td_under_union (C04): multiplicity invariance fails for a value whose type carries a TypedDict
   below a union - Python's typing hashes such types by identity, so two occurrences never deduplicate and never
   compare equal; seeing the value twice turns the "all equal" path into the union path. *)
From MT Require Import Types Infer MergePermBase MergePermInfer StubSet.

Theorem multiplicity_refuted :
  exists k ts x t t', Forall TypesFacts.wf_ty ts /\ In x ts /\ shrink_top k ts = Some t /\ shrink_top k (x :: ts) = Some t'
    /\ equivb t t' = false
    /\ exists w, forall anyb, member anyb (subclass []) w t = false /\ member anyb (subclass []) w t' = true.
Proof. exact merge_dup_refuted. Qed.
Print Assumptions multiplicity_refuted.
