(* C04 — inferred types admit every observed value, for every TypedDict size limit.
   Only statements, `exact`, Print Assumptions and non-vacuity examples live here. *)
From MT Require Import Types Infer GetTypeSound.

(* Soundness, for EVERY class hierarchy table h, EVERY limit k, EVERY finite collection of
   (well-formed: dict keys distinct) values: whenever inference returns a type, every observed
   value is a member of it - already under the TIGHT reading, in which `Any` (which inference only
   produces for the elements of an empty container) admits nothing ... *)
Theorem infer_sound :
  forall (h : hierarchy) (k : nat) (vs : list value) (t : ty) (v : value),
    forallb wf_valueb vs = true -> infer k vs = Some t -> In v vs ->
    member false (subclass h) v t = true.
Proof. exact infer_sound_hier. Qed.
Print Assumptions infer_sound.

(* ... and hence under the annotation reading, in which Any admits everything. *)
Theorem infer_sound_annotation :
  forall (h : hierarchy) (k : nat) (vs : list value) (t : ty) (v : value),
    forallb wf_valueb vs = true -> infer k vs = Some t -> In v vs ->
    member true (subclass h) v t = true.
Proof. exact infer_sound_hier_anno. Qed.
Print Assumptions infer_sound_annotation.

(* The inferred type is well formed (TypedDict field names pairwise distinct, required and
   optional disjoint) — the invariant make_typed_dict's assert needs. *)
Theorem infer_well_formed :
  forall (k : nat) (vs : list value) (t : ty),
    forallb wf_valueb vs = true -> infer k vs = Some t -> TypesFacts.wf_ty t.
Proof. exact infer_wf_closed. Qed.
Print Assumptions infer_well_formed.

(* Non-vacuity: a concrete heterogeneous collection meets the premises and infers a TypedDict
   with a required and an optional key. *)
Example ex_c04_nonvacuous :
  let vs := [VDict [(VStr "a", VAtom cInt 1); (VStr "b", VStr "x")];
             VDict [(VStr "a", VAtom cNone 0)]] in
  forallb wf_valueb vs = true /\
  infer 2 vs = Some (TTypedDict [("a"%string, TUnion [TCls cInt; TCls cNone])] [("b"%string, TCls cStr)]).
Proof. vm_compute. split; reflexivity. Qed.
