(* Proofs/EncodeExamples.v — a small concrete world (class names, import environment, functions) used by the
   non-vacuity Examples of Props/C08.v and the witnesses of Refuted/C08.v. *)
From MT Require Import Types Encode EncodeRoundtrip EncodeStruct.
Open Scope string_scope.
Open Scope list_scope.
Open Scope N_scope.

(* classes: 1 NoneType, 2 int, 3 str, 16 pkg.mod.K, 17 pkg.mod.K.Inner (nested), 18 a local class *)
Definition ex_cn (c : cls) : string * string :=
  if N.eqb c 1 then ("builtins", "NoneType") else if N.eqb c 2 then ("builtins", "int")
  else if N.eqb c 3 then ("builtins", "str") else if N.eqb c 16 then ("pkg.mod", "K")
  else if N.eqb c 17 then ("pkg.mod", "K.Inner") else ("pkg.mod", "make.<locals>.Local").

(* functions: 0 pkg.mod.plain, 1 pkg.mod.wrapped (functools.wraps twice), 2 K.cm (classmethod),
   3 K.ro (read-only property), 4 K.rw (property with a setter), 5 K.Inner.meth *)
Definition ex_fn (f : fid) : string * string :=
  if N.eqb f 0 then ("pkg.mod", "plain") else if N.eqb f 1 then ("pkg.mod", "wrapped")
  else if N.eqb f 2 then ("pkg.mod", "K.cm") else if N.eqb f 3 then ("pkg.mod", "K.ro")
  else if N.eqb f 4 then ("pkg.mod", "K.rw") else ("pkg.mod", "K.Inner.meth").

Definition ex_typing (q : string) : lookup :=
  if String.eqb q "Any" then LFound OAny
  else if String.eqb q "Union" then LFound (OGen GUnion) else if String.eqb q "List" then LFound (OGen GList)
  else if String.eqb q "Set" then LFound (OGen GSet) else if String.eqb q "Dict" then LFound (OGen GDict)
  else if String.eqb q "DefaultDict" then LFound (OGen GDefaultDict) else if String.eqb q "Tuple" then LFound (OGen GTuple)
  else if String.eqb q "Type" then LFound (OGen GType) else if String.eqb q "Iterator" then LFound (OGen GIterator)
  else if String.eqb q "Generator" then LFound (OGen GGenerator) else if String.eqb q "Callable" then LFound (OGen GCallable)
  else LNoAttr.

Definition ex_ev (m q : string) : lookup :=
  if String.eqb m "typing" then ex_typing q
  else if String.eqb m "builtins" then
    (if String.eqb q "int" then LFound (OClass 2) else if String.eqb q "str" then LFound (OClass 3) else LNoAttr)
  else if String.eqb m "pkg.mod" then
    (if String.eqb q "K" then LFound (OClass 16) else if String.eqb q "K.Inner" then LFound (OClass 17)
     else if String.eqb q "plain" then LFound (OFunc 0)
     else if String.eqb q "wrapped" then LFound (OWrapper (Some "wrapped") (OWrapper (Some "wrapped") (OFunc 1)))
     else if String.eqb q "alias" then LFound (OFunc 0)                       (* alias = plain: another function's name *)
     else if String.eqb q "shadowed" then LFound (OOther (Some "deco.<locals>.w"))
     else if String.eqb q "K.cm" then LFound (OBound (OFunc 2))
     else if String.eqb q "K.ro" then LFound (OProperty (Some (OFunc 3)) false false)
     else if String.eqb q "K.rw" then LFound (OProperty (Some (OFunc 4)) true false)
     else if String.eqb q "K.Inner.meth" then LFound (OFunc 5)
     else LNoAttr)
  else LNoModule.

Definition ex_hd (q : string) : option cls := if String.eqb q "NoneType" then Some 1%N else None.

Lemma ex_typing_ok : typing_ok ex_ev.
Proof. split; [reflexivity|]. intros g. destruct g; try exact I; reflexivity. Qed.

(* Dict[str, Union[int, None]] / TypedDict{b: List[K.Inner], a: Type[K]} (optional z: Tuple[()]) under a Union
   with a Generator — nested class, class-object type, optional key, empty tuple *)
Definition ex_td : ty :=
  TTypedDict [("b", TList (TCls 17)); ("a", TType (TCls 16))] [("z", TTuple [])].
Definition ex_t : ty :=
  TUnion [TDict (TCls 3) (TUnion [TCls 2; TCls 1]); ex_td; TGenerator (TCls 2) (TCls 1) TAny; TCallable;
          TDefaultDict (TCls 3) (TIterator TAny)].
(* the same type with the TypedDict's fields listed in another order *)
Definition ex_t_perm : ty :=
  TUnion [TDict (TCls 3) (TUnion [TCls 2; TCls 1]);
          TTypedDict [("a", TType (TCls 16)); ("b", TList (TCls 17))] [("z", TTuple [])];
          TGenerator (TCls 2) (TCls 1) TAny; TCallable; TDefaultDict (TCls 3) (TIterator TAny)].

Lemma ex_t_ok : ok_type ex_cn ex_ev ex_hd ex_t.
Proof.
  split; [repeat split; vm_compute; reflexivity|].
  cbn [ex_t ex_td classes flat_map app fst snd]. repeat constructor; reflexivity.
Qed.

Lemma ex_t_perm_ok : ok_type ex_cn ex_ev ex_hd ex_t_perm.
Proof.
  split; [repeat split; vm_compute; reflexivity|].
  cbn [ex_t_perm classes flat_map app fst snd]. repeat constructor; reflexivity.
Qed.

Lemma ex_fields_perm : fields_perm ex_t ex_t_perm.
Proof.
  apply fields_perm_union. cbn [lrelP ex_t ex_t_perm]. repeat split.
  unfold ex_td. apply fields_perm_td.
  exists [("b", TList (TCls 17)); ("a", TType (TCls 16))], [("z", TTuple [])].
  repeat split; try reflexivity; try apply Permutation.perm_swap; try apply Permutation.Permutation_refl.
Qed.

Definition ex_trace : trace :=
  Trace 1 [("self", TCls 16); ("payload", ex_td)] (Some (TCls 1)) None.     (* returned None, never yielded *)

Lemma ex_trace_ok : ok_trace ex_cn ex_fn ex_ev ex_hd ex_trace.
Proof.
  split; [reflexivity|]. split; [reflexivity|]. split.
  - repeat constructor; try (vm_compute; reflexivity).
  - split; [|exact I]. split; [repeat split; reflexivity|]. repeat constructor.
Qed.

(* the same trace recorded with the argument dict and the TypedDict's fields in another insertion order *)
Definition ex_trace_perm : trace :=
  Trace 1 [("payload", TTypedDict [("a", TType (TCls 16)); ("b", TList (TCls 17))] [("z", TTuple [])]); ("self", TCls 16)]
        (Some (TCls 1)) None.

Lemma ex_trace_perm_ok : ok_trace ex_cn ex_fn ex_ev ex_hd ex_trace_perm.
Proof.
  split; [reflexivity|]. split; [reflexivity|]. split.
  - repeat constructor; try (vm_compute; reflexivity).
  - split; [|exact I]. split; [repeat split; reflexivity|]. repeat constructor.
Qed.

Lemma ex_trace_perm_rel : trace_perm ex_trace ex_trace_perm.
Proof.
  split; [reflexivity|]. split.
  - exists [("self", TCls 16); ("payload", TTypedDict [("a", TType (TCls 16)); ("b", TList (TCls 17))] [("z", TTuple [])])].
    split; [|apply Permutation.perm_swap].
    cbn [frelP ex_trace tr_args fst snd]. repeat split.
    unfold ex_td. apply fields_perm_td.
    exists [("b", TList (TCls 17)); ("a", TType (TCls 16))], [("z", TTuple [])].
    repeat split; try reflexivity; try apply Permutation.perm_swap; try apply Permutation.Permutation_refl.
  - split; [reflexivity|exact I].
Qed.
