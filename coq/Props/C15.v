(* C15 — `apply` only adds annotations and imports; the program is otherwise untouched.
   Model: Model/Apply.v (libcst 1.9.0's ApplyTypeAnnotationsVisitor + AddImportsVisitor as driven by
   monkeytype/cli.py:165-225, confinement off).  [apply] is defined on the fragment [in_fragment]
   (no name qualification by libcst); every theorem is for ALL overwrite flags, stubs and sources with
   [apply ow stub src = Some out]. *)
From Coq Require Import List Bool String.
From MT Require Import Apply ApplyFacts ApplyExamples ApplyIdemBase ApplyIdemImports ApplyIdem.
Import ListNotations.
Open Scope list_scope.

(* the result is the annotated source plus inserted import items / classes the source does not define *)
Theorem apply_only_inserts :
  forall ow stub src out, apply ow stub src = Some out ->
    ins (top_class_names src) (walk_list (mk_env ow stub src) [] [] src) out.
Proof. exact apply_untouched_or_inserted. Qed.
Print Assumptions apply_only_inserts.

(* erasing annotations, added imports and added classes gives back the (annotation-erased) original:
   bodies, decorators, defaults, class structure and statement order are unchanged *)
Theorem apply_erase_invariant :
  forall ow stub src out, apply ow stub src = Some out -> erase src out = erase src src.
Proof. exact erase_invariant. Qed.
Print Assumptions apply_erase_invariant.

(* without overwriting, every annotation of the source is still there, position by position *)
Theorem apply_respects_existing :
  forall stub src out, apply false stub src = Some out -> respectsb src (core src out) = true.
Proof. exact respects_existing. Qed.
Print Assumptions apply_respects_existing.

(* every stub annotation for an unannotated position of a matched function is present in the result
   (as written, module-qualified, or quoted as a forward reference) — outside the finding classes
   kf_star_param [star-args and star-star-kwargs parameters] and kf_dotted_name (libcst rewrites A.B to B) *)
Theorem apply_complete :
  forall ow stub src out, apply ow stub src = Some out ->
    completeb (mk_env ow stub src) (excl_known (stub_symbols stub)) src (core src out) = true.
Proof. exact complete_known. Qed.
Print Assumptions apply_complete.

(* idempotence, full statement (tested on every correspondence case, textually; not proved) *)
Definition C15_full : Prop :=
  forall ow stub src out, apply ow stub src = Some out -> apply ow stub out = Some out.
(* proved part: the annotation pass, under one stub environment, is idempotent on every module *)
Theorem apply_idempotent_partial :
  forall ss e vis path, walk_list e vis path (walk_list e vis path ss) = walk_list e vis path ss.
Proof. exact walk_list_idem. Qed.
Print Assumptions apply_idempotent_partial.

(* ---- non-vacuity: the model is defined on, and changes, a non-trivial input; its result is the
   abstraction of the real tool's output; the hypotheses and conclusions above are all exercised *)
Example ex_apply_b13 : apply false b13_stub b13_src = Some b13_out.
Proof. vm_compute. reflexivity. Qed.
Example ex_b13_changes : (if stmts_eq_dec b13_out b13_src then true else false) = false.
Proof. vm_compute. reflexivity. Qed.
Example ex_b13_erase : erase b13_src b13_out = erase b13_src b13_src /\ erase b13_src b13_src <> [].
Proof. split; [apply (apply_erase_invariant _ _ _ _ ex_apply_b13)|vm_compute; discriminate]. Qed.
Example ex_b13_respects_nontrivial :
  respectsb b13_src (core b13_src b13_out) = true
  /\ respectsb b13_src (core b13_src (walk_list (mk_env true b13_stub b13_src) [] [] b13_src)) = false.
Proof. vm_compute. split; reflexivity. Qed.
Example ex_b13_idempotent : apply false b13_stub b13_out = Some b13_out.
Proof. vm_compute. reflexivity. Qed.
(* class insertion, forward-reference quoting, a late from-import, overwrite on *)
Example ex_apply_qc : apply true qc_stub qc_src = Some qc_out.
Proof. vm_compute. reflexivity. Qed.
Example ex_qc_complete_full :
  completeb (mk_env true qc_stub qc_src) excl_none qc_src (core qc_src qc_out) = true.
Proof. vm_compute. reflexivity. Qed.

(* ---- additions for Props/C15.v ---- *)
(* idempotence of the whole of apply (annotation pass, AddImports pass, class insertion), for every overwrite
   flag, stub and source, outside the class excluded by [idem_side] and wherever the model is defined on the result *)
Theorem apply_idempotent_partial2 :
  forall ow stub src out,
    apply ow stub src = Some out -> in_fragment stub out = true -> idem_side ow stub src = true ->
    apply ow stub out = Some out.
Proof. exact apply_idempotent_side. Qed.
Print Assumptions apply_idempotent_partial2.
Theorem apply_idempotent_where_defined_partial2 :
  forall ow stub src out out2,
    apply ow stub src = Some out -> idem_side ow stub src = true -> apply ow stub out = Some out2 -> out2 = out.
Proof. exact apply_idempotent_where_defined. Qed.
Print Assumptions apply_idempotent_where_defined_partial2.
(* the result stays in the modelled fragment under a condition on the stub alone *)
Theorem apply_result_in_fragment :
  forall ow stub src out, apply ow stub src = Some out -> reimport_safe stub = true -> in_fragment stub out = true.
Proof. exact apply_stays_in_fragment. Qed.
Print Assumptions apply_result_in_fragment.
Theorem apply_idempotent_partial2_closed :
  forall ow stub src out,
    apply ow stub src = Some out -> reimport_safe stub = true -> idem_side ow stub src = true ->
    apply ow stub out = Some out.
Proof. exact apply_idempotent_safe. Qed.
Print Assumptions apply_idempotent_partial2_closed.
(* the AddImports pass alone is idempotent on every module and every request list *)
Theorem add_imports_idempotent :
  forall needs ss, add_imports needs (add_imports needs ss) = add_imports needs ss.
Proof. exact add_imports_idem. Qed.
Print Assumptions add_imports_idempotent.
Example ex_idem_hyps_b13 :
  apply false b13_stub b13_src = Some b13_out /\ reimport_safe b13_stub = true
  /\ idem_side false b13_stub b13_src = true /\ (if stmts_eq_dec b13_out b13_src then true else false) = false.
Proof. exact ex_idem_b13. Qed.
Example ex_idem_hyps_qc :
  apply true qc_stub qc_src = Some qc_out /\ reimport_safe qc_stub = true /\ idem_side true qc_stub qc_src = true
  /\ fresh_classes (stub_symbols qc_stub) qc_stub qc_src <> [] /\ cands (mk_env true qc_stub qc_src) <> [].
Proof. exact ex_idem_qc. Qed.

Theorem apply_idempotent_plain_partial2 :
  forall stub src out out2,
    apply false stub src = Some out -> fresh_plain stub src = true -> apply false stub out = Some out2 -> out2 = out.
Proof. exact apply_idempotent_plain. Qed.
Print Assumptions apply_idempotent_plain_partial2.
