"""C10 — stale or undecodable stored traces are skipped, never fatal.

Tie: a fixture package is written under ctx.work, valid rows are produced from it with the real
CallTraceRow.from_trace, the package is then MUTATED ON DISK (functions / classes / modules removed or
replaced) so that rows become stale, databases are populated with chosen row lists in chosen orders, and the
real `monkeytype stub|apply` command line runs on them in fresh interpreters (with and without -v), once on
the full database and once on a database holding only the rows that really decode.  A probe in a fresh
interpreter observes the world (import / getattr results) and the real to_trace outcome of every row.  The
Gallina model (Model/Decode.v) is run on the same rows and world inside coqc; verdicts are computed in Coq
(Check/DecodeCases.v)."""
import datetime
import itertools
import json
import os
import random
import shutil
import sqlite3
import subprocess
import time
from concurrent.futures import ThreadPoolExecutor

from harness import common
from harness import decode_fixture as fx
from harness.common import coq_bool, coq_list, coq_opt, coq_str

COQ_TARGETS = ["Check/DecodeCases.vo"]
TRUSTED_BASE = [
    "harness/decode_probe.py: observation of the world (importlib.import_module / getattr results classified into "
    "function, bound method, property, class, Any, generic, other) and reification of decoded typing objects",
    "harness/props/C10.py: JSON row -> Gallina row reifier; stdout/stderr -> outcome reifier; os.path.exists / "
    "os.path.splitext of the module argument are passed to the model as inputs",
    "typing's g[args] is a Section variable of the theorems; the tie instantiates it with the identity on argument lists "
    "(rows come from the real encoder, already normalised)",
]
ASSUMPTIONS = [
    "build (stub construction from decoded traces) and applyf (libcst application) are Section variables: the same "
    "function on both sides of the equation; the tie observes them through a second real run on the decodable rows alone",
    "__wrapped__ chains are finite (inspect.unwrap raises ValueError on a cycle; not expressible in the model)",
    "django is not installed (compat.cached_property is None), so get_func_in_module's cached_property branch never fires",
    "the order of rows is the order store.filter returns (read back with the real SQLiteStore.filter; ordering itself is C09)",
    "that each stale kind raises the modelled exception class in real Python is exercised per row on every run, not proved",
]
PARTIAL = []

HEADER = """From Coq Require Import List String NArith.
From MT Require Import Decode DecodeCases.
Import ListNotations.
Open Scope list_scope.
"""

RUNNER = "import sys; from monkeytype.cli import entry_point_main; entry_point_main()"


# --------------------------------------------------------------------------------------------------
# reifiers
# --------------------------------------------------------------------------------------------------
def _pairs_hook(pairs):
    keys = [k for k, _ in pairs]
    if len(set(keys)) != len(keys):
        raise ValueError("duplicate key in stored JSON object")
    return dict(pairs)


def ety_term(d):
    if d.get("is_typed_dict", False):
        fields = coq_list(f"({coq_str(k)}, {ety_term(v)})" for k, v in d["elem_types"].items())
        return f"(ETd {coq_str(d['module'])} {coq_str(d['qualname'])} {fields})"
    es = d.get("elem_types")
    return (f"(ETy {coq_str(d['module'])} {coq_str(d['qualname'])} {coq_bool(es is not None)} "
            f"{coq_list(ety_term(e) for e in (es or []))})")


def _opt_ety(enc):
    if enc is None or enc == "null":
        return "None"
    return f"(Some {ety_term(json.loads(enc, object_pairs_hook=_pairs_hook))})"


def row_term(row):
    m, q, a, r, y = row
    args = json.loads(a, object_pairs_hook=_pairs_hook)
    return (f"(Row {coq_str(m)} {coq_str(q)} {coq_list(f'({coq_str(k)}, {ety_term(v)})' for k, v in args.items())} "
            f"{_opt_ety(r)} {_opt_ety(y)})")


def dty_term(t):
    k = t[0]
    if k == "any":
        return "DAny"
    if k == "cls":
        return f"(DCls {coq_str(t[1])})"
    if k == "genbare":
        return f"(DGenBare {coq_str(t[1])})"
    if k == "gen":
        return f"(DGen {coq_str(t[1])} {coq_list(dty_term(a) for a in t[2])})"
    if k == "td":
        return f"(DTd {coq_str(t[1])} {coq_list(f'({coq_str(n)}, {dty_term(v)})' for n, v in t[2])})"
    return f"(DOpaque {coq_str(str(t[1:]))})"


def obj_term(o):
    if o == ["?too-deep"]:
        return '(Obj KOther "?too-deep" None)'
    k = o["kind"]

    def fr(f):
        return f"(FRef {coq_str(f[0])} {coq_opt(None if f[1] is None else coq_str(f[1]))})"
    if k[0] == "func":
        kind = f"(KFunc {fr(k[1])})"
    elif k[0] == "method":
        kind = f"(KMethod {fr(k[1])})"
    elif k[0] == "property":
        kind = f"(KProperty {coq_opt(None if k[1] is None else fr(k[1]))} {coq_bool(k[2])})"
    elif k[0] == "class":
        kind = f"(KClass {coq_str(k[1])})"
    elif k[0] == "any":
        kind = "KAny"
    elif k[0] == "generic":
        kind = f"(KGeneric {coq_str(k[1])})"
    else:
        kind = "KOther"
    w = "None" if o["wrapped"] is None else f"(Some {obj_term(o['wrapped'])})"
    return f"(Obj {kind} {coq_str(o['tyrepr'])} {w})"


def world_term(probe):
    imps = []
    for m, r in sorted(probe["imports"].items()):
        res = {"ok": "ImpOk", "notfound": "ImpNotFound"}.get(r[0]) or f"(ImpRaises {coq_str(r[1])})"
        imps.append(f"({coq_str(m)}, {res})")
    attrs = []
    for m, path, r in probe["attrs"]:
        if r[0] == "ok":
            res = f"(AttrOk {obj_term(r[1])})"
        elif r[0] == "missing":
            res = "AttrMissing"
        else:
            res = f"(AttrRaises {coq_str(r[1])})"
        attrs.append(f"({coq_str(m)}, {coq_list(coq_str(p) for p in path)}, {res})")
    return f"(world_of {coq_list(imps)}\n   {coq_list(attrs)})"


def rres_term(res):
    if res[0] == "ok":
        _, f, args, ret, yld, _params = res
        a = coq_list(f"({coq_str(k)}, {dty_term(v)})" for k, v in args)
        return (f"(RROk (Trace {coq_str(f)} {a} {coq_opt(None if ret is None else dty_term(ret))} "
                f"{coq_opt(None if yld is None else dty_term(yld))}))")
    if res[0] == "mt":
        return f"(RRMT {coq_str(res[1])} {coq_str(res[2])})"
    return f"(RROther {coq_str(res[1])})"


def _split_top(s):
    parts, depth, cur = [], 0, ""
    for ch in s:
        if ch == "[":
            depth += 1
        elif ch == "]":
            depth -= 1
        if ch == "," and depth == 0:
            parts.append(cur.strip())
            cur = ""
        else:
            cur += ch
    parts.append(cur.strip())
    return parts


def canon_unions(text):
    """Sort the members of every Union[...] (recursively).  The order of union members in a rendered stub depends on
    the iteration order of sets of class objects, i.e. on addresses, and differs between two identical runs; it is
    not behaviour for this property (it is C14's subject)."""
    out, i = "", 0
    while True:
        j = text.find("Union[", i)
        if j < 0:
            return out + text[i:]
        k, depth = j + 6, 1
        while k < len(text) and depth:
            depth += {"[": 1, "]": -1}.get(text[k], 0)
            k += 1
        if depth:
            return out + text[i:]
        inner = canon_unions(text[j + 6:k - 1])
        out += text[i:j] + "Union[" + ", ".join(sorted(_split_top(inner))) + "]"
        i = k


def exp_term(exp):
    return "ExpOutside" if exp is None else ("ExpOk" if exp == "ok" else f"(ExpMT {coq_str(exp)})")


def outcome_term(rc, out, err):
    """observed process -> Gallina `outcome`; fails closed on shapes it does not expect"""
    out = canon_unions(out)
    if "Traceback (most recent call last):" in err:
        before = err.split("Traceback (most recent call last):")[0]
        last = [ln for ln in err.strip().split("\n") if ln.strip()][-1]
        exc = last.split(":")[0].strip()
        lines = before.split("\n")[:-1] if before.endswith("\n") else ([] if before == "" else ["?partial-line" + before])
        return f"(Crash {coq_str(exc)} {coq_list(coq_str(x) for x in lines)})"
    if out == "":
        chunks = []
    elif out.endswith("\n"):
        chunks = [out[:-1]]
    else:
        chunks = ["?no-trailing-newline:" + out]
    if err == "":
        lines = []
    elif err.endswith("\n"):
        lines = err.split("\n")[:-1]
    else:
        lines = ["?no-trailing-newline:" + err]
    return f"(Exit {coq_list(coq_str(x) for x in chunks)} {coq_list(coq_str(x) for x in lines)} {rc})"


# --------------------------------------------------------------------------------------------------
# running things
# --------------------------------------------------------------------------------------------------
def _py(args, cwd=None, extra_env=None, timeout=300):
    p = subprocess.run([common.PY] + args, cwd=cwd, env=common.sub_env(extra_env), capture_output=True, text=True,
                       timeout=timeout)
    return p.returncode, p.stdout, p.stderr


def make_db(path, rows):
    """rows in the order they should come back: row i is i days older than row 0 (ORDER BY date(created_at) DESC)"""
    from monkeytype.db.sqlite import DEFAULT_TABLE, create_call_trace_table
    conn = sqlite3.connect(path)
    create_call_trace_table(conn)
    base = datetime.datetime(2024, 6, 28, 12, 0, 0)
    with conn:
        conn.executemany(f"INSERT INTO {DEFAULT_TABLE} VALUES (?, ?, ?, ?, ?, ?)",
                         [(str(base - datetime.timedelta(days=i)),) + tuple(r) for i, r in enumerate(rows)])
    conn.close()


def read_back(path, module, qualname):
    from monkeytype.db.sqlite import SQLiteStore
    conn = sqlite3.connect(path)
    try:
        thunks = SQLiteStore(conn).filter(module, qualname, 2000)
        return [[t.module, t.qualname, t.arg_types, t.return_type, t.yield_type] for t in thunks]
    finally:
        conn.close()


def cli_argv(sc):
    argv = (["-v"] if sc["verbose"] else []) + [sc["cmd"], sc["module"] + (":" + sc["qualname"] if sc["qualname"] is not None else "")]
    if sc["sample_count"]:
        argv.append("--sample-count")
    if sc.get("ignore"):
        argv.append("--ignore-existing-annotations")
    if sc.get("diff"):
        argv.append("--diff")
    return argv


class Env:
    def __init__(self, ctx):
        self.work = ctx.work
        self.pool = None
        self.worlds = []         # list of dict(muts, root, probe, term_name)
        self.nrun = 0
        self.nproc = 0

    def setup_pool(self):
        base = os.path.join(self.work, "base")
        os.makedirs(base)
        fx.write_tree(base, [])
        rc, out, err = _py(["-m", "harness.decode_mkrows", base])
        self.nproc += 1
        if rc != 0:
            raise RuntimeError("decode_mkrows failed: " + err[-1500:])
        self.pool = json.loads(out)
        self.rows_json = os.path.join(self.work, "rows.json")
        with open(self.rows_json, "w") as f:
            json.dump(self.pool, f)
        self.tag_of = {tuple(v): k for k, v in self.pool.items()}
        if len(self.tag_of) != len(self.pool):
            raise RuntimeError("row pool has duplicate rows")

    def add_worlds(self, mutsets):
        start = len(self.worlds)
        for muts in mutsets:
            i = len(self.worlds)
            root = os.path.join(self.work, "worlds", f"w{i}")
            os.makedirs(root)
            fx.write_tree(root, muts)
            self.worlds.append({"muts": sorted(muts), "root": root, "name": f"w{i}"})

        def probe(w):
            rc, out, err = _py(["-m", "harness.decode_probe", w["root"], self.rows_json])
            if rc != 0:
                raise RuntimeError(f"decode_probe failed on world {w['muts']}: " + err[-1500:])
            w["probe"] = json.loads(out)
        with ThreadPoolExecutor(max_workers=common.NCPU) as ex:
            list(ex.map(probe, self.worlds[start:]))
        self.nproc += len(mutsets)

    def prepare(self, wi, module, qualname, tags):
        """a fresh directory with the world's package and a database holding `tags` in that order"""
        self.nrun += 1
        d = os.path.join(self.work, "runs", f"r{self.nrun}")
        os.makedirs(d)
        fx.copy_tree(self.worlds[wi]["root"], d)
        db = os.path.join(d, "traces.sqlite3")
        make_db(db, [self.pool[t] for t in tags])
        rows = read_back(db, module, qualname)
        return d, db, rows

    def world_defs(self):
        return "\n".join(f"Definition {w['name']} : world :=\n  {world_term(w['probe'])}." for w in self.worlds)


def run_cli_many(jobs):
    """jobs: list of (dir, db, argv) -> list of (rc, out, err), 16-way parallel, one fresh interpreter each"""
    def one(j):
        d, db, argv = j[:3]
        if len(j) > 3 and j[3]:          # a two-command history in one process (harness/decode_history.py)
            spec = os.path.join(d, "history.json")
            with open(spec, "w") as f:
                json.dump(dict(j[3], argv=argv), f)
            return _py(["-m", "harness.decode_history", spec], cwd=d, extra_env={"MT_DB_PATH": db})
        return _py(["-c", RUNNER] + argv, cwd=d, extra_env={"MT_DB_PATH": db})
    with ThreadPoolExecutor(max_workers=common.NCPU) as ex:
        return list(ex.map(one, jobs))


# --------------------------------------------------------------------------------------------------
# generation
# --------------------------------------------------------------------------------------------------
MOD_TAGS_VALID = fx.VALID_TAGS
V3 = ["ok_a", "meth", "gen"]
S4 = ["ok_a", "removed", "argcls", "nontype"]


def mod_tags(pool):
    return [t for t, r in pool.items() if r[0] == fx.TARGET and t != "params_pruned"]


def tags_all_interleaved(pool, stale):
    """every stale row of the target module, a valid row after every third one"""
    out, valid = [], ["ok_a", "meth", "gen", "ok2", "cm", "sm", "prop", "wrapped", "ok_b", "td"]
    for i, t in enumerate(stale):
        out.append(t)
        if i % 3 == 2:
            out.append(valid[(i // 3) % len(valid)])
    seen, res = set(), []
    for t in out:
        if t not in seen:
            seen.add(t)
            res.append(t)
    return res


def gen_worlds(tier, rnd):
    ws = [[], list(fx.ALL_MUTS)]
    n_random = 2 if tier == "quick" else 12
    for _ in range(n_random):
        k = rnd.randrange(2, len(fx.ALL_MUTS) - 1)
        ws.append(sorted(rnd.sample(fx.ALL_MUTS, k)))
    if tier == "thorough":
        ws += [[m] for m in fx.ALL_MUTS]
    ws.append(sorted(fx.TYPE_MUTS))        # classes / modules gone or rebound, functions reshaped, every function still there
    ws.append(["broken", "f_removed"])       # outside the property: the module no longer compiles
    return ws


def sc(world, tags, module=fx.TARGET, qualname=None, cmd="stub", verbose=False, sample_count=False, family="",
       diff=False, ignore=False):
    return {"world": world, "tags": list(tags), "module": module, "qualname": qualname, "cmd": cmd,
            "verbose": verbose, "sample_count": sample_count, "family": family, "diff": diff, "ignore": ignore}


def gen_scenarios(tier, rnd, env):
    quick = tier == "quick"
    nw = len(env.worlds)
    W0, WALL, WTYPES, WBROKEN = 0, 1, nw - 2, nw - 1
    out = []
    allm = set(fx.ALL_MUTS)
    stale = [t for t in mod_tags(env.pool) if fx.expected(t, allm) != "ok"] + ["params", "lru", "moved"]
    # (a) every stale kind at every position between three valid rows
    def grouped(tags, n):
        """stores of n stale rows each, put at rotating positions (front / between / end) among the three valid rows"""
        res = []
        for gi in range(0, len(tags), n):
            store, rot = list(V3), (gi // n) % 4
            for k, t in enumerate(tags[gi:gi + n]):
                store.insert(min((rot + 2 * k) % (len(store) + 1), len(store)), t)
            res.append(store)
        return res
    if quick:       # four stale rows per store: every kind occurs, at the front, between valid rows and at the end
        for j, store in enumerate(grouped(stale, 4)):
            out.append(sc(WALL, store, verbose=bool(j % 2), sample_count=(j % 4 == 1), family="every-kind-every-position"))
    else:
        for i, t in enumerate(stale):
            for p in range(4):
                for verbose in (False, True):
                    out.append(sc(WALL, V3[:p] + [t] + V3[p:], verbose=verbose, sample_count=(i % 4 == 1),
                                  family="every-kind-every-position"))
    # (b) all subsets and orders of a 4-row alphabet (two valid... one valid, three stale kinds)
    perms = [list(p) for k in range(0, 5) for p in itertools.permutations(S4, k)]
    chosen = rnd.sample(perms, 6) if quick else perms
    for j, p in enumerate(chosen):
        out.append(sc(WALL, p, verbose=bool(j % 2), family="subsets-and-orders"))
    # (c) random longer stores over the whole pool, any world
    tags = mod_tags(env.pool)
    for j in range(4 if quick else 150):
        n = rnd.randrange(2, 9 if quick else 14)
        out.append(sc(rnd.randrange(0, nw - 1), rnd.sample(tags, n), verbose=rnd.random() < 0.5,
                      sample_count=rnd.random() < 0.4, cmd="apply" if rnd.random() < 0.25 else "stub", family="random"))
    # (d) nothing decodable / other modules / qualname specifiers / empty store
    out += [
        sc(WALL, ["gone_g"], module="fxpkg.gone", family="nothing-decodable"),
        sc(WALL, ["leaf_f"], module="fxpkg.sub.leaf", verbose=True, family="nothing-decodable"),
        sc(WALL, ["top"], module="fxpkg", family="nothing-decodable"),                # os.path.exists('fxpkg') is true
        sc(WALL, ["removed", "cls", "argcls", "local"], verbose=True, family="nothing-decodable"),
        sc(WALL, ["removed", "cls", "argcls", "local"], cmd="apply", family="nothing-decodable"),
        sc(WALL, ["meth", "kgone", "prop_set", "ok_a", "m_removed"], qualname="K", verbose=True, family="specifier"),
        sc(WALL, ["meth", "kgone", "ok_a"], qualname="KGone", family="specifier"),
        sc(WALL, ["removed", "cls"], qualname="", family="specifier"),          # "fxpkg.mod:" -> empty specifier is falsy
        sc(WALL, [], family="empty-store"),
        sc(WALL, ["moved"], family="decodes-but-no-stub-for-module"),
        sc(WALL, ["moved", "removed", "builtin"], sample_count=True, family="decodes-but-no-stub-for-module"),
        sc(W0, ["gone_g"], module="fxpkg.gone", family="unmutated"),
        sc(W0, ["leaf_f"], module="fxpkg.sub.leaf", family="unmutated"),
    ]
    # (d') `apply` where the TARGET module itself no longer exists (module / sub-package / top-level module removed),
    # and the other nothing-decodable / specifier / empty / no-stub shapes through `apply`
    out += [
        sc(WALL, ["gone_g", "gone_g2"], module="fxpkg.gone", cmd="apply", family="apply-target-removed"),
        sc(WALL, ["gone_g2", "gone_g"], module="fxpkg.gone", cmd="apply", verbose=True, family="apply-target-removed"),
        sc(WALL, ["leaf_f", "leaf_f2"], module="fxpkg.sub.leaf", cmd="apply", family="apply-target-removed"),
        sc(WALL, ["top_tf", "top_tf2"], module="fxtop", cmd="apply", verbose=True, family="apply-target-removed"),
        sc(WALL, ["top_tf"], module="fxtop", cmd="apply", sample_count=True, family="apply-target-removed"),
        sc(WALL, ["top_tf2", "top_tf"], module="fxtop", family="nothing-decodable"),
        sc(WALL, [], module="fxpkg.gone", cmd="apply", family="apply-target-removed"),
        sc(WALL, ["top"], module="fxpkg", cmd="apply", verbose=True, family="apply-nothing-decodable"),
        sc(WALL, ["meth", "kgone", "prop_set", "ok_a", "m_removed"], qualname="K", cmd="apply", family="apply-specifier"),
        sc(WALL, ["meth", "kgone", "ok_a"], qualname="KGone", cmd="apply", verbose=True, family="apply-specifier"),
        sc(WALL, [], cmd="apply", family="apply-empty-store"),
        sc(WALL, ["moved", "removed", "alias"], cmd="apply", family="apply-no-stub-for-module"),
        sc(W0, ["gone_g", "gone_g2"], module="fxpkg.gone", cmd="apply", family="apply-unmutated"),
        sc(W0, ["top_tf", "top_tf2"], module="fxtop", cmd="apply", sample_count=True, family="apply-unmutated"),
    ]
    # (d'') `apply` with every stale kind in one store (all of them skipped, the valid rows applied)
    out.append(sc(WALL, tags_all_interleaved(env.pool, stale), cmd="apply", verbose=True, family="apply-every-kind"))
    out.append(sc(WALL, tags_all_interleaved(env.pool, stale), cmd="apply", sample_count=True, family="apply-every-kind"))
    # ... and each stale kind alone between valid rows (quick: eight kinds per store)
    if quick:
        for j, store in enumerate(grouped(list(reversed(stale)), 8)):
            out.append(sc(WALL, store, cmd="apply", verbose=bool(j % 2), family="apply-every-kind"))
    else:
        for i, t in enumerate(stale):
            p = (i // 2) % 4
            out.append(sc(WALL, V3[:p] + [t] + V3[p:], cmd="apply", verbose=bool((i // 2) % 2), family="apply-every-kind"))
    # (d3) two stale facts in one row (class gone for a parameter that is gone too; yield class gone and the function
    # no longer a generator; return class gone and the function now a generator; non-types nested in generics), in the
    # world where every function still exists, so that nothing but the types makes these rows stale
    dbl = [t for t in fx.DOUBLE_TAGS if fx.expected(t, set(fx.TYPE_MUTS)) != "ok"]
    groups = [dbl[i::4] for i in range(4)] if quick else [[t] for t in dbl] + [dbl[i::4] for i in range(4)]
    for j, g in enumerate(groups):
        store = []
        for i, t in enumerate(g):
            store += [t, V3[i % 3]] if (i + j) % 2 else [V3[i % 3], t]
        store = list(dict.fromkeys(store + ["ok2"]))
        out.append(sc(WTYPES, store, cmd="apply" if j % 2 else "stub", verbose=bool((j // 2) % 2),
                      family="two-stale-facts-in-one-row"))
        if not quick:
            out.append(sc(WTYPES, store, cmd="stub" if j % 2 else "apply", verbose=not bool((j // 2) % 2),
                          sample_count=True, family="two-stale-facts-in-one-row"))
    # (d4) local-scope rows: alone (nothing decodable, count 2) and among valid rows, in the unmutated and the mutated world
    for w in (W0, WALL):
        out += [
            sc(w, ["local", "local2"], family="local-scope"),
            sc(w, ["local2", "local"], verbose=True, family="local-scope"),
            sc(w, ["local", "local2"], cmd="apply", family="local-scope"),
            sc(w, ["ok_a", "local", "meth", "local2", "gen"], verbose=(w == W0), family="local-scope"),
        ]
    out.append(sc(W0, ["local2", "ok_a", "local"], cmd="apply", verbose=True, family="local-scope"))
    # (d5) `stub --diff` (two passes of get_stub: the report appears twice), every world, a store with some valid rows and
    # a store with none, with and without -v / --ignore-existing-annotations
    cand = ["removed", "argcls", "nontype", "retcls", "cls", "yieldcls", "nt_opt_fn", "params_argcls"]
    for w in ((W0, WALL, WTYPES) if quick else range(nw - 1)):
        muts = set(env.worlds[w]["muts"])
        st = [t for t in cand if fx.expected(t, muts) != "ok"][:3]
        some = ["ok2", "local"] + st[:2] + ["meth", "local2"] + st[2:] + ["ok_a"]
        none = ["local"] + st + ["local2"]
        out.append(sc(w, some, diff=True, verbose=bool(w % 2), ignore=bool((w // 2) % 2), family="stub-diff"))
        out.append(sc(w, none, diff=True, verbose=not bool(w % 2), ignore=bool(w % 2), family="stub-diff"))
        if not quick:
            out.append(sc(w, some, diff=True, verbose=not bool(w % 2), ignore=True, family="stub-diff"))
            out.append(sc(w, none, diff=True, verbose=bool(w % 2), family="stub-diff"))
    out.append(sc(WALL, [], diff=True, family="stub-diff"))
    # (d6) --sample-count: the per-function trace counts must be those of the valid rows alone, whatever stale rows
    # follow or precede a valid row (several rows per function, stale rows after each of them)
    for j, w in enumerate((WALL, WTYPES)):
        store = ["ok_a", "removed", "ok_b", "argcls", "nontype", "meth", "local", "base_run", "sub_run", "td", "retcls", "gen",
                 "yieldcls", "ali_run"]
        out.append(sc(w, store, sample_count=True, verbose=bool(j), family="sample-count"))
        out.append(sc(w, list(reversed(store)), sample_count=True, verbose=not bool(j), cmd="apply", family="sample-count"))
    out.append(sc(W0, ["ok_a", "local", "ok_b", "local2", "sub_run", "base_run"], sample_count=True, family="sample-count"))
    # (d7) a two-command history in ONE process: a command runs while a module / sub-package is missing, the files come
    # back, the command of the scenario runs: it must behave as in a fresh process (nothing is remembered as missing)
    def hist(s, remove, prime):
        s["history"] = {"remove": remove, "prime_argv": prime}
        s["family"] = "history-one-process"
        return s
    out += [
        hist(sc(W0, ["ok_a", "gonemod_cls", "meth"]), ["fxpkg/gone.py"], ["stub", "fxpkg.mod"]),
        hist(sc(W0, ["gone_g", "gone_g2"], module="fxpkg.gone", verbose=True), ["fxpkg/gone.py"], ["-v", "stub", "fxpkg.gone"]),
        hist(sc(W0, ["ok_a", "subcls", "retcls", "local"], cmd="apply"), ["fxpkg/sub"], ["stub", "fxpkg.mod"]),
        hist(sc(W0, ["leaf_f", "leaf_f2"], module="fxpkg.sub.leaf", sample_count=True), ["fxpkg/sub"], ["stub", "fxpkg.sub.leaf"]),
        hist(sc(W0, ["top_tf", "topcls"], module="fxtop"), ["fxtop.py"], ["apply", "fxtop"]),
        hist(sc(WTYPES, ["ok_a", "argcls", "meth"], verbose=True), ["fxpkg/kinds.py"], ["stub", "fxpkg.mod"]),
    ]
    # (e) the unmutated package: the whole pool decodes except the local-scope function
    out.append(sc(W0, tags, sample_count=True, family="unmutated"))
    out.append(sc(WALL, tags, verbose=True, sample_count=True, family="whole-pool"))
    if not quick:
        out.append(sc(WALL, tags, family="whole-pool"))
    # (f) apply
    out += [
        sc(WALL, ["ok_a", "removed", "meth", "nontype", "gen"], cmd="apply", family="apply"),
        sc(WALL, ["argcls", "ok_b", "cls", "sm", "td_stale", "td"], cmd="apply", verbose=True, family="apply"),
        sc(W0, ["ok_a", "local", "retcls"], cmd="apply", verbose=True, family="apply"),
    ]
    if not quick:
        for j, p in enumerate(perms[:40]):
            out.append(sc(WALL, p, cmd="apply", verbose=bool(j % 2), family="apply"))
    # (g) outside the property: a module that no longer compiles (SyntaxError is not a MonkeyTypeError)
    out.append(sc(WBROKEN, ["broken_f"], module="fxpkg.broken", family="outside-property"))
    out.append(sc(WBROKEN, ["ok_a", "removed", "meth"], verbose=True, family="every-kind-every-position"))
    return out


# --------------------------------------------------------------------------------------------------
# evaluation
# --------------------------------------------------------------------------------------------------
def evaluate(env, scenarios, workname):
    """run all scenarios; returns (terms, records)"""
    # first runs
    prepared = []
    for s in scenarios:
        d, db, rows1 = env.prepare(s["world"], s["module"], s["qualname"], s["tags"])
        results = env.worlds[s["world"]]["probe"]["results"]
        tags1 = [env.tag_of[tuple(r)] for r in rows1]
        real1 = [results[t] for t in tags1]
        muts = set(env.worlds[s["world"]]["muts"])
        # What the command has to deal with is known BY CONSTRUCTION: the rows that were inserted for this module
        # (and specifier), not what the implementation's store query chooses to return; and which of them are valid
        # is known from the fixture, not from what the implementation says it can decode.
        sel = [t for t in s["tags"] if env.pool[t][0] == s["module"]
               and (s["qualname"] is None or env.pool[t][1].startswith(s["qualname"]))]
        exp1 = [fx.expected(t, muts) for t in sel]
        tags2 = [t for t, e in zip(sel, exp1) if e == "ok"]
        prepared.append({"s": s, "dir": d, "db": db, "rows1": rows1, "tags1": tags1, "real1": real1, "inserted": sel,
                         "exp1": exp1, "tags2": tags2})
    # second runs (decodable rows alone), shared between scenarios that agree on everything that matters
    second = {}
    for p in prepared:
        s = p["s"]
        key = (s["world"], s["module"], s["qualname"], tuple(p["tags2"]), s["cmd"], s["sample_count"],
               bool(s.get("diff")), bool(s.get("ignore")))
        p["key2"] = key
        if key not in second:
            d, db, rows2 = env.prepare(s["world"], s["module"], s["qualname"], p["tags2"])
            s2 = dict(s, verbose=False)
            second[key] = {"dir": d, "db": db, "rows2": rows2, "argv": cli_argv(s2)}
    jobs = [(p["dir"], p["db"], cli_argv(p["s"]), p["s"].get("history")) for p in prepared]
    keys2 = list(second)
    jobs += [(second[k]["dir"], second[k]["db"], second[k]["argv"]) for k in keys2]
    outs = run_cli_many(jobs)
    env.nproc += len(jobs)
    def read_src(root, module):
        f = fx.source_file(root, module)
        return None if f is None else canon_unions(open(f).read())
    for p, o in zip(prepared, outs):
        p["obs1"] = o
        p["file1"] = read_src(p["dir"], p["s"]["module"])
        p["orig"] = read_src(env.worlds[p["s"]["world"]]["root"], p["s"]["module"])
    for k in keys2:
        second[k]["file2"] = read_src(second[k]["dir"], k[1])
    for k, o in zip(keys2, outs[len(prepared):]):
        second[k]["obs2"] = o
    terms = []
    for p in prepared:
        s = p["s"]
        s2 = second[p["key2"]]
        p["obs2"] = s2["obs2"]
        p["rows2"] = s2["rows2"]
        p["file2"] = s2["file2"]
        rundir = p["dir"]
        args = (f"(Args {'CStub' if s['cmd'] == 'stub' else 'CApply'} {coq_str(s['module'])} "
                f"{coq_opt(None if s['qualname'] is None else coq_str(s['qualname']))} {coq_bool(s['verbose'])} "
                f"{coq_bool(s['sample_count'])} {coq_bool(os.path.exists(os.path.join(rundir, s['module'])))} "
                f"{coq_str(os.path.splitext(s['module'])[0])})")
        terms.append(
            f"SCase {env.worlds[s['world']]['name']} {args} {coq_bool(bool(s.get('diff')))}\n    {coq_list(row_term(r) for r in p['rows1'])}\n"
            f"    {coq_list(exp_term(e) for e in p['exp1'])}\n    {outcome_term(*p['obs1'])}\n"
            f"    {coq_list(row_term(r) for r in s2['rows2'])}\n    {outcome_term(*s2['obs2'])}")
    return terms, prepared


def describe(env, p):
    s = p["s"]
    return (f"world(mutations)={env.worlds[s['world']]['muts']} rows inserted={p['inserted']} "
            f"(valid/stale by construction: {p['exp1']}) rows returned by the store query={p['tags1']} "
            f"argv={cli_argv(s)}{' AFTER, in the same process, ' + json.dumps(s['history']) if s.get('history') else ''} -> rc={p['obs1'][0]} stdout={p['obs1'][1][:300]!r} stderr={p['obs1'][2][-600:]!r}; "
            f"rows valid by construction alone {p['tags2']} -> rc={p['obs2'][0]} stdout={p['obs2'][1][:300]!r} stderr={p['obs2'][2][-300:]!r}")


class cases_built:
    """Holds the shared build lock, regenerates Gen/*.v from the repo under test and (re)builds Check/DecodeCases.vo, so
    that the case shards are evaluated against exactly that build (checks running in parallel regenerate
    Gen/Constants.v from *their* tree)."""

    def __enter__(self):
        import fcntl
        self.lock = open(os.path.join(common.VERIF, ".build.lock"), "w")
        fcntl.flock(self.lock, fcntl.LOCK_EX)
        try:
            ok, msg = common.regenerate_all()
            if not ok:
                # only the generated files this property's Coq files import concern it
                mine = common.gen_failures_for(["Check/DecodeCases.v", "Props/C10.v"])
                if mine:
                    raise RuntimeError("source extractor failed closed: " + "; ".join(mine.values()))
            if common.write_coqproject() or not os.path.exists(os.path.join(common.COQ, "Makefile")):
                subprocess.run(["coq_makefile", "-f", "_CoqProject", "-o", "Makefile"], cwd=common.COQ,
                               capture_output=True, text=True)
            p = subprocess.run(["timeout", "900", "make", "-j", "8", "Check/DecodeCases.vo"], cwd=common.COQ,
                               capture_output=True, text=True)
            if p.returncode != 0:
                raise RuntimeError("Check/DecodeCases.vo does not build: " + (p.stdout + p.stderr)[-800:])
        except BaseException:
            self.__exit__(None, None, None)
            raise
        return self

    def __exit__(self, *exc):
        import fcntl
        fcntl.flock(self.lock, fcntl.LOCK_UN)
        self.lock.close()
        return False


def run(ctx):
    t0 = time.time()
    rnd = random.Random(ctx.seed * 1000 + 10)
    env = Env(ctx)
    env.setup_pool()
    env.add_worlds(gen_worlds(ctx.tier, rnd))
    scenarios = gen_scenarios(ctx.tier, rnd, env)

    # ---- per-row cases: every pool row in every world ----
    row_terms, row_recs = [], []
    dist = {"row_cases": 0, "row_real_ok": 0, "row_real_mt": 0, "row_real_other": 0, "kinds": {}, "families": {},
            "mt_classes": {}, "cli_runs_first": 0, "cli_runs_second": 0, "verbose": 0, "apply": 0,
            "nothing_decodable": 0, "rows_per_store": {}}
    for w in env.worlds:
        muts = set(w["muts"])
        for tag, row in env.pool.items():
            res = w["probe"]["results"][tag]
            exp = fx.expected(tag, muts)
            exp_t = "ExpOutside" if exp is None else ("ExpOk" if exp == "ok" else f"(ExpMT {coq_str(exp)})")
            row_terms.append(f"RCase {w['name']} {row_term(row)} {rres_term(res)} {exp_t}")
            row_recs.append({"world": w["muts"], "tag": tag, "row": row, "real": res[:3], "expected": exp})
            dist["row_cases"] += 1
            dist["row_real_" + {"ok": "ok", "mt": "mt", "other": "other"}[res[0]]] += 1
            k = fx.kind_of(tag, muts)
            dist["kinds"][k] = dist["kinds"].get(k, 0) + 1
            if res[0] == "mt":
                dist["mt_classes"][res[1]] = dist["mt_classes"].get(res[1], 0) + 1

    # ---- command-line scenarios ----
    cli_terms, prepared = evaluate(env, scenarios, "c10cli")
    for p in prepared:
        s = p["s"]
        dist["families"][s["family"]] = dist["families"].get(s["family"], 0) + 1
        dist["verbose"] += int(s["verbose"])
        dist["apply"] += int(s["cmd"] == "apply")
        dist["nothing_decodable"] += int(not p["tags2"])
        n = str(len(p["tags1"]))
        dist["rows_per_store"][n] = dist["rows_per_store"].get(n, 0) + 1
    dist["cli_runs_first"] = len(prepared)
    dist["cli_runs_second"] = len({p["key2"] for p in prepared})

    # ---- traced names that are no longer parameters: same stub as with those names removed ----
    wi = 1
    pa = evaluate(env, [sc(wi, ["ok_a", "params", "meth"], family="prune")], "p")[1][0]
    pb = evaluate(env, [sc(wi, ["ok_a", "params_pruned", "meth"], family="prune")], "p")[1][0]
    prune_terms = [f"PCase {outcome_term(*pa['obs1'])} {outcome_term(*pb['obs1'])}"]

    # ---- `apply` rewrites the source file: same file as with the decodable rows alone, and it is what was printed ----
    file_preps = [p for p in prepared if p["s"]["cmd"] == "apply" and "Traceback (most recent call last):" not in p["obs1"][2]]
    file_terms = []
    for p in file_preps:
        out1 = canon_unions(p["obs1"][1])
        chunks = [] if out1 == "" else ([out1[:-1]] if out1.endswith("\n") else ["?no-trailing-newline", out1])
        o = lambda x: coq_opt(None if x is None else coq_str(x))
        file_terms.append(f"FCase {o(p['orig'])} {o(p['file1'])} {o(p['file2'])} {coq_list(coq_str(c) for c in chunks)}")
    dist["apply_file_cases"] = len(file_terms)

    header = HEADER + env.world_defs() + "\n"
    failures, mismatches = [], []
    with cases_built():
        shard_outs = {
            "row": common.run_coq_shards(ctx.work, "c10row", header, row_terms, "rcase", "bad verdict_row 0 cases"),
            "cli": common.run_coq_shards(ctx.work, "c10cli", header, cli_terms, "scase", "bad verdict_cli 0 cases", shard_size=20),
            "prune": common.run_coq_shards(ctx.work, "c10prune", header, prune_terms, "pcase", "bad verdict_prune 0 cases"),
            "file": common.run_coq_shards(ctx.work, "c10file", HEADER, file_terms, "fcase", "bad verdict_file 0 cases", shard_size=20),
        }
    outs = shard_outs["row"]
    for i, code in common.parse_bad(outs):
        r = row_recs[i]
        rec = dict(r, code=code, term=row_terms[i][:3000], kind="row")
        if code == 2:
            rec["what"] = (f"stale row raises a non-MonkeyTypeError exception (the command would die): world(mutations)={r['world']} "
                           f"row {r['tag']}={r['row']} real to_trace -> {r['real']}, expected {r['expected']}")
            failures.append(rec)
        else:
            rec["what"] = f"to_trace model/real differ (code {code}) for row {r['tag']} in world {r['world']}: real {r['real']}"
            mismatches.append(rec)
    outs = shard_outs["cli"]
    for i, code in common.parse_bad(outs):
        p = prepared[i]
        rec = {"scenario": p["s"], "world_mutations": env.worlds[p["s"]["world"]]["muts"], "code": code, "kind": "cli",
               "tags1": p["tags1"], "tags2": p["tags2"],
               "obs1": p["obs1"], "obs2": p["obs2"], "term": cli_terms[i][:6000]}
        if code == 2:
            rec["what"] = "stale rows not skipped as the property says: " + describe(env, p)
            failures.append(rec)
        else:
            rec["what"] = f"model/real differ (code {code}): " + describe(env, p)
            mismatches.append(rec)
    for i, code in common.parse_bad(shard_outs["file"]):
        p = file_preps[i]
        rec = {"scenario": p["s"], "world_mutations": env.worlds[p["s"]["world"]]["muts"], "code": code, "kind": "cli",
               "tags1": p["tags1"], "tags2": p["tags2"], "obs1": p["obs1"], "obs2": p["obs2"],
               "file_after_full_store": p["file1"], "file_after_decodable_alone": p["file2"],
               "what": "`apply` leaves a different source file than with the decodable rows alone (or not the one it printed): "
                       + describe(env, p)}
        (failures if code == 2 else mismatches).append(rec)
    outs = shard_outs["prune"]
    for i, code in common.parse_bad(outs):
        rec = {"kind": "prune", "code": code, "with_unknown_name": pa["obs1"], "pruned": pb["obs1"],
               "what": "a traced parameter name that no longer exists changes the stub: " + describe(env, pa)
                       + " VERSUS " + describe(env, pb)}
        failures.append(rec)

    nontrivial = {common.digest(t) for t, p in zip(cli_terms, prepared)
                  if any(e == "ok" for e in p["exp1"]) and any(e != "ok" for e in p["exp1"])}
    dist["subprocesses"] = env.nproc
    dist["worlds"] = len(env.worlds)
    dist["harness_wall_s"] = round(time.time() - t0, 1)
    samples = [{"world_mutations": env.worlds[p["s"]["world"]]["muts"], "rows_in_store_order": p["tags1"],
                "argv": cli_argv(p["s"]), "rc": p["obs1"][0], "stderr": p["obs1"][2][:400],
                "decodable_alone": p["tags2"], "stdout_equal": p["obs1"][1] == p["obs2"][1]}
               for p in prepared[:3]]
    return {
        "evaluations": len(row_terms) + len(cli_terms) + len(prune_terms) + len(file_terms),
        "distinct_nontrivial": len(nontrivial) + len({common.digest(t) for t in row_terms}),
        "rule": "fixture package mutated on disk; (i) every pool row x every world: real to_trace (fresh interpreter) vs model, "
                "class and message; (ii) stores = every stale kind at every position between 3 valid rows, all subsets/orders "
                "of a 4-row alphabet (sampled in quick), random stores over the pool in random worlds, nothing-decodable / "
                "specifier / empty / apply families; each run of the real CLI in a fresh interpreter, with a second run on the "
                "decodable rows alone; a CLI case is non-trivial when its store mixes decodable and non-decodable rows; "
                "distinct by hash of the reified case",
        "samples": samples, "distribution": dist, "failures": failures, "mismatches": mismatches,
        "relation": "run (model of cli.get_stub + handler, build observed from the second run) = observed (stdout, stderr, rc); "
                    "to_trace model = real to_trace (trace / MonkeyTypeError class + message)",
        "exhaustive": ctx.tier == "thorough",
        "extra": {"worlds": [w["muts"] for w in env.worlds]},
    }


def _eval_coq(workdir, name, header, terms, case_type, expr):
    path = os.path.join(workdir, name + ".v")
    with open(path, "w") as f:
        f.write(header + f"\nDefinition cases : list ({case_type}) :=\n  [ " + "\n  ; ".join(terms) + " ].\n"
                + f"Eval vm_compute in ({expr}).\n")
    rc, out = common.run_coqc(path)
    return out


def replay(ctx, payload):
    """re-run one stored case against the implementation and the model; print implementation output, model output and
    the verdict / property predicate"""
    rec = payload.get("case", payload)
    env = Env(ctx)
    env.setup_pool()
    if rec.get("kind") == "row":
        env.add_worlds([rec["world"]])
        w = env.worlds[0]
        res = w["probe"]["results"][rec["tag"]]
        exp = fx.expected(rec["tag"], set(w["muts"]))
        exp_t = "ExpOutside" if exp is None else ("ExpOk" if exp == "ok" else f"(ExpMT {coq_str(exp)})")
        term = f"RCase {w['name']} {row_term(env.pool[rec['tag']])} {rres_term(res)} {exp_t}"
        out = _eval_coq(ctx.work, "c10replay", HEADER + env.world_defs() + "\n", [term], "rcase",
                        "(map verdict_row cases, map (fun c => to_trace subscript_c (rc_world c) (rc_row c)) cases)")
        print("world(mutations):", w["muts"], "row:", rec["tag"], env.pool[rec["tag"]])
        print("implementation (real CallTraceRow.to_trace in a fresh interpreter):", res[:3] if res[0] != "ok" else res)
        print("expected by the property:", exp)
        print("(verdict, model to_trace):", out[-3000:])
        return 0
    if rec.get("kind") != "cli":
        print(json.dumps(rec, indent=1, default=str)[:6000])
        return 0
    s = dict(rec["scenario"])
    env.add_worlds([rec["world_mutations"]])
    s["world"] = 0
    terms, prepared = evaluate(env, [s], "replay")
    out = _eval_coq(ctx.work, "c10replay", HEADER + env.world_defs() + "\n", terms, "scase",
                    "(map verdict_cli cases, map (fun c => model_run_any c (sc_rows1 c)) cases, map prop_pred cases)")
    print("implementation:", describe(env, prepared[0]))
    print("(verdict, model outcome, property predicate on the implementation's output):", out[-3000:])
    return 0


CLAIM = {'text': 'Coq theorems get_stub_skips_stale (all worlds, all row lists, both reporting modes: outcome = outcome of the '
                 'decodable rows alone + count/lines report, stub exits 0, nothing decodable -> "No traces found"), '
                 'stale_is_mterror (each of the 12 stale kinds raises NameLookupError/InvalidTypeError, never anything else), '
                 'other_error_is_fatal (the hypothesis is necessary), unknown_params_ignored; model tied to the real CLI and '
                 'the real to_trace on a fixture package mutated on disk, verdicts evaluated in Coq.',
         'note': 'Trusted: Coq kernel + vm_compute; world observation and reifiers (harness/decode_probe.py, props/C10.py). '
                 'build/applyf/typing subscription are universally quantified, observed through a second real run.',
         'technique': 'Coq proof by induction over the row list and the decoder + differential correspondence in subprocesses',
         'ref': '4/C10'}
