(* Proofs/ApplyFacts.v — C15: facts about the apply model (Model/Apply.v), for all sources and stubs. *)
From Coq Require Import List Bool Arith String Ascii Lia.
From MT Require Import Apply.
Import ListNotations.
Open Scope list_scope.

(* ---------------------------------------------------------------- induction over statements *)
Section StmtInd.
Variable P : stmt -> Prop.
Hypothesis HDef : forall h body, P (Def h body).
Hypothesis HClass : forall n d b body, Forall P body -> P (Class n d b body).
Hypothesis HBlock : forall t body, Forall P body -> P (Block t body).
Hypothesis HImport : forall it, P (Import it).
Hypothesis HStr : forall t, P (StrExpr t).
Hypothesis HAssign : forall ts t, P (Assign ts t).
Hypothesis HAnn : forall t a v, P (AnnAssign t a v).
Hypothesis HOther : forall t, P (Other t).
Fixpoint stmt_ind' (s : stmt) : P s :=
  match s with
  | Def h body => HDef h body
  | Class n d b body =>
      HClass n d b body ((fix go (l : list stmt) : Forall P l :=
                            match l with [] => Forall_nil _ | x :: r => Forall_cons _ (stmt_ind' x) (go r) end) body)
  | Block t body =>
      HBlock t body ((fix go (l : list stmt) : Forall P l :=
                        match l with [] => Forall_nil _ | x :: r => Forall_cons _ (stmt_ind' x) (go r) end) body)
  | Import it => HImport it
  | StrExpr t => HStr t
  | Assign ts t => HAssign ts t
  | AnnAssign t a v => HAnn t a v
  | Other t => HOther t
  end.
End StmtInd.

(* ---------------------------------------------------------------- unfolding the nested fixpoints *)
Lemma walk_Class : forall e vis path n d b body,
  walk e vis path (Class n d b body) = Class n d b (walk_list e vis (path ++ [n]) body).
Proof.
  intros. cbn [walk]. f_equal. revert vis. induction body as [|x r IH]; intro vis; cbn; [reflexivity|].
  now rewrite IH.
Qed.
Lemma walk_Block : forall e vis path t body,
  walk e vis path (Block t body) = Block t (walk_list e vis path body).
Proof.
  intros. cbn [walk]. f_equal. revert vis. induction body as [|x r IH]; intro vis; cbn; [reflexivity|].
  now rewrite IH.
Qed.
Lemma zip_Class : forall P path n d b body n' d' b' body',
  zip_defs P path (Class n d b body) (Class n' d' b' body') = zip_list P (path ++ [n]) body body'.
Proof.
  intros. cbn [zip_defs]. revert body'. induction body as [|x r IH]; intros [|y r']; cbn; try reflexivity; try (now rewrite IH).
Qed.
Lemma zip_Block : forall P path t body t' body',
  zip_defs P path (Block t body) (Block t' body') = zip_list P path body body'.
Proof.
  intros. cbn [zip_defs]. revert body'. induction body as [|x r IH]; intros [|y r']; cbn; try reflexivity; try (now rewrite IH).
Qed.
Lemma classes_in_Class : forall n d b body, classes_in (Class n d b body) = classes_in_list body ++ [n].
Proof.
  intros. reflexivity.
Qed.
Lemma classes_in_Block : forall t body, classes_in (Block t body) = classes_in_list body.
Proof.
  intros. reflexivity.
Qed.

(* ---------------------------------------------------------------- the walk only touches annotation fields *)
Lemma erase_annotate_param : forall e vis sh p, erase_param (annotate_param e vis sh p) = erase_param p.
Proof.
  intros. unfold annotate_param. destruct (offered e sh p); [|reflexivity].
  destruct (takes e (p_anno p)); reflexivity.
Qed.
Lemma erase_annotate : forall e vis path h, erase_hdr (annotate e vis path h) = erase_hdr h.
Proof.
  intros. unfold annotate. destruct (matching e path h); [|reflexivity].
  unfold erase_hdr; cbn. f_equal. rewrite map_map. apply map_ext. intro. apply erase_annotate_param.
Qed.
Lemma walk_erase : forall s e vis path, erase_stmt (walk e vis path s) = erase_stmt s.
Proof.
  induction s using stmt_ind'; intros; try reflexivity.
  - cbn. now rewrite erase_annotate.
  - rewrite walk_Class. cbn. f_equal. revert vis.
    induction H as [|x r Hx Hr IH]; intro vis; cbn; [reflexivity|]. now rewrite Hx, IH.
  - rewrite walk_Block. cbn. f_equal. revert vis.
    induction H as [|x r Hx Hr IH]; intro vis; cbn; [reflexivity|]. now rewrite Hx, IH.
Qed.
Lemma walk_list_erase : forall ss e vis path, map erase_stmt (walk_list e vis path ss) = map erase_stmt ss.
Proof. induction ss as [|x r IH]; intros; cbn; [reflexivity|]. now rewrite walk_erase, IH. Qed.

Lemma walk_classes_in : forall s e vis path, classes_in (walk e vis path s) = classes_in s.
Proof.
  induction s using stmt_ind'; intros; try reflexivity.
  - rewrite walk_Class, !classes_in_Class. f_equal. revert vis.
    induction H as [|x r Hx Hr IH]; intro vis; cbn; [reflexivity|]. now rewrite Hx, IH.
  - rewrite walk_Block, !classes_in_Block. revert vis.
    induction H as [|x r Hx Hr IH]; intro vis; cbn; [reflexivity|]. now rewrite Hx, IH.
Qed.

(* ---------------------------------------------------------------- insertions and the alignment *)
Inductive ins (names : list string) : list stmt -> list stmt -> Prop :=
| ins_nil : ins names [] []
| ins_keep : forall x s r, ins names s r -> ins names (x :: s) (x :: r)
| ins_add : forall x s r, addable names x = true -> ins names s r -> ins names s (x :: r).

Lemma ins_refl : forall names s, ins names s s.
Proof. induction s; constructor; assumption. Qed.
Lemma ins_adds : forall names new s r, forallb (addable names) new = true -> ins names s r -> ins names s (new ++ r).
Proof.
  induction new as [|x n IH]; intros s r H I; cbn in *; [assumption|].
  apply andb_true_iff in H as [H1 H2]. apply ins_add; auto.
Qed.
Lemma ins_app : forall names a a' b b', ins names a a' -> ins names b b' -> ins names (a ++ b) (a' ++ b').
Proof. intros names a a' b b' I J. induction I; cbn; try constructor; auto. Qed.
Lemma ins_trans : forall names a b c, ins names a b -> ins names b c -> ins names a c.
Proof.
  intros names a b c I J. revert a I. induction J; intros a I.
  - assumption.
  - inversion I; subst.
    + apply ins_keep. auto.
    + apply ins_add; auto.
  - apply ins_add; auto.
Qed.
Lemma ins_drop_head : forall names y m r, ins names (y :: m) r -> addable names y = true -> ins names m r.
Proof.
  intros names y m r I. remember (y :: m) as s eqn:E. revert y m E.
  induction I; intros y m E A; try discriminate.
  - inversion E; subst. apply ins_add; assumption.
  - apply ins_add; [assumption|]. eapply IHI; eauto.
Qed.
Lemma insert_at_ins : forall names n new s, forallb (addable names) new = true -> ins names s (insert_at n new s).
Proof.
  intros. unfold insert_at. rewrite <- (firstn_skipn n s) at 1.
  apply ins_app; [apply ins_refl|]. apply ins_adds; [assumption|apply ins_refl].
Qed.

Lemma erase_import_inv : forall y it, erase_stmt y = Import it -> y = Import it.
Proof. destruct y; cbn; intros; try discriminate; assumption. Qed.
Lemma erase_imports_inv : forall b' b, map erase_stmt b' = b -> forallb is_import b = true -> b' = b.
Proof.
  induction b' as [|y r IH]; intros b E F; cbn in E; subst; [reflexivity|].
  cbn in F. apply andb_true_iff in F as [F1 F2].
  destruct (erase_stmt y) eqn:Ey; try discriminate.
  apply erase_import_inv in Ey. subst y. cbn. f_equal. apply IH; [reflexivity|assumption].
Qed.

Definition class_known (names : list string) (y : stmt) : Prop :=
  match y with Class n _ _ _ => str_in n names = true | _ => True end.

Lemma addable_same : forall names x y,
  addable names x = true -> erase_stmt x = erase_stmt y -> class_known names y -> x = y.
Proof.
  intros names x y A E K. destruct x; cbn in A; try discriminate.
  - (* class *) destruct y; cbn in E; try discriminate. inversion E; subst. cbn in K. rewrite K in A. discriminate.
  - (* TYPE_CHECKING block of imports *)
    destruct y; cbn in E; try discriminate. inversion E; subst.
    apply andb_true_iff in A as [_ Hb].
    assert (Hb' : forallb is_import (map erase_stmt body) = true).
    { clear -Hb. induction body as [|z r IH]; cbn in *; [reflexivity|].
      apply andb_true_iff in Hb as [H1 H2]. destruct z; try discriminate. cbn. auto. }
    f_equal.
    rewrite (erase_imports_inv body (map erase_stmt body) eq_refl Hb').
    rewrite H1 in Hb'. rewrite H1.
    symmetry. apply erase_imports_inv; [reflexivity|assumption].
  - (* import *) symmetry. apply erase_import_inv. symmetry. exact E.
Qed.

Lemma align_ins : forall names out mid,
  ins names mid out -> Forall (class_known names) mid ->
  align names (map erase_stmt mid) out = mid.
Proof.
  intros names out. induction out as [|x r IH]; intros mid I K.
  - inversion I; subst. reflexivity.
  - inversion I; subst.
    + cbn. destruct (stmt_eq_dec (erase_stmt x) (erase_stmt x)) as [_|N]; [|congruence].
      f_equal. apply IH; [assumption|]. inversion K; assumption.
    + destruct mid as [|y m].
      * cbn. match goal with H : addable _ _ = true |- _ => rewrite H end. apply (IH []); assumption.
      * cbn [map align]. destruct (stmt_eq_dec (erase_stmt x) (erase_stmt y)) as [E|N].
        -- assert (x = y) by (eapply addable_same; eauto; inversion K; assumption). subst y.
           f_equal. apply IH.
           ++ eapply ins_drop_head; eauto.
           ++ inversion K; assumption.
        -- match goal with H : addable _ _ = true |- _ => rewrite H end. apply (IH (y :: m)); assumption.
Qed.

(* ---------------------------------------------------------------- add_imports and class insertion only insert *)
Lemma span_imports_eq : forall ss a b, span_imports ss = (a, b) -> ss = a ++ b.
Proof.
  induction ss as [|s r IH]; intros a b E; cbn in E.
  - inversion E. reflexivity.
  - destruct (is_import s).
    + destruct (span_imports r) as [a' b'] eqn:E'. inversion E; subst. cbn. f_equal. apply IH. reflexivity.
    + inversion E. reflexivity.
Qed.
Lemma split_top_eq : forall ss pre b rest, split_top ss = (pre, b, rest) -> ss = pre ++ b ++ rest.
Proof.
  intros ss pre b rest E. unfold split_top in E.
  assert (G : forall l, (let (b0, rest0) := span_imports l in (@nil stmt, b0, rest0)) = (pre, b, rest) -> l = pre ++ b ++ rest).
  { intros l El. destruct (span_imports l) as [a c] eqn:E'. inversion El; subst. apply span_imports_eq in E'. assumption. }
  destruct ss as [|s r]; [apply G; assumption|].
  destruct s; try (apply G; assumption).
  destruct (span_imports r) as [a c] eqn:E'. inversion E; subst. apply span_imports_eq in E'. subst r. reflexivity.
Qed.
Lemma merge_before_ins : forall names m new block block',
  forallb (addable names) new = true -> merge_before m new block = Some block' -> ins names block block'.
Proof.
  intros names m new. induction block as [|s r IH]; intros block' A E; cbn in E; [discriminate|].
  destruct (from_of m s).
  - inversion E. apply ins_adds; [assumption|apply ins_refl].
  - destruct (merge_before m new r) eqn:E'; cbn in E; [|discriminate]. inversion E. apply ins_keep. auto.
Qed.
Lemma imports_addable : forall names (f : string -> stmt) l,
  (forall o, is_import (f o) = true) -> forallb (addable names) (map f l) = true.
Proof.
  intros. induction l; cbn; [reflexivity|]. rewrite IHl, andb_true_r.
  specialize (H a). destruct (f a); try discriminate. reflexivity.
Qed.
Lemma add_module_inv : forall names block0 m objs acc,
  ins names block0 (fst acc) /\ forallb (addable names) (snd acc) = true ->
  ins names block0 (fst (add_module m objs acc)) /\ forallb (addable names) (snd (add_module m objs acc)) = true.
Proof.
  intros names block0 m objs [block fresh] [I F]. cbn [fst snd] in *. unfold add_module.
  destruct (str_in "*" (block_objs m block)); [auto|].
  destruct (filter _ objs) as [|o os] eqn:Ef; [auto|].
  set (new := map (fun o => Import (mkItem m (Some o) None)) (o :: os)).
  assert (A : forallb (addable names) new = true) by (apply imports_addable; reflexivity).
  destruct (merge_before m new block) eqn:Em; cbn [fst snd].
  - split; [|assumption]. eapply ins_trans; [eassumption|]. eapply merge_before_ins; eauto.
  - split; [assumption|]. rewrite forallb_app, F, A. reflexivity.
Qed.
Lemma add_imports_ins : forall names needs ss, ins names ss (add_imports needs ss).
Proof.
  intros. unfold add_imports. destruct (split_top ss) as [[pre block] rest] eqn:E.
  apply split_top_eq in E. 
  set (f := fun acc m => add_module m (objs_for m needs) acc).
  assert (G : forall mods acc, ins names block (fst acc) /\ forallb (addable names) (snd acc) = true ->
              ins names block (fst (fold_left f mods acc)) /\ forallb (addable names) (snd (fold_left f mods acc)) = true).
  { induction mods as [|m ms IH]; intros acc Hacc; cbn; [assumption|]. apply IH. apply add_module_inv. assumption. }
  specialize (G (sort_dedup (map fst needs)) (block, [])).
  destruct (fold_left f (sort_dedup (map fst needs)) (block, [])) as [block' fresh].
  cbn [fst snd] in G. destruct G as [G1 G2]; [split; [apply ins_refl|reflexivity]|].
  subst ss. apply ins_app; [apply ins_refl|]. apply ins_app; [assumption|].
  apply ins_adds; [assumption|apply ins_refl].
Qed.

Lemma str_in_app : forall x a b, str_in x (a ++ b) = str_in x a || str_in x b.
Proof. intros. unfold str_in. apply existsb_app. Qed.
Lemma top_in_classes : forall n ss, str_in n (top_class_names ss) = true -> str_in n (classes_in_list ss) = true.
Proof.
  induction ss as [|s r IH]; intro H.
  - exact H.
  - change (top_class_names (s :: r))
      with ((match s with Class n _ _ _ => [n] | _ => [] end) ++ top_class_names r) in H.
    change (classes_in_list (s :: r)) with (classes_in s ++ classes_in_list r).
    rewrite str_in_app in H |- *. apply orb_true_iff in H as [H|H].
    + destruct s; try discriminate H. rewrite classes_in_Class, str_in_app, H, orb_true_r. reflexivity.
    + rewrite (IH H), orb_true_r. reflexivity.
Qed.
Lemma fresh_addable : forall simp stub src,
  forallb (addable (top_class_names src)) (fresh_classes simp stub src) = true.
Proof.
  intros. unfold fresh_classes. induction (stub_classes_list stub) as [|c r IH]; cbn; [reflexivity|].
  rewrite forallb_app, IH, andb_true_r. destruct c as [[[n d] b] body]. cbn.
  destruct (str_in n (classes_in_list src)) eqn:E; cbn; [reflexivity|].
  rewrite andb_true_r. apply negb_true_iff.
  destruct (str_in n (top_class_names src)) eqn:E'; [|reflexivity].
  apply top_in_classes in E'. congruence.
Qed.

(* top-level classes of the walked module are those of the source *)
Lemma walk_top_known : forall e ss vis path,
  Forall (class_known (top_class_names ss)) (walk_list e vis path ss).
Proof.
  intros e ss. 
  assert (G : forall names ss vis path, (forall n, str_in n (top_class_names ss) = true -> str_in n names = true) ->
                                   Forall (class_known names) (walk_list e vis path ss)).
  { intros names. induction ss0 as [|s r IH]; intros vis path Hn; cbn; constructor.
    - destruct s; try (rewrite ?walk_Block; cbn; exact I).
      rewrite walk_Class. cbn [class_known]. apply Hn. unfold top_class_names. cbn.
      unfold str_in. cbn. rewrite String.eqb_refl. reflexivity.
    - apply IH. intros n Hr. apply Hn.
      change (top_class_names (s :: r))
        with ((match s with Class n _ _ _ => [n] | _ => [] end) ++ top_class_names r).
      rewrite str_in_app, Hr. apply orb_true_r. }
  intros. apply G. auto.
Qed.

(* ---------------------------------------------------------------- the key lemma: the core of the result is the walked source *)
Lemma apply_core : forall ow stub src out,
  apply ow stub src = Some out ->
  core src out = walk_list (mk_env ow stub src) [] [] src.
Proof.
  intros ow stub src out A. unfold apply in A.
  destruct (in_fragment stub src); [|discriminate].
  set (e := mk_env ow stub src) in *. set (mid := walk_list e [] [] src) in *.
  unfold core. rewrite <- (walk_list_erase src e [] []). fold mid.
  apply align_ins; [|apply walk_top_known].
  destruct (_ || _) in A; inversion A; subst.
  - eapply ins_trans; [apply add_imports_ins|]. apply insert_at_ins. apply fresh_addable.
  - apply ins_refl.
Qed.

(* ---------------------------------------------------------------- T1: erase invariance *)
Theorem erase_invariant : forall ow stub src out,
  apply ow stub src = Some out -> erase src out = erase src src.
Proof.
  intros ow stub src out A. unfold erase. rewrite (apply_core _ _ _ _ A), walk_list_erase.
  f_equal. unfold core. symmetry. apply align_ins; [apply ins_refl|].
  clear. assert (G : forall names ss, (forall n, str_in n (top_class_names ss) = true -> str_in n names = true) ->
                              Forall (class_known names) ss).
  { intros names. induction ss as [|s r IH]; intro Hn; constructor.
    - destruct s; try exact I. cbn. apply Hn. unfold top_class_names, str_in. cbn. rewrite String.eqb_refl. reflexivity.
    - apply IH. intros n Hr. apply Hn.
      change (top_class_names (s :: r)) with ((match s with Class n _ _ _ => [n] | _ => [] end) ++ top_class_names r).
      rewrite str_in_app, Hr. apply orb_true_r. }
  apply G. auto.
Qed.

(* ---------------------------------------------------------------- generic: a header-wise fact lifts to the walk *)
Lemma forallb2_map_r : forall A (f : A -> A -> bool) (g : A -> A) l,
  (forall x, f x (g x) = true) -> forallb2 f l (map g l) = true.
Proof. intros. induction l; cbn; [reflexivity|]. now rewrite H, IHl. Qed.

Lemma zip_walk : forall (P : list string -> defhdr -> defhdr -> bool) e,
  (forall vis path h, P path h (annotate e vis path h) = true) ->
  forall s vis path, zip_defs P path s (walk e vis path s) = true.
Proof.
  intros P e HP. induction s using stmt_ind'; intros; try reflexivity.
  - cbn. apply HP.
  - rewrite walk_Class, zip_Class. revert vis.
    induction H as [|x r Hx Hr IH]; intro vis; cbn; [reflexivity|]. now rewrite Hx, IH.
  - rewrite walk_Block, zip_Block. revert vis.
    induction H as [|x r Hx Hr IH]; intro vis; cbn; [reflexivity|]. now rewrite Hx, IH.
Qed.
Lemma zip_walk_list : forall (P : list string -> defhdr -> defhdr -> bool) e,
  (forall vis path h, P path h (annotate e vis path h) = true) ->
  forall ss vis path, zip_list P path ss (walk_list e vis path ss) = true.
Proof.
  intros P e HP. induction ss as [|x r IH]; intros; cbn; [reflexivity|].
  now rewrite (zip_walk P e HP), IH.
Qed.

(* ---------------------------------------------------------------- T2: existing annotations are kept when not overwriting *)
Lemma keeps_refl : forall a, keeps a a = true.
Proof. intros [a|]; cbn; [|reflexivity]. unfold oanno_eqb. destruct (option_eq_dec _ _ _); congruence. Qed.
Lemma respects_annotate : forall e vis path h,
  e_ow e = false -> respects_hdr path h (annotate e vis path h) = true.
Proof.
  intros e vis path h How. unfold annotate, respects_hdr.
  destruct (matching e path h) as [sh|]; cbn [d_params d_ret].
  - apply andb_true_iff. split.
    + apply forallb2_map_r. intro p. unfold annotate_param.
      destruct (offered e sh p); [|apply keeps_refl].
      unfold takes. rewrite How. cbn. destruct (p_anno p) eqn:Ea; cbn; [|reflexivity].
      rewrite Ea. apply (keeps_refl (Some a0)).
    + unfold annotate_ret. destruct (offered_ret e sh); [|apply keeps_refl].
      unfold takes. rewrite How. cbn. destruct (d_ret h); [apply keeps_refl|reflexivity].
  - rewrite keeps_refl, andb_true_r. clear. induction (d_params h); cbn; [reflexivity|]. now rewrite keeps_refl.
Qed.
Theorem respects_existing : forall stub src out,
  apply false stub src = Some out -> respectsb src (core src out) = true.
Proof.
  intros stub src out A. rewrite (apply_core _ _ _ _ A). unfold respectsb.
  apply zip_walk_list. intros. apply respects_annotate. reflexivity.
Qed.

(* ---------------------------------------------------------------- T3: completeness outside the finding classes *)
Lemma atom_equiv_refl : forall simp x, atom_equiv simp x x = true.
Proof. intros. unfold atom_equiv. destruct (atom_eq_dec x x); congruence. Qed.
Lemma present_quote : forall simp vis gl a, present simp a (Some (quote vis gl a)) = true.
Proof.
  intros. unfold present. apply orb_true_iff.
  assert (R : forall b, forallb2 (atom_equiv simp) b b = true).
  { induction b; cbn; [reflexivity|]. now rewrite atom_equiv_refl. }
  assert (Q : forall b, anno_eqb b b = true) by (intro b; unfold anno_eqb; destruct (anno_eq_dec b b); congruence).
  unfold quote.
  destruct a as [|[[|x [|y p]]|t] [|a2 r]]; auto.
  destruct (str_in x gl && negb (str_in x vis)); [right; cbn; apply Q|left; apply R].
Qed.
Lemma resolve_param_name : forall simp p, p_name (resolve_param simp p) = p_name p.
Proof. intros. unfold resolve_param. destruct (p_kind p); reflexivity. Qed.
Lemma resolve_param_kind : forall simp p, p_kind (resolve_param simp p) = p_kind p.
Proof. intros. unfold resolve_param. destruct (p_kind p) eqn:E; cbn; congruence. Qed.
Lemma stub_param_anno_resolved : forall simp n k sps,
  stub_param_anno n k (map (resolve_param simp) sps) =
  match k with PosOrKw => option_map (resolve simp) (stub_param_anno n k sps) | _ => stub_param_anno n k sps end.
Proof.
  intros simp n k. induction sps as [|sp r IH]; cbn [map stub_param_anno].
  - destruct k; reflexivity.
  - rewrite IH, resolve_param_name, resolve_param_kind.
    destruct k; destruct (stub_param_anno n _ r); cbn [option_map]; try reflexivity;
      destruct (String.eqb (p_name sp) n); cbn [andb]; try reflexivity;
        unfold pkind_eqb;
        match goal with |- context [pkind_eq_dec ?a ?b] => destruct (pkind_eq_dec a b) as [E|E] end;
        try reflexivity; unfold resolve_param; rewrite E; reflexivity.
Qed.
Lemma anno_eqb_true : forall a b, anno_eqb a b = true -> a = b.
Proof. intros a b. unfold anno_eqb. destruct (anno_eq_dec a b); [auto|discriminate]. Qed.

Lemma complete_annotate : forall e vis path h,
  complete_hdr e (excl_known (e_simp e)) path h (annotate e vis path h) = true.
Proof.
  intros e vis path h. unfold complete_hdr, annotate.
  destruct (matching e path h) as [sh|]; [|reflexivity]. cbn [d_params d_ret].
  apply andb_true_iff. split.
  - apply forallb2_map_r. intro p. unfold complete_pos.
    destruct (raw_offer sh p) as [a|] eqn:Er; [|reflexivity].
    destruct (p_anno p) eqn:Ea; [reflexivity|].
    unfold excl_known, kf_star_param, raw_offer in *.
    destruct (star_kind (p_kind p)) eqn:Es; [reflexivity|]. cbn [orb].
    unfold annotate_param, offered. rewrite Es, stub_param_anno_resolved, Er, Ea.
    unfold kf_dotted_name.
    destruct (p_kind p) eqn:Ek; cbn [option_map]; try discriminate Es;
      unfold takes; cbn [p_anno]; rewrite ?orb_true_r.
    + apply present_quote.
    + destruct (anno_eqb (resolve (e_simp e) a) a) eqn:Eq; cbn [negb orb]; [|reflexivity].
      apply anno_eqb_true in Eq. rewrite Eq. apply present_quote.
    + apply present_quote.
  - unfold complete_pos. destruct (d_ret sh) as [a|] eqn:Er; [|reflexivity].
    destruct (d_ret h) eqn:Eh; [reflexivity|].
    unfold excl_known, kf_star_param, kf_dotted_name. cbn [orb].
    destruct (anno_eqb (resolve (e_simp e) a) a) eqn:Eq; cbn [negb]; [|reflexivity].
    apply anno_eqb_true in Eq. unfold annotate_ret, offered_ret. rewrite Er. cbn [option_map].
    unfold takes. rewrite orb_true_r, Eq. apply present_quote.
Qed.
Theorem complete_known : forall ow stub src out,
  apply ow stub src = Some out ->
  completeb (mk_env ow stub src) (excl_known (stub_symbols stub)) src (core src out) = true.
Proof.
  intros ow stub src out A. rewrite (apply_core _ _ _ _ A). unfold completeb.
  apply zip_walk_list. intros. apply (complete_annotate (mk_env ow stub src)).
Qed.

(* ---------------------------------------------------------------- T4 (partial): the annotation pass is idempotent *)
Lemma annotate_param_name : forall e vis sh p, p_name (annotate_param e vis sh p) = p_name p.
Proof. intros. unfold annotate_param. destruct (offered e sh p); [|reflexivity]. destruct (takes _ _); reflexivity. Qed.
Lemma annotate_param_kind : forall e vis sh p, p_kind (annotate_param e vis sh p) = p_kind p.
Proof. intros. unfold annotate_param. destruct (offered e sh p); [|reflexivity]. destruct (takes _ _); reflexivity. Qed.
Lemma names_of_kind_annotated : forall e vis sh k ps,
  names_of_kind k (map (annotate_param e vis sh) ps) = names_of_kind k ps.
Proof.
  intros. unfold names_of_kind. induction ps as [|p r IH]; cbn; [reflexivity|].
  rewrite annotate_param_kind. destruct (pkind_eqb (p_kind p) k); cbn; rewrite ?annotate_param_name, IH; reflexivity.
Qed.
Lemma has_kind_annotated : forall e vis sh k ps, has_kind k (map (annotate_param e vis sh) ps) = has_kind k ps.
Proof.
  intros. unfold has_kind. induction ps as [|p r IH]; cbn; [reflexivity|]. now rewrite annotate_param_kind, IH.
Qed.
Lemma key_eqb_annotated : forall e vis sh pa ps pb b,
  key_eqb pa (map (annotate_param e vis sh) ps) pb b = key_eqb pa ps pb b.
Proof. intros. unfold key_eqb. now rewrite !names_of_kind_annotated, !has_kind_annotated. Qed.
Lemma find_last_annotated : forall e vis sh path ps fs,
  find_last path (map (annotate_param e vis sh) ps) fs = find_last path ps fs.
Proof.
  intros. induction fs as [|[p h] r IH]; cbn; [reflexivity|]. now rewrite IH, key_eqb_annotated.
Qed.
Lemma matching_annotated : forall e vis path h, matching e path (annotate e vis path h) = matching e path h.
Proof.
  intros. unfold annotate. destruct (matching e path h) as [sh|] eqn:M; [|exact M].
  unfold matching in *. cbn [d_name d_params]. rewrite find_last_annotated.
  destruct (find_last _ _ _) as [sh'|]; [|discriminate].
  unfold names_match in *. rewrite !names_of_kind_annotated. exact M.
Qed.
Lemma offered_annotated : forall e vis sh sh' p, offered e sh' (annotate_param e vis sh p) = offered e sh' p.
Proof. intros. unfold offered. now rewrite annotate_param_kind, annotate_param_name. Qed.
Lemma annotate_param_idem : forall e vis sh p,
  annotate_param e vis sh (annotate_param e vis sh p) = annotate_param e vis sh p.
Proof.
  intros. unfold annotate_param at 1. rewrite offered_annotated.
  destruct (offered e sh p) as [a|] eqn:Eo; [|reflexivity].
  unfold annotate_param. rewrite Eo.
  destruct (takes e (p_anno p)) eqn:Et; cbn [p_anno p_name p_kind p_default].
  - unfold takes in *. destruct (e_ow e); cbn in *; reflexivity.
  - rewrite Et. reflexivity.
Qed.
Lemma annotate_idem : forall e vis path h,
  annotate e vis path (annotate e vis path h) = annotate e vis path h.
Proof.
  intros. unfold annotate at 1. rewrite matching_annotated.
  destruct (matching e path h) as [sh|] eqn:M; [|reflexivity].
  unfold annotate. rewrite M.
  cbn [d_name d_async d_decos d_params d_ret]. f_equal.
  - rewrite map_map. apply map_ext. intro. apply annotate_param_idem.
  - unfold annotate_ret. destruct (offered_ret e sh); [|reflexivity].
    destruct (takes e (d_ret h)) eqn:Et.
    + unfold takes in *. destruct (e_ow e); reflexivity.
    + rewrite Et. reflexivity.
Qed.
Lemma walk_idem : forall s e vis path, walk e vis path (walk e vis path s) = walk e vis path s.
Proof.
  induction s using stmt_ind'; intros; try reflexivity.
  - cbn. now rewrite annotate_idem.
  - rewrite !walk_Class. f_equal. revert vis.
    induction H as [|x r Hx Hr IH]; intro vis; cbn; [reflexivity|]. now rewrite Hx, walk_classes_in, IH.
  - rewrite !walk_Block. f_equal. revert vis.
    induction H as [|x r Hx Hr IH]; intro vis; cbn; [reflexivity|]. now rewrite Hx, walk_classes_in, IH.
Qed.
Theorem walk_list_idem : forall ss e vis path,
  walk_list e vis path (walk_list e vis path ss) = walk_list e vis path ss.
Proof. induction ss as [|x r IH]; intros; cbn; [reflexivity|]. now rewrite walk_idem, walk_classes_in, IH. Qed.

(* when nothing has to be inserted, the whole of apply is the annotation pass *)
Lemma apply_untouched_or_inserted : forall ow stub src out,
  apply ow stub src = Some out ->
  ins (top_class_names src) (walk_list (mk_env ow stub src) [] [] src) out.
Proof.
  intros ow stub src out A. unfold apply in A. destruct (in_fragment stub src); [|discriminate].
  destruct (_ || _) in A; inversion A; subst.
  - eapply ins_trans; [apply add_imports_ins|]. apply insert_at_ins. apply fresh_addable.
  - apply ins_refl.
Qed.
