"""C17 helper, run as a subprocess (`python -m harness.filter_enum <args.json> <out.json>`), cwd = a scratch dir.

Enumerates code objects (library sources compiled without being executed, modules this interpreter has already
imported incl. frozen ones, generated user modules reached directly / relatively / through symlinks, synthetic
names), asks the real `monkeytype.config.default_code_filter` about each under each MONKEYTYPE_TRACE_MODULES value
(lru_cache cleared in between), and computes the resolved path with an oracle that does not use pathlib
(os.path.realpath + str.split).  Also drives the real CallTraceStoreLogger with a recording store.

Nothing is imported that is not already imported by the interpreter / MonkeyType itself: library code objects
come from compile() of the source files."""
import errno
import json
import os
import random
import sys
import sysconfig
import types
import warnings


def code_tree(code, out):
    """code and everything reachable through co_consts"""
    stack = [code]
    while stack:
        c = stack.pop()
        out.append(c)
        for k in c.co_consts:
            if isinstance(k, types.CodeType):
                stack.append(k)


def split_abs(p):
    """'/a/b' -> ['/', 'a', 'b']  (own splitting, not pathlib's)"""
    if not p.startswith("/"):
        return None
    body = p.lstrip("/")
    anchor = p[:len(p) - len(body)]
    if anchor != "/":
        anchor = "/" if len(anchor) != 2 else "//"
    return [anchor] + [c for c in body.split("/") if c != ""]


def oracle_resolve(raw):
    """What Path(raw).resolve() must denote: symlink-free absolute path as components, or None when it raises
    (pathlib turns a symlink loop into RuntimeError)."""
    try:
        rp = os.path.realpath(raw)
    except (OSError, ValueError):
        return "error"
    try:
        os.stat(rp)
    except OSError as e:
        if e.errno == errno.ELOOP:
            return None
    except ValueError:
        pass
    return split_abs(rp)


def oracle_roots(lib_paths):
    """The library roots the specification speaks about: the stdlib / purelib / platlib directories of this interpreter with
    symlinks resolved by os.path.realpath - in LIB_PATHS' tuple order (the order matters for the allow-list strip), but NOT
    taken from LIB_PATHS' own notion of 'resolved'.  Fails closed if LIB_PATHS names other directories than sysconfig does."""
    want = {os.path.realpath(p) for p in (sysconfig.get_path(n) for n in ("stdlib", "purelib", "platlib")) if p}
    got = [os.path.realpath(p) for p in lib_paths]
    if set(got) != want:
        return [["?LIB_PATHS-differ-from-sysconfig"]]
    return [split_abs(p) for p in got]


def run_filter_light(args):
    """The default filter judged in a different ENVIRONMENT: this interpreter may have been started through a symlinked
    prefix and/or with the current directory at the root of the prefix (an ancestor of site-packages).  Nothing is written
    to the current directory.  A seeded sample of library files under the names sysconfig reports, plus the names with
    symlinks resolved, under the unset allow-list and two allow-lists."""
    from monkeytype import config as mtconfig
    from monkeytype.config import default_code_filter
    rnd = random.Random(args["seed"] + 5)
    warnings.simplefilter("ignore")
    roots_unres, files = library_files()
    lib_paths = [str(p) for p in mtconfig.LIB_PATHS]
    base = compile("def f(x):\n    return x\n", "x.py", "exec", dont_inherit=True)
    names = rnd.sample(files, min(len(files), args.get("n_light", 150)))
    by_root = {}
    for f in files:
        for r in roots_unres:
            if f.startswith(r + os.sep):
                by_root.setdefault(r, f)
    names += list(by_root.values())
    names += [os.path.realpath(f) for f in names[:40]]
    names += [os.path.join(os.getcwd(), "not_a_library_file.py"), "/nonexistent_project/app.py", "relative_app.py", "<string>"]
    cases = []
    n_eval = 0
    for env in (None, "json,email", "site-packages"):
        if env is None:
            os.environ.pop("MONKEYTYPE_TRACE_MODULES", None)
        else:
            os.environ["MONKEYTYPE_TRACE_MODULES"] = env
        default_code_filter.cache_clear()
        for nm in names:
            c = base.replace(co_filename=nm)
            try:
                a = default_code_filter(c)
                a = a if isinstance(a, bool) else "non-bool:" + repr(a)
            except Exception as e:
                a = "raised:" + repr(e)
            n_eval += 1
            res = "synthetic-not-resolved" if (not nm or nm[0] == "<") else oracle_resolve(nm)
            cases.append({"raw": nm, "resolved": res, "env": env, "names": None if env is None else env.split(","), "impl": a,
                          "n_code": 1, "kind": "environment",
                          "note": f"interpreter {sys.executable} (sys.prefix {sys.prefix}), current directory {os.getcwd()}"})
    os.environ.pop("MONKEYTYPE_TRACE_MODULES", None)
    return {"roots": oracle_roots(lib_paths), "roots_str": lib_paths, "cases": cases, "executable": sys.executable,
            "prefix": sys.prefix, "cwd": os.getcwd(), "stats": {"filter_calls": n_eval}}


def library_files():
    roots = sorted({sysconfig.get_path(n) for n in ["stdlib", "purelib", "platlib"]} - {None})
    files = []
    for r in roots:
        for dp, dn, fn in os.walk(r):
            dn.sort()
            for f in sorted(fn):
                if f.endswith(".py"):
                    files.append(os.path.join(dp, f))
    return roots, sorted(set(files))


USER_SRC = '''
import json
def top(x, *a, **k):
    def inner(y):
        return [z for z in (lambda q: q)(y)]
    return inner(x)
class K:
    def m(self): return 1
    @staticmethod
    def s(): return (i for i in range(3))
    class Nested:
        async def co(self): return 2
'''


def make_user_tree(work, stdlib_root):
    """generated user modules; returns list of co_filename strings to compile USER_SRC under"""
    u = os.path.join(work, "user")
    names = []
    layout = ["pkg_a/__init__.py", "pkg_a/mod1.py", "pkg_a/sub/__init__.py", "pkg_a/sub/deep.py", "json/decoder.py",
              "json/__init__.py", "top_mod.py", "site-packages/inside.py", "python3.12/x.py", "lib/lib.py",
              "dotted.name/mod.v2.py", "sp ace/möd.py", "noext", ".hidden.py", "pkg_a/trailing.", "pkg_a/..py"]
    for rel in layout:
        p = os.path.join(u, rel)
        os.makedirs(os.path.dirname(p), exist_ok=True)
        with open(p, "w") as f:
            f.write(USER_SRC)
        names.append(p)                                   # absolute
        names.append(os.path.join("user", rel))           # relative to cwd
        names.append(os.path.join(u, "pkg_a", "..", rel))  # with ..
    links = os.path.join(work, "links")
    os.makedirs(links)
    os.symlink(os.path.join(u, "pkg_a"), os.path.join(links, "lnk_pkg"))                   # dir symlink
    os.symlink(os.path.join(u, "top_mod.py"), os.path.join(links, "lnk_mod.py"))           # file symlink
    os.symlink(os.path.join("..", "user", "json"), os.path.join(links, "rel_json"))        # relative symlink
    os.symlink(stdlib_root, os.path.join(links, "stdlib"))                                 # into the stdlib
    os.symlink(os.path.join(stdlib_root, "json"), os.path.join(links, "std_json"))
    os.symlink(os.path.join(links, "lnk_pkg"), os.path.join(links, "lnk2"))                # chain
    os.symlink(os.path.join(links, "dangling_target"), os.path.join(links, "dangling"))
    os.symlink("loop_b", os.path.join(links, "loop_a"))
    os.symlink("loop_a", os.path.join(links, "loop_b"))
    names += [os.path.join(links, "lnk_pkg", "mod1.py"), os.path.join(links, "lnk_pkg", "sub", "deep.py"),
              os.path.join(links, "lnk_mod.py"), os.path.join(links, "rel_json", "decoder.py"),
              os.path.join(links, "stdlib", "json", "decoder.py"), os.path.join(links, "stdlib", "os.py"),
              os.path.join(links, "std_json", "encoder.py"), os.path.join(links, "std_json"),
              os.path.join(links, "lnk2", "mod1.py"), os.path.join("links", "lnk2", "sub", "..", "mod1.py"),
              os.path.join(links, "dangling", "x.py"), os.path.join(links, "dangling"),
              os.path.join(links, "loop_a", "x.py"), os.path.join(links, "loop_a"),
              os.path.join("links", "loop_b", "y.py")]
    return names


def synthetic_names(roots_unresolved, roots_resolved):
    out = ["", "<string>", "<stdin>", "<frozen importlib._bootstrap>", "<frozen os>", "<", "<>", "<doctest x[0]>",
           "<ipython-input-1-abc>", "<string>/x.py", " <string>", "a<b>.py", "x<", "/", ".", "..", "./", "x.py",
           "./x.py", "//double/slash.py", "///triple/slash.py", "/nonexistent/dir/mod.py", "/tmp", "/usr/lib/python3/x.py",
           "~/.config/x.py", "/é/中.py", "a,b.py", "/a,b/c.py", "trailing/", "/nonexistent/trailing/"]
    for r in list(roots_unresolved) + list(roots_resolved):
        out += [r, r + "/", r + "/nonexistent_zz.py", r + "/nonexistent_pkg/sub/m.py", r + "x/y.py", r + "/../escape.py",
                os.path.dirname(r), os.path.dirname(r) + "/sibling.py", r + "/json/../json/decoder.py"]
    return out


def imported_module_code():
    """code objects of modules the interpreter has imported by now (real import-system co_filenames, frozen names)"""
    out = []
    for name, mod in sorted(sys.modules.items()):
        if mod is None:
            continue
        try:
            items = list(vars(mod).values())
        except Exception:
            continue
        for v in items:
            fn = v
            if isinstance(v, (staticmethod, classmethod)):
                fn = v.__func__
            if isinstance(fn, types.FunctionType):
                code_tree(fn.__code__, out)
            elif isinstance(v, type) and getattr(v, "__module__", None) == name:
                try:
                    members = list(vars(v).values())
                except Exception:
                    continue
                for m in members:
                    if isinstance(m, (staticmethod, classmethod)):
                        m = m.__func__
                    if isinstance(m, types.FunctionType):
                        code_tree(m.__code__, out)
                    elif isinstance(m, property) and isinstance(m.fget, types.FunctionType):
                        code_tree(m.fget.__code__, out)
    return out


def pick_envs(rnd, n_env, files, user_names):
    """MONKEYTYPE_TRACE_MODULES values: lists of 0..3 names.  The empty string is the 0-name list as far as a user
    can write one (split gives ['']); unset is handled separately."""
    tops = set()
    stems = set()
    for f in rnd.sample(files, min(len(files), 300)):
        parts = f.split("/")
        stems.add(os.path.splitext(parts[-1])[0])
        for c in parts[-4:-1]:
            tops.add(c)
    pool = sorted(tops)[:200] + sorted(stems)[:200]
    special = ["json", "decoder", "pkg_a", "sub", "deep", "mod1", "top_mod", "site-packages", "python3.12", "lib", "/",
               "", "decoder.py", "__init__", "__init__.py", "user", "links", "lnk_pkg", "stdlib", "std_json", "os",
               "dotted.name", "mod.v2", "mod", "noext", ".hidden", "..py", ".", "trailing.", "trailing", "libcst",
               "monkeytype", "email", "mime", "pkg_a.mod1", "json.decoder", "verif", "_work", " json", "JSON", "möd"]
    fixed = ["", "pkg_a,decoder", "decoder.py,__init__,/", "json", "site-packages,lib,python3.12", ",", "json,,os", "mod1"]
    out = fixed[:min(n_env, len(fixed))]
    tries = 0
    while len(out) < n_env and tries < 1000:
        tries += 1
        k = rnd.choice([1, 2, 2, 3, 3])
        e = ",".join(rnd.choice(special) if rnd.random() < 0.6 else rnd.choice(pool) for _ in range(k))
        if e not in out:
            out.append(e)
    return out


def run_filter(args):
    from monkeytype import config as mtconfig
    from monkeytype.config import default_code_filter
    rnd = random.Random(args["seed"])
    work = os.getcwd()
    warnings.simplefilter("ignore")
    roots_unres, files = library_files()
    lib_paths = [str(p) for p in mtconfig.LIB_PATHS]
    stdlib_root = sysconfig.get_path("stdlib")

    # ---- code objects ----
    groups = {}          # co_filename -> [code objects]
    kinds = {}           # co_filename -> kind
    stats = {"lib_files_total": len(files), "lib_files_compiled": 0, "lib_files_uncompilable": 0}

    def add(code_list, kind):
        for c in code_list:
            groups.setdefault(c.co_filename, []).append(c)
            kinds.setdefault(c.co_filename, kind)

    sample = args.get("sample_code_objects")
    order = list(files)
    rnd.shuffle(order)
    n_lib = 0
    for f in order:
        if sample is not None and n_lib >= sample:
            break
        try:
            with open(f, "rb") as fh:
                src = fh.read()
            code = compile(src, f, "exec", dont_inherit=True)
        except Exception:
            stats["lib_files_uncompilable"] += 1
            continue
        stats["lib_files_compiled"] += 1
        tree = []
        code_tree(code, tree)
        n_lib += len(tree)
        add(tree, "library")
    stats["library_code_objects"] = n_lib
    imported = imported_module_code()
    stats["imported_code_objects"] = len(imported)
    add(imported, "imported")
    user_names = make_user_tree(work, stdlib_root)
    base = compile(USER_SRC, "x.py", "exec", dont_inherit=True)
    n_user = 0
    for nm in user_names:
        try:
            code = compile(USER_SRC, nm, "exec", dont_inherit=True)
        except Exception:
            continue
        tree = []
        code_tree(code, tree)
        n_user += len(tree)
        add(tree, "user")
    # really imported through a symlinked sys.path entry and directly
    sys.path.insert(0, os.path.join(work, "links"))
    sys.path.insert(0, os.path.join(work, "user"))
    try:
        import lnk_mod, top_mod   # noqa
        import pkg_a.sub.deep     # noqa
        for m in (lnk_mod, top_mod, pkg_a.sub.deep):
            tree = []
            for v in vars(m).values():
                if isinstance(v, types.FunctionType):
                    code_tree(v.__code__, tree)
            n_user += len(tree)
            add(tree, "user-imported")
    finally:
        sys.path[:2] = []
    stats["user_code_objects"] = n_user
    n_syn = 0
    for nm in synthetic_names(roots_unres, lib_paths):
        try:
            c = base.replace(co_filename=nm)
        except Exception:
            continue
        n_syn += 1
        add([c], "synthetic")
    stats["synthetic_code_objects"] = n_syn

    # ---- the real filter under every allow-list ----
    envs = [None] + pick_envs(rnd, args["n_env"], files, user_names)
    resolved = {}
    for raw in groups:
        resolved[raw] = "synthetic-not-resolved" if (not raw or raw[0] == "<") else oracle_resolve(raw)
    cases = []
    n_eval = 0
    inconsistent = 0
    for env in envs:
        if env is None:
            os.environ.pop("MONKEYTYPE_TRACE_MODULES", None)
        else:
            os.environ["MONKEYTYPE_TRACE_MODULES"] = env
        default_code_filter.cache_clear()
        names = None if env is None else env.split(",")
        cap = args.get("per_file_cap") if env is not None else None
        for raw, codes in groups.items():
            answers = {}
            for c in (codes if cap is None or len(codes) <= cap else [codes[0], codes[-1]] + rnd.sample(codes, cap - 2)):
                try:
                    a = default_code_filter(c)
                    a = a if isinstance(a, bool) else "non-bool:" + repr(a)
                except RuntimeError as e:
                    a = None if "Symlink loop" in str(e) else "raised:" + repr(e)
                except Exception as e:
                    a = "raised:" + repr(e)
                n_eval += 1
                answers[a] = answers.get(a, 0) + 1
            if len(answers) > 1:
                inconsistent += 1
            for a, cnt in answers.items():
                cases.append({"raw": raw, "resolved": resolved[raw], "env": env, "names": names, "impl": a,
                              "n_code": cnt, "kind": kinds[raw]})
    # ---- identical code in two files (code objects compare equal regardless of co_filename) ----
    twin_src = "def same(x):\n    return x\n"
    twin_user = os.path.join(work, "user", "twin.py")
    with open(twin_user, "w") as fh:
        fh.write(twin_src)
    twin_lib = os.path.join(stdlib_root, "json", "decoder.py")
    n_twin = 0
    for env in (None, "twin", "decoder,nothing"):
        for first, second in ((twin_lib, twin_user), (twin_user, twin_lib)):
            if env is None:
                os.environ.pop("MONKEYTYPE_TRACE_MODULES", None)
            else:
                os.environ["MONKEYTYPE_TRACE_MODULES"] = env
            default_code_filter.cache_clear()
            for pos, nm in enumerate((first, second)):
                c = [k for k in compile(twin_src, nm, "exec", dont_inherit=True).co_consts if isinstance(k, types.CodeType)][0]
                try:
                    a = default_code_filter(c)
                    a = a if isinstance(a, bool) else "non-bool:" + repr(a)
                except Exception as e:
                    a = "raised:" + repr(e)
                n_eval += 1
                n_twin += 1
                cases.append({"raw": nm, "resolved": oracle_resolve(nm), "env": env, "names": None if env is None else env.split(","),
                              "impl": a, "n_code": 1, "kind": "twin", "primed_by": first if pos == 1 else None,
                              "note": ("first call after cache_clear()" if pos == 0 else
                                       f"called right after the filter was asked about the identical function `same` "
                                       f"compiled from the same source under {first}")})
    stats["twin_cases"] = n_twin

    # ---- one process, the allow-list changing between several non-empty values (and back, and unset) with NO cache
    #      clearing in between; the same code objects are judged under each value in force ----
    os.environ.pop("MONKEYTYPE_TRACE_MODULES", None)
    default_code_filter.cache_clear()
    hist_files = [os.path.join(work, "user", rel) for rel in
                  ("pkg_a/mod1.py", "pkg_a/sub/deep.py", "json/decoder.py", "top_mod.py", "lib/lib.py", "site-packages/inside.py")]
    hist_files += [os.path.join(work, "links", "lnk_pkg", "mod1.py"), os.path.join(work, "links", "std_json", "encoder.py"),
                   os.path.join(stdlib_root, "json", "decoder.py"), os.path.join(stdlib_root, "json", "__init__.py"),
                   os.path.join(stdlib_root, "os.py"), os.path.join(stdlib_root, "email", "mime", "text.py"),
                   "<string>", "user/pkg_a/mod1.py"]
    lib_sample = [raw for raw in groups if kinds[raw] == "library"]
    hist_files += rnd.sample(lib_sample, min(len(lib_sample), args.get("n_hist_lib", 40)))
    hist_codes = []
    for nm in hist_files:
        if nm in groups:
            hist_codes.append((nm, groups[nm][0]))
        else:
            hist_codes.append((nm, base.replace(co_filename=nm)))
    pool = ["pkg_a", "decoder,json", "mod1", "top_mod,lib", "json", "os,text", "deep,sub", "site-packages", "email", "", "encoder",
            "pkg_a,mod1,decoder"]
    seq = ["pkg_a", "decoder,json", "pkg_a", None, "mod1", "decoder,json", "", "json", None, "os,text", "pkg_a"]
    while len(seq) < args.get("n_hist_env", 14):
        seq.append(rnd.choice(pool + [None]))
    n_hist = 0
    so_far = []
    for step, env in enumerate(seq):
        if env is None:
            os.environ.pop("MONKEYTYPE_TRACE_MODULES", None)
        else:
            os.environ["MONKEYTYPE_TRACE_MODULES"] = env
        names = None if env is None else env.split(",")
        for nm, c in hist_codes:
            try:
                a = default_code_filter(c)
                a = a if isinstance(a, bool) else "non-bool:" + repr(a)
            except RuntimeError as e:
                a = None if "Symlink loop" in str(e) else "raised:" + repr(e)
            except Exception as e:
                a = "raised:" + repr(e)
            n_eval += 1
            n_hist += 1
            res = "synthetic-not-resolved" if (not nm or nm[0] == "<") else (resolved[nm] if nm in resolved else oracle_resolve(nm))
            cases.append({"raw": nm, "resolved": res, "env": env, "names": names, "impl": a, "n_code": 1, "kind": "env-history",
                          "env_history": list(so_far) + [env],
                          "note": f"step {step} of one process in which MONKEYTYPE_TRACE_MODULES took the values {so_far + [env]!r} in turn "
                                  f"(no cache clearing); every file of the set was judged at every step"})
        so_far.append(env)
    stats["env_history_cases"] = n_hist
    stats["env_history"] = seq
    os.environ.pop("MONKEYTYPE_TRACE_MODULES", None)
    default_code_filter.cache_clear()
    stats["filter_calls"] = n_eval
    stats["distinct_filenames"] = len(groups)
    stats["files_with_inconsistent_answers"] = inconsistent
    return {"roots": oracle_roots(lib_paths), "roots_str": lib_paths, "envs": envs, "cases": cases,
            "stats": stats, "cwd": work}


# ------------------------------------------------------------------------------------------------------
# CallTraceStoreLogger against a recording store
# ------------------------------------------------------------------------------------------------------
MODULES = ["__main__", "__main__", "pkg.mod", "pkg", "__main__x", "x__main__", "__main__.sub", "__mp_main__", "", "main",
           "__MAIN__", None, " __main__", "builtins"]


def run_logger(args):
    from monkeytype.db.base import CallTraceStore, CallTraceStoreLogger
    from monkeytype.tracing import CallTrace

    class Rec(CallTraceStore):
        def __init__(self):
            self.batches = []

        def add(self, traces):
            self.batches.append(list(traces))

        def filter(self, module, qualname_prefix=None, limit=2000):
            return []

    rnd = random.Random(args["seed"] + 1)
    out = []
    for ci in range(args["n_logger"] + 1):
        store = Rec()
        lg = CallTraceStoreLogger(store)
        ops = []
        ids = {}
        # the last case is one LONG run: thousands of traces logged before the only flush
        for j in range(rnd.randrange(0, 14) if ci < args["n_logger"] else 6000):
            if ci < args["n_logger"] and rnd.random() < 0.22:
                lg.flush()
                ops.append(["flush"])
            else:
                mod = rnd.choice(MODULES)
                # plain, method-like and nested-function qualified names (a function of __main__ is any of them)
                qn = rnd.choice([f"f{ci}_{j}", f"f{ci}_{j}", f"K{ci}.m{j}", f"outer{ci}.<locals>.inner{j}", f"K{ci}.Inner.sm{j}"])

                def fn():
                    pass
                fn.__module__ = mod
                fn.__qualname__ = qn
                t = CallTrace(fn, {}, None)
                ids[id(t)] = (mod, qn)
                try:
                    lg.log(t)
                except Exception:          # a logger that raises has not recorded the trace: judged like a lost trace
                    pass
                ops.append(["log", mod, qn])
        added = [[list(ids.get(id(t), ("?unknown", "?"))) for t in b] for b in store.batches]
        buf = [list(ids.get(id(t), ("?unknown", "?"))) for t in lg.traces]
        out.append({"ops": ops, "added": added, "buf": buf})
    return out


def main():
    args = json.load(open(sys.argv[1]))
    if args.get("light"):
        res = {"filter": run_filter_light(args)}
    else:
        res = {"filter": run_filter(args), "logger": run_logger(args)}
    with open(sys.argv[2], "w") as f:
        json.dump(res, f)


if __name__ == "__main__":
    main()
