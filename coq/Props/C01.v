(* C01 — end-to-end soundness: the annotation emitted for a traced position admits every value observed there.
   Pipeline (a position = the list of values observed at one argument / return / yield slot):
       per call   get_type k v                       Model/Infer.v       (soundness: Proofs/GetTypeSound.v)
       store      encode, JSON text, decode          Model/Encode.v      (round trip up to corrb: Props/C08.v)
       merge      shrink_types over ALL decoded types Model/Infer.v      (Proofs/InferSound.v)
       rewrite    the configured rewriter chain       Model/Rewrite.v    (never narrows: Props/C07.v)
       render     annotation text, evaluated in the stub's namespace  Model/Render.v  (Props/C11.v, partial)
   Readings: an inferred type is read TIGHTLY up to and including the merge (Any only stands for "no element was
   seen": List[Any] admits only the empty list); the emitted annotation is read as an annotation (Any admits all).
   Proved for ALL inputs: everything up to and including the rewriter chain; the rendering step for annotations
   without TypedDict at token level, and for any annotation relative to C11's per-annotation denotation property.
   Stated, not proved: C01_full (text level with generated TypedDict classes) — see the comment there. *)
From MT Require Import Types Infer Rewrite Hier TypesFacts GetTypeSound RewriteMono Encode EncodeRoundtrip
                       EncodeExamples Render RenderTok PipelineCorr Pipeline PipelineInferable PipelineRender.

(* ---- the correspondence relation of the store round trip (union members as multisets, TypedDict fields as
        finite maps) preserves membership, under either reading of Any, for every subclass test ---- *)
Theorem member_corrb :
  forall (anyb : bool) (sub : cls -> cls -> bool) (a b : ty) (v : value),
    wf_ty a -> wf_ty b -> corrb a b = true -> member anyb sub v a = true -> member anyb sub v b = true.
Proof. exact PipelineCorr.member_corrb. Qed.
Print Assumptions member_corrb.

(* wf_ty b is implied (so the premise on b above is redundant); wf_ty a is needed (ex_member_corrb_needs_wf) *)
Theorem corrb_preserves_wf : forall a b, wf_ty a -> corrb a b = true -> wf_ty b.
Proof. exact corrb_wf. Qed.
Print Assumptions corrb_preserves_wf.

Theorem member_corrb_left_wf :
  forall (anyb : bool) (sub : cls -> cls -> bool) (a b : ty) (v : value),
    wf_ty a -> corrb a b = true -> member anyb sub v a = true -> member anyb sub v b = true.
Proof. exact member_corrb_wf. Qed.
Print Assumptions member_corrb_left_wf.

Example ex_member_corrb_needs_wf :
  let a := TTypedDict [("a"%string, TCls cInt); ("a"%string, TCls cInt)] [] in
  let b := TTypedDict [("a"%string, TCls cInt); ("b"%string, TCls cStr)] [] in
  let v := VDict [(VStr "a", VAtom cInt 1)] in
  corrb a b = true /\ member false N.eqb v a = true /\ member false N.eqb v b = false /\ ~ wf_ty a.
Proof. exact PipelineCorr.ex_member_corrb_needs_wf. Qed.

(* ---- the pipeline up to the emitted annotation TYPE ----
   obs: the values observed at the position; stored: the types the merge sees.  Every observed value's inferred
   type reached the merge, possibly as a corrb-equal decoded copy; stored may hold more types, in any order and
   multiplicity.  chain_ok: RemoveEmptyContainers never runs after a RewriteLargeUnion. *)
Theorem pipeline_sound :
  forall h bt k rs (obs : list value) (stored : list ty) T v,
    wf_hier h = true -> bt_ok h bt = true -> chain_ok rs = true ->
    forallb wf_valueb obs = true ->
    (forall x, In x obs -> exists t t', get_type k x = Some t /\ In t' stored /\ corrb t t' = true) ->
    Forall wf_ty stored ->
    shrink_top k stored = Some T -> In v obs ->
    member true (subclass h) v (rw_chain h bt rs T) = true.
Proof. exact Pipeline.pipeline_sound. Qed.
Print Assumptions pipeline_sound.

(* before the rewriters: the merged type admits every observed value under the TIGHT reading, for every
   reflexive subclass test, and is well formed *)
Theorem merge_sound :
  forall (sub : cls -> cls -> bool), (forall c, sub c c = true) ->
  forall k (obs : list value) (stored : list ty) T v,
    forallb wf_valueb obs = true ->
    (forall x, In x obs -> exists t t', get_type k x = Some t /\ In t' stored /\ corrb t t' = true) ->
    Forall wf_ty stored ->
    shrink_top k stored = Some T -> In v obs ->
    member false sub v T = true /\ wf_ty T.
Proof. exact Pipeline.merge_sound. Qed.
Print Assumptions merge_sound.

Theorem pipeline_wf :
  forall h bt k rs (stored : list ty) T,
    Forall wf_ty stored -> shrink_top k stored = Some T -> wf_ty (rw_chain h bt rs T).
Proof. exact Pipeline.pipeline_wf. Qed.
Print Assumptions pipeline_wf.

(* the chain monkeytype/typing.py declares as DEFAULT_REWRITER today (Gen/Constants.v, regenerated on every run) *)
Theorem pipeline_sound_default :
  forall h bt k rs (obs : list value) (stored : list ty) T v,
    wf_hier h = true -> bt_ok h bt = true -> default_chain = Some rs ->
    forallb wf_valueb obs = true ->
    (forall x, In x obs -> exists t t', get_type k x = Some t /\ In t' stored /\ corrb t t' = true) ->
    Forall wf_ty stored ->
    shrink_top k stored = Some T -> In v obs ->
    member true (subclass h) v (rw_chain h bt rs T) = true.
Proof. exact Pipeline.pipeline_sound_default. Qed.
Print Assumptions pipeline_sound_default.

(* no rewriter: no premise on the class tables; the result holds under both readings *)
Theorem pipeline_sound_no_rewriter :
  forall h bt k (obs : list value) (stored : list ty) T v,
    forallb wf_valueb obs = true ->
    (forall x, In x obs -> exists t t', get_type k x = Some t /\ In t' stored /\ corrb t t' = true) ->
    Forall wf_ty stored ->
    shrink_top k stored = Some T -> In v obs ->
    rw_chain h bt [] T = T
    /\ member false (subclass h) v (rw_chain h bt [] T) = true
    /\ member true (subclass h) v (rw_chain h bt [] T) = true.
Proof. exact Pipeline.pipeline_sound_no_rewriter. Qed.
Print Assumptions pipeline_sound_no_rewriter.

(* ---- the store hypothesis discharged from C08's round trip ----
   cname / site / env / hidden, typing_ok and importable are C08's (external behaviour of importlib and of the
   classes' __module__/__qualname__, universally quantified). *)

(* every type get_type produces is in C08's domain: no Tuple[T, ...], no forward reference, every Union in
   typing's normal form, TypedDict keys distinct *)
Theorem get_type_inferable :
  forall k v t, wf_valueb v = true -> get_type k v = Some t -> inferable t.
Proof. exact PipelineInferable.get_type_inferable. Qed.
Print Assumptions get_type_inferable.

(* ts: the per-value inferred types; stored: exactly the decodings of their encodings, in any order and
   multiplicity.  The only premise left about the store is that the classes of the inferred types are importable. *)
Theorem pipeline_sound_store :
  forall (cname : cls -> string * string) (site : string) (env : string -> string -> lookup)
         (hidden : string -> option cls)
         h bt k rs (obs : list value) (ts stored : list ty) T v,
    wf_hier h = true -> bt_ok h bt = true -> chain_ok rs = true ->
    typing_ok env ->
    forallb wf_valueb obs = true ->
    mapM (get_type k) obs = Some ts ->
    Forall (fun t => Forall (importable cname env hidden) (classes t)) ts ->
    (forall t', In t' stored <->
                exists t, In t ts /\ exists j, type_to_json cname site t = Ok j /\ type_from_json env hidden j = Ok t') ->
    shrink_top k stored = Some T -> In v obs ->
    member true (subclass h) v (rw_chain h bt rs T) = true.
Proof. exact pipeline_sound_store_inferred. Qed.
Print Assumptions pipeline_sound_store.

(* the same with the round trip as a function (store_rt = decode after encode), which is total here *)
Theorem pipeline_sound_store_fn :
  forall (cname : cls -> string * string) (site : string) (env : string -> string -> lookup)
         (hidden : string -> option cls)
         h bt k rs (obs : list value) (ts ds stored : list ty) T v,
    wf_hier h = true -> bt_ok h bt = true -> chain_ok rs = true ->
    typing_ok env ->
    forallb wf_valueb obs = true ->
    mapM (get_type k) obs = Some ts ->
    Forall (fun t => Forall (importable cname env hidden) (classes t)) ts ->
    mapM (store_rt cname site env hidden) ts = Some ds ->
    (forall t', In t' stored <-> In t' ds) ->
    shrink_top k stored = Some T -> In v obs ->
    member true (subclass h) v (rw_chain h bt rs T) = true.
Proof. exact pipeline_sound_store_fn_inferred. Qed.
Print Assumptions pipeline_sound_store_fn.

Theorem store_roundtrip_total :
  forall (cname : cls -> string * string) (site : string) (env : string -> string -> lookup)
         (hidden : string -> option cls) k obs ts,
    typing_ok env -> forallb wf_valueb obs = true -> mapM (get_type k) obs = Some ts ->
    Forall (fun t => Forall (importable cname env hidden) (classes t)) ts ->
    exists ds, mapM (store_rt cname site env hidden) ts = Some ds.
Proof. exact store_rt_total. Qed.
Print Assumptions store_roundtrip_total.

(* ---- the rendering step ---- *)

(* what evaluating a rendered annotation yields (evt: unions rebuilt by typing's Union, None last under Optional)
   admits everything the annotation type admits — all TypedDict-free types, either reading *)
Theorem evaluated_annotation_admits :
  forall (anyb : bool) (sub : cls -> cls -> bool) t v,
    ok t = true -> member anyb sub v t = true -> member anyb sub v (evt t) = true.
Proof. exact member_evt. Qed.
Print Assumptions evaluated_annotation_admits.

(* pipeline + C11's token-level theorem: when the emitted annotation has no TypedDict (ok; with
   max_typed_dict_size = 0 none has, Props/C06.v k0_no_typeddict), then in every namespace binding None, Ellipsis,
   the typing names and the root-relative dotted paths of its classes, the token-level rendering evaluates to a
   type that admits every observed value *)
Theorem pipeline_sound_rendered_partial :
  forall h bt k rs (obs : list value) (stored : list ty) T v ct ns,
    wf_hier h = true -> bt_ok h bt = true -> chain_ok rs = true ->
    forallb wf_valueb obs = true ->
    (forall x, In x obs -> exists t t', get_type k x = Some t /\ In t' stored /\ corrb t t' = true) ->
    Forall wf_ty stored ->
    shrink_top k stored = Some T -> In v obs ->
    binds_base ns -> binds_cls_l ct ns (tcls (rw_chain h bt rs T)) -> ok (rw_chain h bt rs T) = true ->
    exists D, ev ct ns (rast ct (rw_chain h bt rs T)) = Some D /\ member true (subclass h) v D = true.
Proof. exact PipelineRender.pipeline_sound_rendered_partial. Qed.
Print Assumptions pipeline_sound_rendered_partial.

(* text level, under C11's checked premise that the stripped text parses back to the token-level rendering *)
Theorem pipeline_sound_rendered_text_partial :
  forall h bt k rs (obs : list value) (stored : list ty) T v ct ns mods,
    wf_hier h = true -> bt_ok h bt = true -> chain_ok rs = true ->
    forallb wf_valueb obs = true ->
    (forall x, In x obs -> exists t t', get_type k x = Some t /\ In t' stored /\ corrb t t' = true) ->
    Forall wf_ty stored ->
    shrink_top k stored = Some T -> In v obs ->
    binds_base ns -> binds_cls_l ct ns (tcls (rw_chain h bt rs T)) -> ok (rw_chain h bt rs T) = true ->
    parse_anno (strip_mods mods (ra ct (rw_chain h bt rs T))) = Some (rast ct (rw_chain h bt rs T)) ->
    exists D, eval_text ct ns (strip_mods mods (ra ct (rw_chain h bt rs T))) = Some D
              /\ member true (subclass h) v D = true.
Proof. exact PipelineRender.pipeline_sound_rendered_text_partial. Qed.
Print Assumptions pipeline_sound_rendered_text_partial.

(* any annotation, TypedDicts included, relative to C11's per-annotation property: if the annotation text
   evaluates (forward references resolved through the generated classes) to a type corresponding to the emitted
   one — what C11's check decides per case — it evaluates to a type admitting every observed value *)
Theorem pipeline_sound_denoted :
  forall h bt k rs (obs : list value) (stored : list ty) T v ct ns fuel text,
    wf_hier h = true -> bt_ok h bt = true -> chain_ok rs = true ->
    forallb wf_valueb obs = true ->
    (forall x, In x obs -> exists t t', get_type k x = Some t /\ In t' stored /\ corrb t t' = true) ->
    Forall wf_ty stored ->
    shrink_top k stored = Some T -> In v obs ->
    (exists D, eval_anno ct ns fuel text = Some D /\ corrb (rw_chain h bt rs T) D = true) ->
    exists D, eval_anno ct ns fuel text = Some D /\ member true (subclass h) v D = true.
Proof. exact PipelineRender.pipeline_sound_denoted. Qed.
Print Assumptions pipeline_sound_denoted.

(* ---- the full statement, including rendering and evaluation (STATED, NOT PROVED) ----
   A' / cs: the emitted annotation with its TypedDicts replaced by forward references to generated classes
   (rtd, what the stub renderer does).  In a namespace that binds the base names, the classes of the annotation,
   TypedDict, and the generated classes as the stub declares them, the annotation TEXT evaluates to a type that
   admits every observed value.
   Missing for a proof: (1) C11's td_stub_resolves_full (the forward reference resolves, through the generated
   class stubs, to a type corresponding to the TypedDict) is itself only tested; (2) the stringology lemma that
   strip_mods is token-wise (C11's `tokenwise` premise); (3) binds_cls_l for the classes below TypedDict fields.
   With (1)-(3), C01_full follows from pipeline_sound_denoted.  As C11_full, it is false inside C11's finding
   classes (Refuted/C11.v: e.g. a class whose name contains "NoneType"), which the premises below do not exclude. *)
Definition C01_full : Prop :=
  forall h bt k rs (obs : list value) (stored : list ty) T v
         (ct : ctable) (ns : namespace) (mods : list string) (hint : string) (fuel : nat),
    wf_hier h = true -> bt_ok h bt = true -> chain_ok rs = true ->
    forallb wf_valueb obs = true ->
    (forall x, In x obs -> exists t t', get_type k x = Some t /\ In t' stored /\ corrb t t' = true) ->
    Forall wf_ty stored ->
    shrink_top k stored = Some T -> In v obs ->
    let A := rw_chain h bt rs T in
    let A' := fst (rtd A hint) in
    let cs := snd (rtd A hint) in
    binds_base ns -> binds_cls_l ct ns (tcls A) ->
    lookup_s "TypedDict" ns = Some NsTDBase ->
    NoDup (map cs_name cs) ->
    (forall s, In s cs -> lookup_s (cs_name s) ns = lookup_s (cs_name s) (cstubs_ns ct cs)) ->
    List.length cs < fuel ->
    exists D, eval_anno ct ns fuel (strip_mods mods (ra ct A')) = Some D
              /\ member true (subclass h) v D = true.

(* ---- non-vacuity ---- *)
Local Open Scope string_scope.
Local Open Scope N_scope.
Local Open Scope list_scope.

(* class table of Proofs/RewriteMono.v: 16 A; 17 B(A); 18 M; 19 C(B, M); 20 D(A).
   Observed at one position: [], None, {"a": 1, "b": "x"}, C(), [D()], B(); max_typed_dict_size = 2.
   The merge sees the inferred types in another order, C's twice, and the TypedDict with its fields permuted (a
   decoded copy).  Default chain: RemoveEmptyContainers drops List[Any] (the empty list stays admitted by List[D]). *)
Definition ex_obs : list value :=
  [VList []; VAtom cNone 0; VDict [(VStr "a", VAtom 2 1); (VStr "b", VStr "x")]; VAtom 19 0;
   VList [VAtom 20 7]; VAtom 17 3].
Definition ex_stored : list ty :=
  [TCls 19; TTypedDict [("b", TCls 3); ("a", TCls 2)] []; TList (TCls 20); TCls 1; TList TAny; TCls 19; TCls 17].
Definition ex_merged : ty :=
  TUnion [TCls 19; TDict (TCls 3) (TUnion [TCls 3; TCls 2]); TList (TCls 20); TCls 1; TList TAny; TCls 17].
Definition ex_anno : ty :=
  TUnion [TCls 19; TDict (TCls 3) (TUnion [TCls 3; TCls 2]); TList (TCls 20); TCls 1; TCls 17].

Example ex_c01_nonvacuous :
  exists rs,
    default_chain = Some rs /\ chain_ok rs = true
    /\ wf_hier ex_h = true /\ bt_ok ex_h ex_bt = true
    /\ forallb wf_valueb ex_obs = true
    /\ map (get_type 2) ex_obs
       = [Some (TList TAny); Some (TCls 1); Some (TTypedDict [("a", TCls 2); ("b", TCls 3)] []);
          Some (TCls 19); Some (TList (TCls 20)); Some (TCls 17)]
    /\ (forall x, In x ex_obs -> exists t t', get_type 2 x = Some t /\ In t' ex_stored /\ corrb t t' = true)
    /\ Forall wf_ty ex_stored
    /\ shrink_top 2 ex_stored = Some ex_merged
    /\ rw_chain ex_h ex_bt rs ex_merged = ex_anno
    /\ forallb (fun v => member true (subclass ex_h) v ex_anno) ex_obs = true
    /\ forallb (fun v => member false (subclass ex_h) v ex_merged) ex_obs = true
    (* the merged type is not trivially wide: it rejects an int, and an unrelated class M *)
    /\ member true (subclass ex_h) (VAtom 2 5) ex_anno = false
    /\ member true (subclass ex_h) (VAtom 18 0) ex_anno = false.
Proof.
  eexists. split; [vm_compute; reflexivity|]. split; [vm_compute; reflexivity|].
  split; [vm_compute; reflexivity|]. split; [vm_compute; reflexivity|]. split; [vm_compute; reflexivity|].
  split; [vm_compute; reflexivity|].
  split; [apply coveredb_spec; vm_compute; reflexivity|].
  split.
  { repeat constructor; cbn; intuition discriminate. }
  repeat split; vm_compute; reflexivity.
Qed.

(* the theorem applied to the example (each observed value, through pipeline_sound_default) *)
Example ex_c01_applied : forall v, In v ex_obs -> member true (subclass ex_h) v ex_anno = true.
Proof.
  destruct ex_c01_nonvacuous as [rs [Hd [_ [Hh [Hb [Hw [_ [Hc [Hs [Hm [Hr _]]]]]]]]]]].
  intros v Hv. rewrite <- Hr. eapply pipeline_sound_default; eauto.
Qed.

(* the rendering step on the same annotation: text, stripped text, what it evaluates to *)
Definition ex_ct01 : ctable :=
  [(1, ("builtins", "NoneType")); (2, ("builtins", "int")); (3, ("builtins", "str"));
   (17, ("app", "B")); (19, ("app", "C")); (20, ("app.models", "D"))].
Definition ex_ns01 : namespace :=
  [("None", NsNone); ("Ellipsis", NsEllipsis)] ++ map (fun k => (k, NsTyp k)) typing_names
  ++ [("int", NsCls 2); ("str", NsCls 3); ("B", NsCls 17); ("C", NsCls 19); ("D", NsCls 20)].

Example ex_c01_rendered :
  let mods := ["app"; "typing"; "app.models"] in
  binds_base ex_ns01 /\ binds_cls_l ex_ct01 ex_ns01 (tcls ex_anno) /\ ok ex_anno = true
  /\ ra ex_ct01 ex_anno = "Optional[Union[app.C, Dict[str, Union[str, int]], List[app.models.D], app.B]]"
  /\ strip_mods mods (ra ex_ct01 ex_anno) = "Optional[Union[C, Dict[str, Union[str, int]], List[D], B]]"
  /\ parse_anno (strip_mods mods (ra ex_ct01 ex_anno)) = Some (rast ex_ct01 ex_anno)
  /\ eval_text ex_ct01 ex_ns01 (strip_mods mods (ra ex_ct01 ex_anno))
     = Some (TUnion [TCls 19; TDict (TCls 3) (TUnion [TCls 3; TCls 2]); TList (TCls 20); TCls 17; TCls 1])
  /\ forallb (fun v => member true (subclass ex_h) v
                         (TUnion [TCls 19; TDict (TCls 3) (TUnion [TCls 3; TCls 2]); TList (TCls 20); TCls 17; TCls 1]))
             ex_obs = true.
Proof.
  assert (Hb : binds_base ex_ns01).
  { split; [reflexivity|]. split; [reflexivity|].
    intros k Hk. cbn in Hk. repeat (destruct Hk as [<-|Hk]; [reflexivity|]). destruct Hk. }
  assert (Hc : binds_cls_l ex_ct01 ex_ns01 (tcls ex_anno)).
  { intros c Hc Hn. cbn in Hc.
    repeat (destruct Hc as [<-|Hc]; [first [vm_compute; reflexivity | exfalso; apply Hn; reflexivity]|]).
    destruct Hc. }
  cbn zeta. split; [exact Hb|]. split; [exact Hc|]. vm_compute. repeat split; reflexivity.
Qed.

(* the store premise of pipeline_sound_store_fn on C08's example environment (classes 16 K, 17 K.Inner):
   the round trip really changes the TypedDict (fields come back sorted), and the theorem's premises hold *)
Definition ex_obs_store : list value :=
  [VList []; VAtom cNone 0; VDict [(VStr "b", VAtom 2 1); (VStr "a", VStr "x")]; VAtom 17 0; VList [VAtom 16 7]].

Example ex_c01_store :
  let ts := [TList TAny; TCls 1; TTypedDict [("b", TCls 2); ("a", TCls 3)] []; TCls 17; TList (TCls 16)] in
  let ds := [TList TAny; TCls 1; TTypedDict [("a", TCls 3); ("b", TCls 2)] []; TCls 17; TList (TCls 16)] in
  let stored := [TCls 17; TList (TCls 16); TTypedDict [("a", TCls 3); ("b", TCls 2)] []; TCls 17; TList TAny; TCls 1] in
  typing_ok ex_ev
  /\ forallb wf_valueb ex_obs_store = true
  /\ mapM (get_type 2) ex_obs_store = Some ts
  /\ Forall (fun t => Forall (importable ex_cn ex_ev ex_hd) (classes t)) ts
  /\ mapM (store_rt ex_cn "monkeytype.typing" ex_ev ex_hd) ts = Some ds
  /\ (forall t', In t' stored <-> In t' ds)
  /\ shrink_top 2 stored
     = Some (TUnion [TCls 17; TList (TCls 16); TDict (TCls 3) (TUnion [TCls 3; TCls 2]); TList TAny; TCls 1]).
Proof.
  cbn zeta. split; [exact ex_typing_ok|]. split; [vm_compute; reflexivity|]. split; [vm_compute; reflexivity|].
  split.
  { repeat constructor; vm_compute; reflexivity. }
  split; [vm_compute; reflexivity|]. split; [|vm_compute; reflexivity].
  intros t'. cbn [In]. tauto.
Qed.
