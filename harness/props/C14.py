"""C14 — stub content depends only on the set of traces, not their order, duplication, batching or process."""
import collections
import json
import os
import random
import subprocess
import sys
from concurrent.futures import ThreadPoolExecutor

from harness import common
from harness.common import coq_bool, coq_list, coq_opt, coq_str

COQ_TARGETS = ["Check/StubSetCases.vo"]
TRUSTED_BASE = [
    "harness/stubeval.py: the stub text is parsed with `ast`, every annotation evaluated in the namespace the stub's own "
    "imports and class stubs provide, and reified; equivalence `equivb` (union members as sets) is evaluated in Coq",
    "SQLite's GROUP BY / row order and CPython's set iteration order are the sources of nondeterminism being exercised, "
    "not modelled",
    "typing's Union normalisation / == / hash as modelled (Model/Types.v) for the per-position model comparison",
]
ASSUMPTIONS = ["different PYTHONHASHSEED values and junk allocations before import move string hashes and object addresses, "
               "which is what set iteration order depends on"]
PARTIAL = ["the literal statement C14_full (kept as a Definition) is refuted in Coq (class tables whose MRO omits the class, "
           "inputs not in typing's normal form); proved is the strongest true variant: C14_merge_full_holds (merge order/"
           "duplication invariance up to equivb, TypedDicts anywhere), rw_equiv_invariant / rw_chain_equiv_invariant / "
           "merge_rewrite_perm_inputs_partial (merge-then-rewrite is permutation invariant for normal inputs outside the "
           "recorded class kf_td_under_union, consistent self-listing MROs); inside kf_td_under_union and for ambiguous "
           "ancestors (kf_rlu_ambiguous_ancestor, Coq witness) the dependence on order is a recorded finding",
           "SQLite's GROUP BY / ORDER BY and CPython's set iteration are exercised (separate interpreters, hash seeds), not modelled"]

FIXTURE = '''
class X: pass
class Y: pass
class B1(X, Y): pass
class B2(X, Y): pass
class B3(X, Y): pass
class C1(Y, X): pass
class C2(Y, X): pass
class C3(Y, X): pass
class P: pass
class Q(P): pass
class R(P): pass

def f0(a, b=None):
    return a

def f1(a):
    return None

def f2(a, b, c):
    return (a, b)

def g0(a):
    yield a

def Session(a):
    return a

def session(a):
    return a

class K:
    def m(self, a, b):
        return b

    @classmethod
    def cm(cls, a):
        return a

    @staticmethod
    def sm(a):
        return a
'''
FIXTURE += "".join(f"\ndef h{i:02d}(p{i:02d}):\n    return p{i:02d}\n" for i in range(24))
PKG_INIT = "class Top:\n    pass\n"
PKG_SUB = "class Deep:\n    pass\n\nclass Deeper(Deep):\n    pass\n"
CFG = '''
from monkeytype.config import DefaultConfig
class _C3(DefaultConfig):
    def max_typed_dict_size(self):
        return 3
CFG3 = _C3()
CFG0 = DefaultConfig()
'''
CHILD = r'''
import sys
junk = [object() for _ in range(int(sys.argv.pop(1)))]
from monkeytype.cli import main
rc = main(sys.argv[1:], sys.stdout, sys.stderr)
sys.exit(rc)
'''


def make_values(rnd, fx, k):
    """values for one position: atoms, fixture/harness classes, containers; for k > 0 also small str-keyed dicts of
    builtin values (shapes that stay clear of C11's recorded rendering findings)"""
    from harness import fxclasses as hx
    import c14pkg
    import c14pkg.sub
    # classes of a package and of one of its sub-modules in the same signature: the rendered names must not depend on
    # the order in which module prefixes are stripped
    atoms = [1, "s", None, 2.5, True, b"x", fx.P(), fx.Q(), fx.R(), hx.A(), hx.B(), hx.D(), fx.X(), fx.B1(), fx.C1(),
             c14pkg.Top(), c14pkg.sub.Deep(), c14pkg.sub.Deeper(), c14pkg.Top(), c14pkg.sub.Deep()]

    def v(depth):
        c = rnd.random()
        if depth <= 0 or c < 0.45:
            return rnd.choice(atoms)
        if c < 0.6:
            return [v(depth - 1) for _ in range(rnd.choice([0, 1, 2, 3]))]
        if c < 0.7:
            return tuple(v(depth - 1) for _ in range(rnd.choice([0, 1, 2])))
        if c < 0.78:
            return {rnd.choice([1, "k", 2.5]) for _ in range(rnd.choice([0, 1, 2]))}
        if c < 0.9:
            if k > 0:
                return {key: rnd.choice([1, "s", None, [1], 2.5]) for key in rnd.sample(["a", "b", "c", "d"], rnd.choice([1, 2, 3]))}
            return {rnd.choice(["a", "b", 1]): v(depth - 1) for _ in range(rnd.choice([0, 1, 2]))}
        return rnd.choice([int, fx.P, len])
    return v


def ambiguous(types, maxlen):
    """does RewriteLargeUnion's answer for this set of plain classes depend on which member comes first?"""
    from monkeytype.compat import is_typed_dict
    if len(types) <= maxlen or not all(isinstance(t, type) and not is_typed_dict(t) for t in types):
        return False
    cands = set()
    for first in types:
        c = None
        for anc in first.__mro__:
            if anc is not object and all(issubclass(t, anc) for t in types):
                c = anc
                break
        cands.add(c)
    return len(cands) > 1


def build_scenario(rnd, fx, idx):
    from monkeytype.tracing import CallTrace
    from monkeytype.typing import get_type
    k = rnd.choice([0, 0, 3])
    rewrite = rnd.random() < 0.75
    directed = idx % 6 == 0           # the recorded ambiguous-ancestor shape
    gen = make_values(rnd, fx, k)
    funcs = [("f0", fx.f0, ["a", "b"]), ("f1", fx.f1, ["a"]), ("f2", fx.f2, ["a", "b", "c"]), ("g0", fx.g0, ["a"]),
             ("K.m", fx.K.m, ["a", "b"]), ("K.cm", fx.K.__dict__["cm"].__func__, ["a"]), ("K.sm", fx.K.__dict__["sm"], ["a"]),
             ("Session", fx.Session, ["a"]), ("session", fx.session, ["a"])]
    chosen = rnd.sample(funcs, rnd.choice([1, 2, 3, 4]))
    if idx % 5 == 4:
        # two functions whose names differ only in case: their order in the stub must not follow the order of the rows
        chosen = [f for f in chosen if f[0].lower() != "session"] + funcs[-2:]
    traces = []
    for q, fn, names in chosen:
        for _ in range(rnd.choice([1, 2, 3, 5, 7])):
            args = {n: get_type(gen(2), k) for n in names if rnd.random() < 0.9}
            if q == "g0":
                yv = rnd.choice([1, "s", None, 2.5])
                traces.append(CallTrace(fn, args, None if rnd.random() < 0.5 else type(None), get_type(yv, k)))
            else:
                ret = None if rnd.random() < 0.1 else get_type(gen(2), k)
                traces.append(CallTrace(fn, args, ret))
    if idx % 4 == 2:
        # two calls whose argument types are a rearrangement of each other
        for q, fn, names in (chosen if any(len(c[2]) >= 2 for c in chosen) else chosen + [funcs[0]]):
            if len(names) >= 2:
                t1, t2 = rnd.sample([int, str, bytes, float, type(None)], 2)
                traces.append(CallTrace(fn, {names[0]: t1, names[1]: t2}, type(None)))
                traces.append(CallTrace(fn, {names[0]: t2, names[1]: t1}, type(None)))
    if idx % 3 == 1:
        # traces of one generator with identical argument and return types that differ ONLY in what was yielded
        for yt in rnd.sample([int, str, bytes, type(None), float], 3):
            traces.append(CallTrace(fx.g0, {"a": int}, type(None), yt))
    if idx % 6 == 3:
        # two functions with a same-named dict parameter of different shape, limit 3: the generated class names collide
        k = 3
        shapes = [{"host": "h", "port": 1}, {"debug": True, "root": "r", "workers": 2}, {"host": "h"}, {"x": 1.5, "y": None}]
        rnd.shuffle(shapes)
        traces = [t for t in traces if not any("TypedDict" in repr(a) for a in list(t.arg_types.values()) + [t.return_type])]
        traces.append(CallTrace(fx.f0, {"a": get_type(shapes[0], 3), "b": int}, type(None)))
        traces.append(CallTrace(fx.f1, {"a": get_type(shapes[1], 3)}, type(None)))
        traces.append(CallTrace(fx.K.m, {"a": get_type(shapes[2], 3), "b": str}, int))
    if idx % 6 == 5:
        # many anonymous TypedDicts alive and freed within one stub generation: three dict parameters of one function (distinct
        # class names), several shapes each, default rewriter
        k, rewrite = 3, True
        traces = [t for t in traces if not any("TypedDict" in repr(a) for a in list(t.arg_types.values()) + [t.return_type])]
        shapes = {"a": [{"host": "h"}, {"host": "h", "port": 1}, {"port": 2}],
                  "b": [{"x": 1.5}, {"x": 1.5, "y": None}, {"y": "s", "z": 1}],
                  "c": [{"name": "n", "tags": [1]}, {"name": "n"}, {"tags": ["t"], "id": 7}]}
        for i in range(rnd.choice([3, 4, 6])):
            traces.append(CallTrace(fx.f2, {n: get_type(rnd.choice(shapes[n]), 3) for n in ("a", "b", "c")},
                                    get_type(rnd.choice(shapes["b"]), 3)))
        traces.append(CallTrace(fx.K.m, {"a": int, "b": str}, type(None)))
        # ... and a LARGE module: two dozen functions, each with its own dict parameter seen in two shapes (many anonymous
        # TypedDicts are built and freed while one stub is generated)
        for i in range(24):
            fn = getattr(fx, f"h{i:02d}")
            pn = f"p{i:02d}"
            traces.append(CallTrace(fn, {pn: get_type({f"id{i:02d}": i, f"note{i:02d}": "n"}, 3)}, type(None)))
            traces.append(CallTrace(fn, {pn: get_type({f"id{i:02d}": i}, 3)}, type(None)))
    pressure = idx % 6 == 1
    if pressure:
        # typing's subscription cache (128 entries, shared by all generic aliases) under pressure: two rows of one function whose
        # dict argument has the same parametrised key type, with 125 rows of other generic types (175 distinct parametrisations) decoded between them in the
        # one-run-per-day presentations (and next to each other in the reference): equal key types that are not the same object
        import itertools
        k, rewrite = 0, True
        # (Tuple[...] has a cache of its own: the fillers are Dict / List parametrisations, 175 distinct ones)
        fillers = [{a: [{b: c}]} for a, b, c in itertools.product([1, "s", 2.5, b"x", None], repeat=3)]
        rnd.shuffle(fillers)
        kt = rnd.choice([int, str, fx.P])
        traces = ([CallTrace(fx.K.m, {"a": get_type({kt: 1}, 0), "b": int}, type(None))]
                  + [CallTrace(fx.f1, {"a": get_type(t, 0)}, type(None)) for t in fillers]
                  + [CallTrace(fx.K.m, {"a": get_type({kt: "s"}, 0), "b": int}, type(None))])
        directed = False
    if directed:
        for c in (fx.B1, fx.B2, fx.B3, fx.C1, fx.C2, fx.C3):
            traces.append(CallTrace(fx.f1, {"a": c}, type(None)))
        rewrite = True
    return {"k": k, "rewrite": rewrite, "traces": traces, "directed": directed, "pressure": pressure}


def presentations(rnd, traces, keep_order=False):
    """(name, list of batches) — each batch is added through its own connection"""
    out = [("reference", [list(traces)])]
    sh = list(traces)
    rnd.shuffle(sh)
    out.append(("shuffled", [sh]))
    dup = list(traces) + [rnd.choice(traces) for _ in range(len(traces))]
    rnd.shuffle(dup)
    out.append(("duplicated", [dup]))
    sp = list(traces)
    rnd.shuffle(sp)
    cut = sorted(rnd.sample(range(len(sp) + 1), min(2, len(sp) + 1)))
    out.append(("batched", [sp[:cut[0]], sp[cut[0]:cut[-1]], sp[cut[-1]:] + sp[:1]]))
    rev = list(reversed(traces))
    out.append(("reversed_other_process", [rev]))
    # the same trace flushed in many separate batches before the others: with the row limit of the query just above
    # the number of DISTINCT rows the answer must still contain every distinct row
    first = traces[0]
    out.append(("many_duplicate_batches_limited", [[first]] * 12 + [list(traces)]))
    # every trace recorded by its own run, the runs on different days in a random order: the store answers
    # ORDER BY date(created_at), so this is the presentation that really changes the order in which rows come back
    dd = list(traces)
    days = list(range(len(dd)))
    if not keep_order:          # (keep_order: the first and the last trace stay as far apart as the scenario put them)
        rnd.shuffle(dd)
        rnd.shuffle(days)
    out.append(("runs_on_different_days", [[t] for t in dd], days))
    # ... and the same runs with the calendar reversed: whatever order the first presentation gave two rows, this one gives the other
    out.append(("runs_on_different_days_reversed", [[t] for t in dd], [len(dd) - 1 - d for d in days]))
    return out


def add_on_day(db, batch, day):
    """SQLiteStore.add with the clock set `day` days back (created_at is datetime.datetime.now() in sqlite.py)"""
    import datetime as real
    import types
    import monkeytype.db.sqlite as sq
    from monkeytype.db.sqlite import SQLiteStore
    if day is None:
        SQLiteStore.make_store(db).add(batch)
        return
    stamp = real.datetime(2024, 1, 1, 12, 0, 0) + real.timedelta(days=day)

    class _DT(real.datetime):
        @classmethod
        def now(cls, tz=None):
            return stamp
    saved = sq.datetime
    sq.datetime = types.SimpleNamespace(datetime=_DT)
    try:
        SQLiteStore.make_store(db).add(batch)
    finally:
        sq.datetime = saved


def run_cli(work, db, k, rewrite, hashseed, junk, limit=None):
    env = common.sub_env({"MT_DB_PATH": db, "PYTHONHASHSEED": str(hashseed)})
    env["PYTHONPATH"] = work + os.pathsep + env["PYTHONPATH"]
    argv = [common.PY, "-c", CHILD, str(junk), "-c", "c14cfg:CFG3" if k else "c14cfg:CFG0"]
    if limit is not None:
        argv += ["--limit", str(limit)]
    if not rewrite:
        argv.append("--disable-type-rewriting")
    argv += ["stub", "c14fx"]
    p = subprocess.run(argv, capture_output=True, text=True, env=env, timeout=120, cwd=work)
    return p.returncode, p.stdout, p.stderr


def summarise(text, fx, ct):
    from harness.stubeval import StubEval
    own = {n: c for n, c in vars(fx).items() if isinstance(c, type) and c.__module__ == fx.__name__}
    se = StubEval(text, own, ct)

    def term(pair):
        src, t = pair
        return t if t is not None else f"(TFwd {coq_str('?unresolved:' + src)})"
    funcs = []
    unresolved = 0
    for q, d in se.functions().items():
        annos = []
        for n, pr in d["params"].items():
            unresolved += pr[1] is None
            annos.append(f"({coq_str(n)}, Some {term(pr)})")
        ret = "None" if d["return"] is None else f"(Some (Some {term(d['return'])}))"
        if d["return"] is not None:
            unresolved += d["return"][1] is None
        funcs.append(f"(FSum {coq_str(q)} {coq_bool(d['async'])} {coq_list(coq_str(x) for x in d['decorators'])} "
                     f"{coq_list(coq_str(x) for x in d['all_params'])} {coq_list(annos)} {ret})")
    classes = []
    for name, base, total, fs in se.typed_dict_classes():
        fl = coq_list(f"({coq_str(n)}, {coq_opt(t)})" for n, t in fs)
        classes.append(f"({coq_str(name)}, ({coq_str(base)}, {coq_bool(total)}), {fl})")
    s = f"(StubSum {coq_list(coq_str(x) for x in se.import_lines)} {coq_list(classes)} {coq_list(funcs)})"
    return s, se, unresolved


def run(ctx):
    from monkeytype.db.sqlite import SQLiteStore
    from monkeytype.encoding import CallTraceRow
    work = ctx.work
    with open(os.path.join(work, "c14fx.py"), "w") as f:
        f.write(FIXTURE)
    with open(os.path.join(work, "c14cfg.py"), "w") as f:
        f.write(CFG)
    os.makedirs(os.path.join(work, "c14pkg"), exist_ok=True)
    with open(os.path.join(work, "c14pkg", "__init__.py"), "w") as f:
        f.write(PKG_INIT)
    with open(os.path.join(work, "c14pkg", "sub.py"), "w") as f:
        f.write(PKG_SUB)
    sys.path.insert(0, work)
    try:
        import importlib
        fx = importlib.import_module("c14fx")
        rnd = random.Random(ctx.seed + 14)
        n_scen = 30 if ctx.tier == "quick" else 240
        ct = common.ClassTable()
        jobs, scen = [], []
        for i in range(n_scen):
            sc = build_scenario(rnd, fx, i)
            keys = set()
            for t in sc["traces"]:
                r = CallTraceRow.from_trace(t)
                keys.add((r.module, r.qualname, r.arg_types, r.return_type, r.yield_type))
            sc["limit"] = len(keys) + 2          # just above the number of distinct rows; every presentation uses it
            sc["truncating"] = (i % 5 == 2 and len(keys) > 4 and not sc.get("pressure"))
            if sc["truncating"]:
                # fewer rows than there are distinct traces: WHICH ones come back may depend on their dates (by design of
                # the query) but not on the order in which rows of one day were inserted
                sc["limit"] = len(keys) - 2
            scen.append(sc)
            for j, pres in enumerate(presentations(rnd, sc["traces"], keep_order=bool(sc.get("pressure")))):
                name, batches = pres[0], pres[1]
                if sc["truncating"] and name.startswith("runs_on_different_days"):
                    continue
                days = pres[2] if len(pres) > 2 else [None] * len(batches)
                db = os.path.join(work, f"s{i}_{j}.sqlite3")
                for b, day in zip(batches, days):
                    if b:
                        add_on_day(db, b, day)
                jobs.append((i, name, db, rnd.choice([0, 1, 7, 12345]) if j else 0, rnd.choice([0, 1000, 50000]) if j else 0))
        with ThreadPoolExecutor(max_workers=common.NCPU) as ex:
            outs = list(ex.map(lambda jb: run_cli(work, jb[2], scen[jb[0]]["k"], scen[jb[0]]["rewrite"], jb[3], jb[4], scen[jb[0]]["limit"]), jobs))
        cases, terms = [], []
        dist = collections.Counter()
        refs = {}
        for jb, (rc, out, err) in zip(jobs, outs):
            i, name, db, hs, junk = jb
            sc = scen[i]
            dist[f"presentation={name}"] += 1
            dist[f"k={sc['k']}"] += 1
            dist["rewrite_on" if sc["rewrite"] else "rewrite_off"] += 1
            if rc != 0 or not out.strip():
                cases.append({"scenario": i, "presentation": name, "error": f"stub command failed rc={rc}: {err[-300:]}", "term": None})
                continue
            try:
                s, se, unresolved = summarise(out, fx, ct)
            except SyntaxError as e:
                cases.append({"scenario": i, "presentation": name, "error": f"stub does not parse: {e}", "term": None, "stub": out})
                continue
            dist["unresolved_annotations"] += unresolved
            if name == "reference":
                # per-position inputs of the model: the distinct decoded types, as shrink_traced_types collects them
                rows = {}
                for t in sc["traces"]:
                    r = CallTraceRow.from_trace(t)
                    rows[(r.module, r.qualname, r.arg_types, r.return_type, r.yield_type)] = r
                per = collections.defaultdict(set)
                for r in rows.values():
                    tr = r.to_trace()
                    for n, ty in tr.arg_types.items():
                        per[(r.qualname, n)].add(ty)
                positions, amb = [], False
                for (q, n), tys in sorted(per.items(), key=lambda kv: kv[0]):
                    tl = list(tys)
                    amb = amb or ambiguous(tl, 5)
                    src_term = se.functions().get(q, {}).get("params", {}).get(n)
                    if src_term is None or src_term[1] is None:
                        continue
                    dn = coq_bool(q == "f0" and n == "b")          # the only parameter of the fixture with a None default
                    positions.append(f"(PosIn {coq_str(q)} {coq_str(n)} {dn} {coq_list(common.reify_type(t, ct) for t in tl)})")
                if sc.get("truncating"):
                    positions = []       # the reference stub saw only `limit` of the distinct rows: no model comparison
                refs[i] = (s, positions, amb, out)
                dist["positions_modelled"] += len(positions)
                dist["ambiguous_scenarios"] += amb
            ref = refs.get(i)
            if ref is None:
                cases.append({"scenario": i, "presentation": name, "error": "reference stub missing", "term": None})
                continue
            term = (f"SCase {sc['k']} {coq_bool(sc['rewrite'])} {ref[0]} {s} {coq_list(ref[1])} {coq_bool(ref[2])} "
                    f"HIER BASES")
            cases.append({"scenario": i, "presentation": name, "hashseed": hs, "junk": junk, "k": sc["k"], "rewrite": sc["rewrite"],
                          "n_traces": len(sc["traces"]), "term": term, "stub": out, "ref_stub": ref[3], "error": None})
        hier, bases = ct.hierarchy(), ct.bases_table()
        good = [c for c in cases if c["term"]]
        for c in good:
            c["term"] = c["term"].replace("HIER BASES", "h bt")
        header = f"From MT Require Import StubSetCases.\nDefinition h : hierarchy := {hier}.\nDefinition bt : bases_table := {bases}.\n"
        outs2 = common.run_coq_shards(ctx.work, "c14", header, [c["term"] for c in good], "scase", "bad verdict_c14 0 cases",
                                      shard_size=10)
        failures, mismatches = [], []
        for c in cases:
            if not c["term"]:
                failures.append({"what": f"scenario {c['scenario']} presentation {c['presentation']}: {c['error']}", **{k: v for k, v in c.items() if k != 'term'}})
        for i, code in common.parse_bad(outs2):
            c = good[i]
            rec = {k: c[k] for k in ("scenario", "presentation", "hashseed", "junk", "k", "rewrite", "n_traces", "stub", "ref_stub")}
            rec["term"] = c["term"][:30000]
            if code == 1:
                rec["what"] = "model (shrink_top + default chain on the distinct traced types) and the reference stub disagree at some position"
                mismatches.append(rec)
            else:
                rec["what"] = (f"stub of the same trace set differs between the reference presentation and '{c['presentation']}' "
                               f"(PYTHONHASHSEED={c['hashseed']}, junk={c['junk']}, k={c['k']}, rewrite={c['rewrite']})")
                if code == 5:
                    rec["finding"] = "kf_rlu_ambiguous_ancestor"
                if code == 6:
                    rec["finding"] = "kf_hint_collision"
                    rec["what"] += (" - the stubs hold the same generated classes, but two of them share a name and are emitted "
                                    "in row order, so the shadowed name denotes a different class")
                failures.append(rec)
        return {
            "evaluations": len(cases), "distinct_nontrivial": len({common.digest(c["term"]) for c in good if c["presentation"] != "reference"}),
            "rule": "trace sets over a fixture module (functions, methods, classmethod, staticmethod, generator; user classes with "
                    "single and multiple inheritance; k in {0,3}; default and no rewriter) stored in 8 presentations (reference, one run per day in a random and in the reversed calendar order, many duplicate batches under a tight --limit, "
                    "shuffled, duplicated+shuffled, split into batches through separate connections, reversed) and stubbed by the "
                    "real CLI in separate interpreters with different PYTHONHASHSEED and junk allocations; each stub parsed and "
                    "every annotation evaluated in the stub's own namespace; non-trivial = a non-reference presentation",
            "samples": [{k: c.get(k) for k in ("scenario", "presentation", "hashseed", "k", "rewrite", "n_traces", "stub")} for c in good[1:4]],
            "distribution": dict(dist), "failures": failures, "mismatches": mismatches,
            "relation": "equivb (rw_chain default (shrink_top k distinct_types)) annotation, per traced parameter of the reference stub",
        }
    finally:
        sys.path.remove(work)
        sys.modules.pop("c14fx", None)


def replay(ctx, payload):
    print(payload.get("what"))
    print("--- reference stub ---")
    print(payload.get("ref_stub"))
    print("--- other stub ---")
    print(payload.get("stub"))
    return 0


CLAIM = {
    "text": "Coq theorems (Props/C14.v, 38): `equivb` (union members as sets, TypedDict fields as maps) is an equivalence on "
            "well-formed types and preserves membership of every value (member_equivb); C14_merge_full_holds: permuting or "
            "duplicating the inputs of the merge gives an equivb-equal result, TypedDicts anywhere; rw_equiv_invariant, "
            "rw_chain_equiv_invariant, merge_rewrite_perm_inputs_partial: every shipped rewriter and chain maps equivb-equal "
            "normal types outside kf_td_under_union to equivb-equal types, so merge-then-rewrite is permutation invariant; "
            "sorting by name and distinct-row extraction are permutation invariant. The literal C14_full is refuted "
            "(C14_full_refuted, C14_rw_nonnormal_refuted, C14_rw_unrestricted_refuted) - its premises had to be strengthened. "
            "Tie: the real CLI on 8 presentations of each trace set (order, duplication, batching/connections, --limit) in "
            "separate interpreters with different PYTHONHASHSEED and memory layout; stubs compared per position with `equivb` "
            "evaluated in Coq, and the reference stub compared with the model (shrink_top + default chain).",
    "note": "Partial only in that SQLite and CPython set order are exercised, not modelled, and that inside the recorded "
            "classes kf_td_under_union / kf_rlu_ambiguous_ancestor the output does depend on order (findings). Trusted: Coq "
            "kernel + vm_compute, harness/stubeval.py, SQLite.",
    "technique": "Coq proofs (induction over types and merges, permutation invariance up to a set-like equivalence) + "
                 "vm_compute differential comparison of real stubs across presentations/processes",
    "ref": "4/C14",
}
