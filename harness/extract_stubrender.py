"""Fail-closed extractor for the stub layout (C12): obtains the literals of monkeytype/stubs.py that the Coq model
Model/StubRender.v copies by hand and writes coq/Gen/StubRenderConstants.v; Props/C12.v proves (Example
ex_source_literals) that the model's copies equal what the source says now.

The constants are obtained by EVALUATION, not by matching the shape of the source: harness/stubrender_probe.py is run
in a subprocess whose only import path is the tree under test; it renders a fixed battery of ~1,300 hand-built stubs
(every parameter-kind sequence up to length 3 in four annotation/default variants, single line and wrapped, three
prefixes, async, return annotations; names of every length around the wrap limit; every FunctionKind; module-prefix
stripping with overlapping, nested, look-alike and name-like modules in several listing orders; ClassStub / ModuleStub
orderings) with the tree's own FunctionStub / ClassStub / ModuleStub / render_signature.  This module then
  1. reads each constant off a designated output (the wrap limit as the common threshold of four name-length sweeps,
     the decorator lines per kind, the wrapped-line indent, the single-line separator, the class body prefix, the
     number of newlines between module parts), and
  2. re-renders EVERY probe with `reference` below — a renderer whose only parameters are those constants and the
     stripping rule re.sub(r"(?<![\\w.])(?:m1|m2|...)\\.", "", line) with the longest module first — and requires all
     outputs to be equal, character for character.
Any refactoring that keeps the output keeps the constants; anything the constants do not describe (a probe that raises,
an output the reference does not reproduce, a limit outside the sweep, an import that does not come from the tree)
raises ExtractError and nothing is written.  `stub_strip_pattern` is the canonical spelling of the rule validated in
step 2 (the source may spell an equivalent regular expression differently)."""
import json
import os
import re
import subprocess

from harness import common

STRIP_PATTERN = r"(?<![\w.])(?:%s)\."


class ExtractError(Exception):
    pass


def _cs(s):
    return '"' + s.replace('"', '""') + '"'


# ------------------------------------------------------------------------------------------------
# the reference renderer (Python twin of Model/StubRender.v), parameterised by the constants only
# ------------------------------------------------------------------------------------------------
def ref_parameter(p):
    s = p["name"]
    if p["anno"] is not None:
        s += ": " + p["anno"]
    if p["default"]:
        s += " = ..."
    return {"VP": "*", "VK": "**"}.get(p["kind"], "") + s


def ref_entries(params):
    out = []
    pos_sep, kw_sep = False, True
    for p in params:
        k = p["kind"]
        if k == "PO":
            pos_sep = True
        elif pos_sep:
            out.append("/")
            pos_sep = False
        if k == "VP":
            kw_sep = False
        elif k == "KO" and kw_sep:
            out.append("*")
            kw_sep = False
        out.append(ref_parameter(p))
    if pos_sep:
        out.append("/")
    return out


def ref_signature(K, params, ret, max_len, prefix):
    entries = ref_entries(params)
    tail = (" -> " + ret) if ret is not None else ""
    single = "(" + K["sep"].join(entries) + ")" + tail
    if max_len is None or len(single) <= max_len:
        return single
    lines = ["("]
    for i, e in enumerate(entries):
        lines.append(prefix + K["indent"] + e + ("," if i != len(entries) - 1 else ""))
    lines.append(prefix + ")" + tail)
    return "\n".join(lines)


def ref_strip(mods, s):
    mods = sorted(set(mods), key=len, reverse=True)
    if not mods:
        return s
    return re.sub(STRIP_PATTERN % "|".join(re.escape(m) for m in mods), "", s)


def ref_function(K, f, prefix):
    s = prefix + ("async " if f["async"] else "") + "def " + f["name"]
    s += ref_signature(K, f["params"], f["ret"], K["max"] - len(s), prefix) + ": ..."
    s = ref_strip(f["strip"], s)
    for d in reversed(K["decorators"][f["kind"]]):
        s = prefix + "@" + d + "\n" + s
    return s


def ref_class(K, c):
    fs = sorted(c["functions"], key=lambda f: f["name"])
    return "\n".join(["class " + c["name"] + ":"] + [ref_function(K, f, K["class_prefix"]) for f in fs])


def ref_module(K, m):
    parts = [ref_function(K, f, "") for f in sorted(m["functions"], key=lambda f: f["name"])]
    parts += [ref_class(K, c) for c in sorted(m["classes"], key=lambda c: c["name"])]
    return ("\n" * K["part_newlines"]).join(parts)


def reference(K, p):
    if p["what"] == "function":
        return ref_function(K, p, p["prefix"])
    if p["what"] == "signature":
        return ref_signature(K, p["params"], p["ret"], p["max"], p["prefix"])
    if p["what"] == "class":
        return ref_class(K, p)
    return ref_module(K, p)


# ------------------------------------------------------------------------------------------------
# evaluation
# ------------------------------------------------------------------------------------------------
def run_probes():
    repo = os.path.realpath(common.REPO)
    script = os.path.join(os.path.dirname(os.path.abspath(__file__)), "stubrender_probe.py")
    env = {k: v for k, v in os.environ.items() if not k.startswith("PYTHON") and k != "MONKEYTYPE_TRACE_MODULES"}
    env.update({"PYTHONPATH": repo, "PYTHONHASHSEED": "0", "PYTHONDONTWRITEBYTECODE": "1"})
    try:
        p = subprocess.run([common.PY, "-P", script], env=env, cwd="/", capture_output=True, text=True, timeout=300)
    except (OSError, subprocess.SubprocessError) as e:
        raise ExtractError(f"probe process: {type(e).__name__}: {e}")
    if p.returncode != 0:
        raise ExtractError("probe process failed: " + (p.stderr.strip().splitlines() or ["?"])[-1][:300])
    try:
        data = json.loads(p.stdout)
    except ValueError:
        raise ExtractError("probe process printed no JSON")
    if not os.path.realpath(data["file"]).startswith(repo + os.sep):
        raise ExtractError(f"probes ran against {data['file']}, not against {repo}")
    by_id = {}
    for pr in data["probes"]:
        if "raised" in pr:
            raise ExtractError(f"probe {pr['id']} ({pr['what']} {pr.get('name', '')[:20]!r}): render raised {pr['raised']}")
        by_id[pr["id"]] = pr
    return data["kinds"], data["probes"], by_id


def read_constants(kinds, by_id):
    K = {}
    # single-line separator
    out = by_id["F0"]["output"]
    if not (out.startswith("(a") and out.endswith("b)") and len(out) > 4):
        raise ExtractError(f"render_signature of (a, b) gives {out!r}")
    K["sep"] = out[2:-2]
    # the wrap limit: first wrapped name length in each of the four sweeps of empty signatures
    limits = set()
    for plen in (0, 2):
        for a in (0, 1):
            lens = sorted(int(i.split("_")[1]) for i in by_id if i.startswith(f"B{plen}{a}_"))
            wrapped = [ln for ln in lens if "\n" in by_id[f"B{plen}{a}_{ln}"]["output"]]
            if not wrapped or wrapped[0] == lens[0] or wrapped != list(range(wrapped[0], lens[-1] + 1)):
                raise ExtractError("the wrap limit is outside the probed range or not a threshold")
            # wrapped iff len(prefix + [async ]def name) + len("()") > limit
            limits.add(plen + 6 * a + 4 + wrapped[0] + 2 - 1)
    if len(limits) != 1:
        raise ExtractError(f"the wrap limit is not `<N> - len(prefix + [async ]def name)`: thresholds give {sorted(limits)}")
    K["max"] = limits.pop()
    # indentation of a wrapped parameter line
    lines = by_id["Br00_129"]["output"].split("\n")
    if len(lines) != 3 or not lines[1].endswith("a") or lines[1][:-1].strip(" \t") != "":
        raise ExtractError(f"wrapped one-parameter signature has lines {lines[1:]!r}")
    K["indent"] = lines[1][:-1]
    # decorator lines of every kind
    K["decorators"] = {}
    for k in kinds:
        lines = by_id[f"C_{k}_0"]["output"].split("\n")
        if not all(ln.startswith("@") and ln[1:].isidentifier() for ln in lines[:-1]):
            raise ExtractError(f"kind {k}: lines above the def are {lines[:-1]!r}")
        K["decorators"][k] = [ln[1:] for ln in lines[:-1]]
    # class body prefix
    lines = by_id["D1"]["output"].split("\n")
    if len(lines) != 2 or "def " not in lines[1] or lines[1][:lines[1].index("def ")].strip(" \t") != "":
        raise ExtractError(f"ClassStub with one method renders {lines!r}")
    K["class_prefix"] = lines[1][:lines[1].index("def ")]
    # newlines between the parts of a module
    K["part_newlines"] = 0
    m = by_id["D2"]
    first = ref_function(K, sorted(m["functions"], key=lambda f: f["name"])[0], "")
    if not m["output"].startswith(first):
        raise ExtractError("ModuleStub does not start with its first function stub (by name)")
    rest = m["output"][len(first):]
    K["part_newlines"] = len(rest) - len(rest.lstrip("\n"))
    if K["part_newlines"] == 0:
        raise ExtractError("no newline between the parts of a module stub")
    return K


def render() -> str:
    kinds, probes, by_id = run_probes()
    if not kinds or len(set(kinds)) != len(kinds):
        raise ExtractError(f"FunctionKind members: {kinds}")
    K = read_constants(kinds, by_id)
    # the constants must account for every output of the battery
    for p in probes:
        want = reference(K, p)
        if p["output"] != want:
            raise ExtractError(f"probe {p['id']}: the tree renders {p['output'][:200]!r}, the constants "
                               f"(limit {K['max']}, indent {K['indent']!r}, separator {K['sep']!r}, longest-module-first "
                               f"stripping) give {want[:200]!r}")
    rows = "; ".join("(%s, [%s])" % (_cs(k), "; ".join(_cs(d) for d in K["decorators"][k])) for k in kinds)
    return "\n".join([
        "(* GENERATED by harness/extract_stubrender.py from /repo's current source. Do not edit. *)",
        "From Coq Require Import List String ZArith.",
        "Import ListNotations.",
        "Open Scope string_scope.",
        "",
        f"Definition stub_max_line_len : Z := {K['max']}%Z.",
        f"Definition stub_decorators : list (string * list string) := [{rows}].",
        f"Definition stub_wrapped_param_indent : string := {_cs(K['indent'])}.",
        f"Definition stub_single_line_separator : string := {_cs(K['sep'])}.",
        f"Definition stub_class_body_prefix : string := {_cs(K['class_prefix'])}.",
        f"Definition stub_part_separator_newlines : nat := {K['part_newlines']}.",
        f"Definition stub_strip_pattern : string := {_cs(STRIP_PATTERN)}.",
        "",
    ])


def regenerate():
    """Returns (ok, message).  Writes only when the content changed, so make stays incremental."""
    path = os.path.join(common.COQ, "Gen", "StubRenderConstants.v")
    try:
        text = render()
    except (ExtractError, SyntaxError, OSError, AttributeError, KeyError, IndexError, TypeError, ValueError) as e:
        if os.path.exists(path):
            os.remove(path)
        return False, f"{type(e).__name__}: {e}"
    old = open(path).read() if os.path.exists(path) else None
    if old != text:
        os.makedirs(os.path.dirname(path), exist_ok=True)
        with open(path, "w") as f:
            f.write(text)
    return True, "ok"


if __name__ == "__main__":
    print(regenerate())
    print(open(os.path.join(common.COQ, "Gen", "StubRenderConstants.v")).read())
