"""C05 — inferred types are tight: every alternative is witnessed by an observed value."""
from harness import common, infer_cases

COQ_TARGETS = ["Check/TightCases.vo"]
TRUSTED_BASE = ["typing's Union normalisation / == / hash as modelled (Model/Types.v)",
                "Model/Tight.v (tightb) is the formal reading of the property's prose, DESIGN 4/C05"]
ASSUMPTIONS = ["a generator object's elements are unobservable: Iterator[Any] is tight for generator objects"]
PARTIAL = ["C05_full (infer k vs = Some t -> tightb t vs) is stated but not proved: the merge induction shrink_tight is open; "
           "tightb is evaluated by vm_compute on the implementation's output for every generated case instead"]


def run(ctx):
    n = 3000 if ctx.tier == "quick" else 40000
    ct, cases = infer_cases.generate(ctx.seed + 5, n, with_small_scope=True)
    header = "From MT Require Import TightCases.\nDefinition h : hierarchy := %s.\n" % ct.hierarchy()
    outs = common.run_coq_shards(ctx.work, "c05", header, [c["term"] for c in cases], "icase",
                                 "bad verdict_c05 0 cases")
    bad = common.parse_bad(outs)
    failures, mismatches = [], []
    for i, code in bad:
        c = cases[i]
        rec = {"k": c["k"], "values": c["vs_repr"], "impl": c["impl"], "term": c["term"], "error": c["error"]}
        if code == 2:
            rec["what"] = f"inferred type is not tight for the observed values: k={c['k']} values={c['vs_repr'][:200]} type={c['impl'][:200]}"
            failures.append(rec)
        else:
            mismatches.append(rec)
    distinct = len({common.digest(c["term"]) for c in cases if c["nontrivial"]})
    return {
        "evaluations": len(cases), "distinct_nontrivial": distinct,
        "rule": "same space as C04 (exhaustive small multisets x k in {0,1,2}; seeded random collections x k in "
                "{0,1,2,3,10,200}); tightb(impl type, values) and corrb(model, impl) evaluated in Coq; "
                "non-trivial = >=2 values with a container; distinct by hash of the reified case",
        "samples": [{"k": c["k"], "values": c["vs_repr"], "impl_type": c["impl"]} for c in cases[-3:]],
        "distribution": infer_cases.distribution(cases),
        "failures": failures, "mismatches": mismatches, "relation": "corrb (infer k vs) impl",
    }


def replay(ctx, payload):
    print(payload)
    return 0

CLAIM = {'note': 'Partial: the merge induction (shrink_tight) is not proved; tightb on the implementation output is '
         'a Coq-evaluated test, not a theorem. Trusted: Coq kernel + vm_compute; harness reifiers; '
         'Model/Tight.v as the formal reading of the prose.',
 'ref': '4/C05',
 'technique': 'Coq model + partial theorems; vm_compute differential correspondence with the tightness '
              'predicate evaluated in Coq',
 'text': 'Executable Coq reading tightb of the property (Model/Tight.v), proved partial theorems (exact '
         'classes at leaves; Any is tight only for the empty collection; tightness entails exact-class '
         'membership for atomic types); the full statement C05_full is kept in Props/C05.v and is decided '
         "per generated case by vm_compute of tightb on the implementation's own output together with the "
         'multiset correspondence model = implementation.'}
