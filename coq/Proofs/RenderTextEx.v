(* Proofs/RenderTextEx.v — non-vacuity of the text-level rendering theorems (C11) and the counterexamples
   that motivate their side conditions (all by vm_compute: these are tests, the theorems are in RenderText.v). *)
From MT Require Import Types Render RenderTok RenderTextStr RenderTextPx RenderText RenderTextCor.

Open Scope string_scope.
Open Scope nat_scope.
Open Scope list_scope.

Definition xct : ctable :=
  [(1%N, ("builtins", "NoneType")); (2%N, ("builtins", "int")); (3%N, ("builtins", "str"));
   (16%N, ("utils", "A")); (17%N, ("utils", "Outer")); (18%N, ("utils", "Outer.Inner"));
   (19%N, ("pkg.utils", "B")); (20%N, ("_io", "StringIO"));
   (30%N, ("utils", "utils"));                 (* a class named like its module *)
   (31%N, ("a", "b.C")); (32%N, ("a.b", "D")); (* module a, nested class b.C  vs  module a.b *)
   (33%N, ("foo", "MyNoneTypeX")); (34%N, ("mytyping", "Q"))].
Definition xmods : list string := ["utils"; "typing"; "pkg.utils"; "_io"].
Definition xns : namespace :=
  [("None", NsNone); ("Ellipsis", NsEllipsis)] ++ map (fun k => (k, NsTyp k)) typing_names
  ++ [("int", NsCls 2%N); ("str", NsCls 3%N); ("A", NsCls 16%N); ("Outer", NsCls 17%N); ("B", NsCls 19%N);
      ("StringIO", NsCls 20%N); ("utils", NsCls 30%N)].

(* nested generics, Optional with and without an inner Union, Tuple[()], Tuple[x, ...], the repr route below
   Type / Iterator / DefaultDict, a nested class, a class named like its module, a forward reference *)
Definition xty : ty :=
  TTuple [TUnion [TCls 16%N; tnone; TCls 19%N]; TUnion [tnone; TCls 30%N];
          TDefaultDict (TCls 3%N) (TTupleVar (TCls 18%N)); TTupleVar (TDict (TCls 3%N) (TSet (TCls 20%N)));
          TGenerator (TFwd "XTypedDict__RENAME_ME__") tnone (TList (TType (TUnion [TCls 2%N; tnone])));
          TTuple []; TIterator (TUnion [TCls 2%N; TCls 3%N; TCls 16%N]); TCallable; TAny].
(* the same shape over builtins only *)
Definition xty_plain : ty :=
  TTuple [TUnion [TCls 2%N; tnone; TCls 3%N]; TUnion [tnone; TCls 2%N];
          TDefaultDict (TCls 3%N) (TTupleVar (TCls 2%N)); TTupleVar (TDict (TCls 3%N) (TSet (TCls 2%N)));
          TGenerator (TFwd "XTypedDict__RENAME_ME__") tnone (TList (TType (TUnion [TCls 2%N; tnone])));
          TTuple []; TIterator (TUnion [TCls 2%N; TCls 3%N]); TCallable; TAny].

Example ex_parse_back :
  lexok (cls_plain_ok xct) xty_plain = true
  /\ ra xct xty_plain
     = "Tuple[Optional[Union[int, str]], Optional[int], DefaultDict[str, Tuple[int, ...]], Tuple[Dict[str, Set[int]], Ellipsis], Generator['XTypedDict__RENAME_ME__', None, List[Type[Optional[int]]]], Tuple[()], Iterator[Union[int, str]], Callable, Any]"
  /\ parse_anno (ra xct xty_plain) = Some (rast xct xty_plain).
Proof.
  assert (H : lexok (cls_plain_ok xct) xty_plain = true) by (vm_compute; reflexivity).
  split; [exact H|]. split; [vm_compute; reflexivity|]. exact (parse_back xct xty_plain H).
Qed.

Example ex_strip_tokenwise :
  mods_ok xmods = true /\ lexok (cls_strip_ok xct xmods) xty = true
  /\ strip_mods xmods (ra xct xty)
     = "Tuple[Optional[Union[A, B]], Optional[utils], DefaultDict[str, Tuple[Outer.Inner, ...]], Tuple[Dict[str, Set[StringIO]], Ellipsis], Generator['XTypedDict__RENAME_ME__', None, List[Type[Optional[int]]]], Tuple[()], Iterator[Union[int, str, A]], Callable, Any]"
  /\ strip_mods xmods (ra xct xty) = ra (strip_ct xmods xct) xty
  /\ parse_anno (strip_mods xmods (ra xct xty)) = Some (rast xct xty)
  /\ tokenwise xct xmods xty = true.
Proof.
  assert (Hm : mods_ok xmods = true) by (vm_compute; reflexivity).
  assert (H : lexok (cls_strip_ok xct xmods) xty = true) by (vm_compute; reflexivity).
  assert (H' : lexok (cls_both_ok xct xmods) xty = true) by (vm_compute; reflexivity).
  split; [exact Hm|]. split; [exact H|]. split; [vm_compute; reflexivity|].
  split; [exact (proj1 (strip_tokenwise xct xmods xty Hm H'))|].
  split; [exact (tokenwise_holds xct xmods xty Hm H)|]. vm_compute; reflexivity.
Qed.

Example ex_resolves_text_uncond :
  eval_text xct xns (strip_mods xmods (ra xct xty)) = Some (evt xty) /\ corrb xty (evt xty) = true.
Proof.
  split; [|vm_compute; reflexivity].
  apply resolves_text_uncond; try (vm_compute; reflexivity).
  - split; [reflexivity|]. split; [reflexivity|].
    intros k Hk. cbn in Hk. repeat (destruct Hk as [<-|Hk]; [reflexivity|]). destruct Hk.
  - intros c Hc Hn. cbn in Hc.
    repeat (destruct Hc as [<-|Hc]; [first [vm_compute; reflexivity | exfalso; apply Hn; reflexivity]|]).
    destruct Hc.
Qed.

(* ---- counterexamples: what the side conditions exclude ---- *)
(* module `a` with nested class b.C next to module `a.b`: the text a.b.C is ambiguous; the longest-module
   rule strips `a.b.` and leaves C, which is not the class's qualname.  cls_strip_ok is false. *)
Example ex_strip_ambiguous :
  let mods := ["a"; "a.b"] in
  cls_strip_ok xct mods 31%N = false
  /\ strip_mods mods (ra xct (TDict (TCls 31%N) (TCls 32%N))) = "Dict[C, D]"
  /\ tokenwise xct mods (TCls 31%N) = false
  /\ cls_both_ok xct mods 31%N = true      (* strip_tokenwise still applies: the text IS ra (strip_ct ..) *)
  /\ cls_strip_ok xct ["a"] 31%N = true.   (* without the longer module the class is fine *)
Proof. vm_compute. repeat split; reflexivity. Qed.

(* a generated class name containing "NoneType" (hint none_type): the forward reference is rewritten by the
   global NoneType -> None substitution, twice below one generic; the class stub keeps the real name *)
Example ex_fwd_nonetype :
  td_class_name "none_type" = "NoneTypeTypedDict__RENAME_ME__"
  /\ fwd_name_ok "NoneTypeTypedDict__RENAME_ME__" = false
  /\ ra xct (TList (TFwd "NoneTypeTypedDict__RENAME_ME__")) = "List['NonedDict__RENAME_ME__']".
Proof. vm_compute. repeat split; reflexivity. Qed.

(* the known classes kf_nonetype_in_name / kf_typing_in_name are excluded by cls_lex *)
Example ex_lex_excluded :
  cls_lex xct 33%N = false /\ cls_lex xct 34%N = false
  /\ ra xct (TList (TCls 33%N)) = "List[foo.MyNoneX]" /\ ra xct (TList (TCls 34%N)) = "List[myQ]".
Proof. vm_compute. repeat split; reflexivity. Qed.

(* the global, directly checkable form: text_ok, and the syntactic sufficient condition for strip_exact *)
Example ex_text_ok :
  ok xty = true /\ text_ok xct xmods xty = false       (* xct contains the two excluded classes 33, 34 ... *)
  /\ text_ok (firstn 11 xct) xmods xty = true           (* ... without them it is lexically sane *)
  /\ forallb (strip_syn_ok xct xmods) (tcls xty) = true
  /\ strip_syn_ok xct ["a"; "a.b"] 31%N = false /\ strip_syn_ok xct ["a"] 31%N = true
  /\ strip_syn_ok xct ["utils"] 19%N = false           (* pkg.utils.B when only `utils` is stripped *)
  /\ tokenwise (firstn 11 xct) xmods xty = true.
Proof.
  assert (Hok : ok xty = true) by (vm_compute; reflexivity).
  assert (H : text_ok (firstn 11 xct) xmods xty = true) by (vm_compute; reflexivity).
  split; [exact Hok|]. split; [vm_compute; reflexivity|]. split; [exact H|].
  split; [vm_compute; reflexivity|]. split; [vm_compute; reflexivity|]. split; [vm_compute; reflexivity|].
  split; [vm_compute; reflexivity|]. exact (tokenwise_true _ _ _ Hok H).
Qed.

Print Assumptions parse_back.
Print Assumptions parse_back_qualified.
Print Assumptions strip_tokenwise.
Print Assumptions tokenwise_holds.
Print Assumptions resolves_text_uncond.
Print Assumptions resolves_text_plain.
Print Assumptions resolves_text_checked.
Print Assumptions parse_back_checked.
Print Assumptions tokenwise_true.
Print Assumptions strip_syn_exact.
Print Assumptions wf_names_dotted.
