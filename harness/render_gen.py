"""C11 case generator: directed corpus (the DESIGN appendix B-11 shapes and every generic kind) followed by a seeded
random stream.  A case = {own, fns:[{key, self, params, args:[[name, ty]], ret, yield}], label}; `ty` is a JSON tree
over the pool of harness.render_fixture."""
import itertools

from harness.render_fixture import ALIASES, FUNC_SHAPES, LONG, POOL, STDLIB_UNDERSCORE, TARGETS

IDX = {mq: i for i, mq in enumerate(POOL)}


def C(m, q):
    return ["cls", IDX[(m, q)]]


INT, STR, BOOL, FLOAT, BYTES, NONE = (C("builtins", n) for n in ("int", "str", "bool", "float", "bytes", "NoneType"))
ANY, CALLABLE = ["any"], ["callable"]
BUILTINS = [INT, STR, BOOL, FLOAT, BYTES]
EXOTIC = {IDX[("foo", "MyNoneTypeX")], IDX[("mytyping", "Q")], IDX[("mytyping", "K")]}


def L(t): return ["list", t]
def S(t): return ["set", t]
def D(k, v): return ["dict", k, v]
def DD(k, v): return ["ddict", k, v]
def T(*ts): return ["tuple", list(ts)]
def TV(t): return ["tuplevar", t]
def U(*ts): return ["union", list(ts)]
def G(y, s, r): return ["gen", y, s, r]
def IT(t): return ["iter", t]
def TY(t): return ["type", t]
def TD(req=None, opt=None): return ["td", [list(x) for x in (req or {}).items()], [list(x) for x in (opt or {}).items()]]


def fn(key, args=None, ret=None, yld=None):
    params, has_self = FUNC_SHAPES[key]
    return {"key": key, "self": has_self, "params": [list(p) for p in params],
            "args": [list(x) for x in (args or {}).items()], "ret": ret, "yield": yld}


def case(own, fns, label):
    return {"own": own, "fns": fns, "label": label}


def directed():
    A, UU, UI, OUT, OIN, DEEP = (C("utils", q) for q in ("A", "utils", "utils.Inner", "Outer", "Outer.Inner", "Outer.Inner.Deep"))
    P, B, CC, POUT = C("pkg", "P"), C("pkg.utils", "B"), C("pkg.utils", "C"), C("pkg.utils", "Outer")
    BAZ, OTHER, NTX = C("foo", "Baz"), C("foo", "Other"), C("foo", "MyNoneTypeX")
    BBAZ, QUX = C("barfoo", "Baz"), C("barfoo", "Qux")
    Q = C("mytyping", "Q")
    SIO, BIO = C("_io", "StringIO"), C("_io", "BytesIO")
    td1 = TD({"x": INT})
    td2 = TD({"x": INT, "y": STR}, {"z": NONE})
    td3 = TD(None, {"x": BOOL})
    tdn = TD({"inner": TD({"x": INT}), "y": STR})
    out = [
        # --- module names that are dotted / textual suffixes of one another (B-11 a, b) ---
        case("foo", [fn("g3", {"a": A, "b": B})], "a:utils+pkg.utils"),
        case("foo", [fn("g3", {"a": B, "b": A})], "a:pkg.utils+utils"),
        case("barfoo", [fn("g3", {"a": A, "b": L(B), "c": D(STR, CC)}, U(A, B, NONE))], "a:nested"),
        case("utils", [fn("f2", {"a": B, "b": A})], "a:own=utils"),
        case("pkg", [fn("f2", {"a": B, "b": P})], "a:own=pkg,import pkg.utils"),
        case("pkg.utils", [fn("f2", {"a": P, "b": B})], "a:own=pkg.utils,import pkg"),
        case("mytyping", [fn("g3", {"a": P, "b": B, "c": A})], "a:pkg+pkg.utils+utils"),
        case("utils", [fn("g3", {"a": BAZ, "b": QUX})], "b-text:foo+barfoo"),
        case("utils", [fn("g3", {"a": QUX, "b": OTHER}, T(BAZ, QUX))], "b-text:barfoo+foo"),
        case("foo", [fn("f2", {"a": QUX, "b": BAZ})], "b-text:own=foo"),
        case("utils", [fn("g3", {"a": BAZ, "b": BBAZ})], "b:same root name"),
        case("utils", [fn("g3", {"a": OUT, "b": L(TY(OIN)), "c": POUT})], "b:Outer twice"),
        case("foo", [fn("f2", {"a": C("utils", "K"), "b": INT})], "b:own K vs imported K"),
        # --- nested classes, class named like its module ---
        case("foo", [fn("g3", {"a": OIN, "b": DEEP, "c": OUT}, TY(OIN))], "nested"),
        case("foo", [fn("g3", {"a": UU, "b": UI, "c": L(UU)}, D(STR, UI))], "class named like module"),
        case("utils", [fn("g3", {"a": UU, "b": UI, "c": A}), fn("K.m1", {"a": OIN, "b": DEEP})], "own module, nested"),
        # --- _io, every generic kind ---
        case("foo", [fn("g3", {"a": SIO, "b": BIO, "c": L(SIO)}, U(SIO, NONE))], "_io"),
        case("foo", [fn("g3", {"a": U(INT, NONE), "b": U(INT, NONE, STR), "c": TY(BAZ)}, CALLABLE)], "optional/type/callable"),
        case("foo", [fn("g3", {"a": T(), "b": TV(INT), "c": T(INT, STR, BAZ)}, None, INT)], "tuples, iterator"),
        case("foo", [fn("f1", {"a": DD(STR, INT), "b": INT}, INT, STR), fn("f0", {"a": ANY}, NONE, BAZ)], "generator/iterator"),
        case("foo", [fn("g3", {"a": IT(ANY), "b": G(INT, NONE, STR), "c": S(U(INT, STR))}, L(ANY))], "iter/gen/set"),
        case("foo", [fn("g3", {"a": IT(U(INT, NONE, STR)), "b": DD(STR, U(INT, NONE)), "c": TY(ANY)}, DD(INT, L(T())))], "repr route"),
        case("foo", [fn("g3", {"a": DD(STR, TV(INT)), "b": IT(T()), "c": DD(A, L(B))}, TY(U(A, B)))], "repr route, user classes"),
        case("foo", [fn("f1", {"a": INT, "b": STR}), fn("f2", {"a": U(INT, NONE), "b": ANY, "c": BAZ}),
                     fn("K.m1", {"a": L(INT), "b": U(STR, NONE)}, BOOL)], "None defaults"),
        # a `= None` default whose annotation is the ONLY reason the module stub needs `Optional`
        # (render_parameter wraps in Optional[...]; get_imports_for_signature must import it): Any, class, Union, generic
        case("foo", [fn("f1", {"a": INT, "b": ANY})], "None default only Optional: Any"),
        case("foo", [fn("f1", {"b": ANY})], "None default only Optional: Any, alone"),
        case("utils", [fn("K.m1", {"a": STR, "b": ANY}, INT), fn("f0", {"a": ANY}, ANY)], "None default only Optional: Any, method"),
        case("pkg", [fn(LONG, {"first_parameter": INT, "second_parameter": ANY})], "None default only Optional: Any, wrapped"),
        case("foo", [fn("f1", {"a": INT, "b": BAZ})], "None default only Optional: own class"),
        case("foo", [fn("f1", {"a": INT, "b": A})], "None default only Optional: class"),
        case("foo", [fn("f1", {"a": INT, "b": U(INT, STR)})], "None default only Optional: Union"),
        case("foo", [fn("f1", {"a": INT, "b": L(ANY)}, D(STR, ANY))], "None default only Optional: generic"),
        case("foo", [fn("f1", {"a": INT, "b": NONE})], "None default: NoneType"),
        case("foo", [fn("f1", {"a": ANY, "b": U(ANY, NONE)})], "None default: already Optional[Any]"),
        case("foo", [fn("f1", {"a": INT})], "None default: unannotated"),
        case("foo", [fn(LONG, {"first_parameter": D(STR, L(A)), "second_parameter": T(B, INT)}, U(A, B, NONE))], "wrapped"),
        case("utils", [fn(LONG, {"first_parameter": B, "second_parameter": B}, B)], "wrapped, single after strip"),
        # --- TypedDicts at every container position ---
        case("foo", [fn("g3", {"a": td1, "b": L(td2), "c": D(STR, td3)}, T(INT, td1), td2)], "td basic"),
        case("foo", [fn("g3", {"a": S(td1), "b": U(td1, INT), "c": U(td2, NONE)}, G(td1, NONE, td3))], "td set/union/gen"),
        case("foo", [fn("f1", {"a": tdn, "b": td1}), fn("K.m0", {"a": TV(td2)}, D(td1, td3))], "td nested, methods"),
        case("foo", [fn("f0", {"a": TD({"x": INT}, {"w": TD({"p": STR})})}, L(L(td1)))], "td total+nontotal"),
        # --- finding classes ---
        case("foo", [fn("f0", {"a": DD(STR, td1)})], "c:td under DefaultDict"),
        case("foo", [fn("f0", {"a": L(DD(STR, L(td1)))}, IT(td1))], "c:td under DefaultDict/Iterator"),
        case("utils", [fn("f0", {"a": NTX})], "x:NoneType in name"),
        case("utils", [fn("f0", {"a": L(Q)})], "x:typing in name"),
        case("utils", [fn("f0", {"a": Q})], "x:typing in name, bare"),
        case("foo", [fn("g3", {"a": T(T(INT, td1), td2)})], "x:hint collision tuple"),
        case("foo", [fn("g3", {"a": TD({"v": td1}), "b": TD({"v": td2})})], "x:hint collision field"),
        case("foo", [fn("g3", {"a": TD({"v": td1}), "b": TD({"v": td1})})], "x:hint collision, identical"),
        case("foo", [fn("f0", {"a": TD({"x": A})})], "x:td field needs import"),
        case("foo", [fn("f0", {"a": TD({"x": L(INT)})}, L(INT))], "x:td field typing name"),
        case("foo", [fn("f0", {"a": TD({"x": BAZ})})], "x:td field own class"),
    ]
    return out + wave3()


def wave3():
    """Shapes added after the third wave of seeded changes."""
    BAZ, OTHER = C("foo", "Baz"), C("foo", "Other")
    FOOCLS, FOOIN, QUX = C("barfoo", "foo"), C("barfoo", "foo.Inner"), C("barfoo", "Qux")
    HANDLE = C("_impl", "Handle")
    RLOCK, STRUCT, DIALECT, RANDOM, SQ = (C(m, q) for m, q in (("_thread", "RLock"), ("_struct", "Struct"), ("_csv", "Dialect"),
                                                                ("_random", "Random"), ("_queue", "SimpleQueue")))
    SIO = C("_io", "StringIO")
    REG, ENT_INT, ENT_STR, PAIR = C("shapes", "Registry"), ["alias", 0], ["alias", 1], ["alias", 2]
    Z, ZA, ZAB = C("zed", "Z"), C("zed.a", "ZA"), C("zed.a.b", "ZAB")
    P, B = C("pkg", "P"), C("pkg.utils", "B")
    out = [
        # --- a class named like ANOTHER module, with a nested class, together with that module in one signature ---
        case("utils", [fn("g3", {"a": FOOIN, "b": BAZ})], "w3:class named like another module"),
        case("utils", [fn("g3", {"a": BAZ, "b": FOOIN, "c": FOOCLS})], "w3:class named like another module"),
        case("utils", [fn("g3", {"a": L(FOOIN), "b": TY(FOOIN), "c": D(STR, OTHER)}, U(FOOIN, BAZ, NONE))], "w3:class named like another module"),
        case("foo", [fn("g3", {"a": FOOIN, "b": BAZ, "c": FOOCLS}, DD(STR, FOOIN))], "w3:class named like the target module"),
        case("barfoo", [fn("g3", {"a": FOOIN, "b": OTHER, "c": QUX}, T(FOOCLS, OTHER))], "w3:class named like another module, own"),
        case("utils", [fn("f1", {"a": FOOIN, "b": OTHER}), fn("K.m1", {"a": BAZ, "b": FOOIN}, FOOIN, OTHER)], "w3:class named like another module"),
        # --- underscore modules: only `_io` has the `io` twin the import block names ---
        case("foo", [fn("g3", {"a": RLOCK, "b": STRUCT, "c": HANDLE})], "w3:underscore modules"),
        case("foo", [fn("g3", {"a": DIALECT, "b": RANDOM, "c": SQ}, SIO)], "w3:underscore modules"),
        case("foo", [fn("f1", {"a": L(RLOCK), "b": HANDLE}, D(STR, SQ), STRUCT)], "w3:underscore modules"),
        case("foo", [fn("f0", {"a": RLOCK})], "w3:underscore modules, _thread alone"),
        case("foo", [fn("f0", {"a": HANDLE})], "w3:underscore modules, user module alone"),
        case("_impl", [fn("g3", {"a": HANDLE, "b": RLOCK, "c": SIO}), fn("K.m1", {"a": DIALECT, "b": HANDLE})], "w3:underscore target module"),
        # --- subscripted user generics nested in a class (rendered by repr(), imported by their root class) ---
        case("foo", [fn("f0", {"a": ENT_INT})], "w3:nested generic alias alone"),
        case("foo", [fn("f0", {"a": L(ENT_STR)})], "w3:nested generic alias in List"),
        case("foo", [fn("g3", {"a": ENT_INT, "b": PAIR, "c": REG}, D(STR, ENT_STR))], "w3:nested generic alias"),
        case("foo", [fn("f1", {"a": DD(STR, ENT_INT), "b": ENT_STR}, TY(C("shapes", "Registry.Entry")), PAIR)], "w3:nested generic alias, repr route"),
        case("shapes", [fn("f1", {"a": ENT_INT, "b": PAIR}, L(ENT_STR))], "w3:nested generic alias, own module"),
        case("foo", [fn("f0", {"a": C("shapes", "Registry.Entry")}, C("shapes", "Registry.Pair"))], "w3:nested generic class, unsubscripted"),
    ]
    # --- a package, its sub-package and a module below it in ONE signature, every order, several target modules ---
    for own in ("foo", "zed", "zed.a", "zed.a.b"):
        for perm in itertools.permutations([Z, ZA, ZAB]):
            out.append(case(own, [fn("g3", dict(zip("abc", perm)))], "w3:package chain"))
    out += [case("foo", [fn("g3", {"a": ZAB, "b": Z})], "w3:package chain, two"),
            case("foo", [fn("g3", {"a": Z, "b": ZAB}, ZA)], "w3:package chain, return"),
            case("zed", [fn("f1", {"a": L(ZAB), "b": ZA}, D(Z, ZAB))], "w3:package chain, nested"),
            case("pkg", [fn("g3", {"a": P, "b": B, "c": ZA}, Z)], "w3:two packages")]
    # --- functions WITHOUT parameters: the return (and yield) annotation is the only thing that can ask for an import or
    #     put a module into the prefixes to strip; as the only user of that module in the stub ---
    A_, UIN = C("utils", "A"), C("utils", "utils.Inner")
    out += [
        case("foo", [fn("z0", {}, QUX)], "w5:no parameters, imported class"),
        case("foo", [fn("z0", {}, BAZ)], "w5:no parameters, own class"),
        case("barfoo", [fn("z0", {}, FOOIN)], "w5:no parameters, own nested class"),
        case("utils", [fn("z0", {}, UIN)], "w5:no parameters, class named like own module"),
        case("foo", [fn("z0", {}, None, ZAB)], "w5:no parameters, yield imported class"),
        case("foo", [fn("z0", {}, A_, BAZ)], "w5:no parameters, generator"),
        case("foo", [fn("z0", {}, DD(STR, L(INT)))], "w5:no parameters, typing only"),
        case("foo", [fn("z0", {}, U(B, NONE))], "w5:no parameters, Optional imported class"),
        case("foo", [fn("z0", {}, TD({"x": INT}))], "w5:no parameters, TypedDict"),
        case("foo", [fn("z0", {}, ENT_INT)], "w5:no parameters, nested generic alias"),
        case("foo", [fn("z0", {}, RLOCK), fn("f0", {"a": INT})], "w5:no parameters, next to another function"),
        case("foo", [fn("z0", {}, BAZ), fn("f0", {"a": OTHER})], "w5:no parameters, own class, next to another function"),
        case("zed.a", [fn("z0", {}, T(Z, ZA, ZAB))], "w5:no parameters, package chain"),
    ]
    # --- wave 7: a functools.cached_property method (a plain method for MonkeyType: no decorator may appear that the stub
    #     does not provide); positional-only + *args + keyword-only + **kwargs signatures (the stub must parse and every
    #     annotation resolve); a module path with a component called `typing` ---
    SHAPE = C("zed.typing", "Shape")
    out += [
        case("foo", [fn("K.cp0", {}, BAZ)], "w7:cached_property method"),
        case("foo", [fn("K.cp0", {}, L(QUX)), fn("K.m0", {"a": INT}, STR)], "w7:cached_property method"),
        case("utils", [fn("K.cp0", {}, INT), fn("f0", {"a": A_})], "w7:cached_property method"),
        case("foo", [fn("p3", {"a": INT, "rest": STR, "k": BOOL}, STR)], "w7:positional-only, *args, keyword-only"),
        case("foo", [fn("p3", {"a": A_, "rest": B, "k": BAZ}, L(QUX))], "w7:positional-only, *args, keyword-only"),
        case("foo", [fn("p3", {"a": INT}, None)], "w7:positional-only, *args, keyword-only, one annotated"),
        case("utils", [fn("p5", {"a": INT, "b": L(A_), "rest": STR, "k": BAZ, "kw": U(INT, NONE)}, D(STR, B))], "w7:all parameter kinds"),
        case("zed", [fn("p5", {"a": Z, "b": ZA, "rest": ZAB, "k": INT, "kw": STR}), fn("f0", {"a": Z})], "w7:all parameter kinds"),
        case("foo", [fn("f0", {"a": SHAPE})], "w7:module path with a typing component, bare"),
        case("foo", [fn("g3", {"a": SHAPE, "b": Z, "c": BAZ}, SHAPE)], "w7:module path with a typing component, bare"),
        case("zed.typing", [fn("f1", {"a": SHAPE, "b": SHAPE}, SHAPE)], "w7:module path with a typing component, own"),
        case("zed", [fn("z0", {}, SHAPE)], "w7:module path with a typing component, package target"),
        case("foo", [fn("f0", {"a": L(SHAPE)})], "x:typing component in a generic"),
    ]
    # --- wave 8 ---
    BIO, UNSUP = C("_io", "BytesIO"), C("io", "UnsupportedOperation")
    NODE, UNODE, LEAF, ULEAF, UUTREE, TREE = (C("tree", q) for q in ("Node", "_Node", "Leaf", "_Leaf", "__Tree", "Tree"))
    out += [
        # `_io` and `io` classes in one module stub: two `from io import` lines, every name bound
        case("foo", [fn("g3", {"a": SIO, "b": UNSUP, "c": BIO})], "w8:_io and io in one stub"),
        case("foo", [fn("f0", {"a": UNSUP}), fn("K.m0", {"a": SIO})], "w8:_io and io in one stub"),
        case("foo", [fn("z0", {}, D(STR, UNSUP), BIO)], "w8:_io and io in one stub"),
        case("foo", [fn("f0", {"a": UNSUP})], "w8:io alone"),
        # a None default on a parameter whose NON-union generic type has NoneType among its arguments
        case("foo", [fn("f1", {"a": INT, "b": D(STR, NONE)})], "w8:None default, Dict[str, None]"),
        case("foo", [fn("f1", {"b": T(INT, NONE)})], "w8:None default, Tuple[int, None]"),
        case("foo", [fn("f1", {"b": L(NONE)})], "w8:None default, List[None]"),
        case("foo", [fn("K.m1", {"a": STR, "b": G(INT, NONE, NONE)})], "w8:None default, Generator[int, None, None]"),
        case("foo", [fn(LONG, {"second_parameter": DD(STR, NONE)})], "w8:None default, DefaultDict[str, None]"),
        case("foo", [fn("f1", {"b": TV(NONE)})], "w8:None default, Tuple[None, ...]"),
        case("foo", [fn("f1", {"b": TY(NONE)})], "w8:None default, Type[None]"),
        # names of one module that differ only in leading underscores (rendered under several hash seeds)
        case("foo", [fn("g3", {"a": NODE, "b": UNODE, "c": LEAF})], "w8:underscore twins"),
        case("foo", [fn("g3", {"a": ULEAF, "b": LEAF, "c": UUTREE}, TREE)], "w8:underscore twins"),
        case("utils", [fn("f2", {"a": UNODE, "b": NODE, "c": ULEAF}, T(LEAF, UUTREE, TREE))], "w8:underscore twins"),
        case("utils", [fn("z0", {}, U(UNODE, NODE))], "w8:underscore twins"),
        case("foo", [fn("K.m1", {"a": UUTREE, "b": TREE})], "w8:underscore twins"),
    ]
    # a StubIndexBuilder asked for stubs after every tracing session; later sessions trace the SAME functions again and
    # add types for other parameters / the return value (no new function appears)
    def history(own, sessions, label):
        c = case(own, [f for sess in sessions for f in sess], label)
        c["history"] = sessions
        return c
    out += [
        history("foo", [[fn("f2", {"a": INT})], [fn("f2", {"b": BAZ}, STR)]], "w8:builder history"),
        history("foo", [[fn("f2", {"a": INT}), fn("K.m1", {"a": QUX})], [fn("K.m1", {"b": L(BAZ)}, A_)], [fn("f2", {"c": Z})]],
                "w8:builder history"),
        history("utils", [[fn("g3", {"a": A_})], [fn("g3", {"a": A_, "b": D(STR, B)})], [fn("g3", {"c": T()}, DD(STR, INT))]],
                "w8:builder history"),
        history("foo", [[fn("f0", {"a": INT})], [fn("f0", {}, QUX), fn("K.m0", {"a": STR})]], "w8:builder history, new function too"),
        history("foo", [[fn("f0", {"a": INT}, STR)]], "w8:builder history, one session"),
    ]
    # --- every typing name at every kind of position, as the ONLY annotation of the module stub: whatever the text uses
    #     must be imported because of this one position (imports are merged module-wide, so any second user masks a miss) ---
    kinds = {"List": L(INT), "Set": S(INT), "Dict": D(STR, INT), "DefaultDict": DD(STR, INT), "Tuple": T(INT, STR), "Tuple0": T(),
             "TupleVar": TV(INT), "Type": TY(INT), "Iterator": IT(INT), "Generator": G(INT, NONE, STR), "Callable": CALLABLE,
             "Any": ANY, "Union": U(INT, STR), "Optional": U(INT, NONE), "Union3None": U(INT, NONE, STR), "class": BAZ}
    for name, k in kinds.items():
        positions = {
            "param": fn("f0", {"a": k}), "None default": fn("f1", {"b": k}), "method None default": fn("K.m1", {"b": k}),
            "return": fn("f0", {}, k), "yield": fn("f0", {}, None, k), "yield+return": fn("f0", {}, STR, k),
            "return, no parameters": fn("z0", {}, k), "yield, no parameters": fn("z0", {}, None, k),
            "return of generator": fn("f0", {}, k, STR),
            "under Optional": fn("f0", {"a": U(k, NONE)}), "under DefaultDict": fn("f0", {"a": DD(STR, k)}),
            "under List": fn("f0", {"a": L(k)}), "under Dict, wrapped": fn(LONG, {"second_parameter": D(STR, k)}),
        }
        for pos, f in positions.items():
            out.append(case("utils", [f], f"w3:sole user:{name} {pos}"))
    return out


def CU(*ts):
    """Union with a canonical member order (flattened, deduplicated, sorted): within one random case two unions with the
    same member set then have the same order, so typing's ==-keyed parametrisation cache cannot swap members between
    the traced type and an alias the renderer builds later (Optional[...] for a None default)."""
    import json
    flat = []
    for t in ts:
        flat += t[1] if t[0] == "union" else [t]
    seen, out = set(), []
    for t in sorted(flat, key=lambda x: json.dumps(x, sort_keys=True)):
        k = json.dumps(t, sort_keys=True)
        if k not in seen:
            seen.add(k)
            out.append(t)
    return out[0] if len(out) == 1 else ["union", out]


class Gen:
    def __init__(self, rnd):
        self.rnd = rnd
        self.fresh = 0

    def leaf(self, classes):
        r = self.rnd.random()
        if r < 0.55 and classes:
            c = self.rnd.choice(classes)
            if POOL[c][0] == "shapes" and POOL[c][1] != "K" and self.rnd.random() < 0.5:
                return ["alias", self.rnd.randrange(len(ALIASES))]
            return ["cls", c]
        if r < 0.9:
            return self.rnd.choice(BUILTINS)
        if r < 0.95:
            return ANY
        return self.rnd.choice([CALLABLE, NONE])

    def td(self, depth, mode, classes):
        nreq = self.rnd.choice([0, 1, 1, 2])
        nopt = self.rnd.choice([0, 0, 1]) if nreq else self.rnd.choice([1, 2])
        names = self.rnd.sample(["x", "y", "z", "foo_bar", "k2", "w"], nreq + nopt)
        fields = []
        for n in names:
            if depth > 0 and self.rnd.random() < 0.25:
                self.fresh += 1
                n = f"n{self.fresh}" if mode == 1 else n
                ft = self.td(depth - 1, mode, classes)
            elif mode == 1:
                ft = self.rnd.choice(BUILTINS + [NONE])
            else:
                ft = self.ty(min(depth, 1), classes, mode)
            fields.append((n, ft))
        return ["td", [list(f) for f in fields[:nreq]], [list(f) for f in fields[nreq:]]]

    def ty(self, depth, classes, mode, descended=True):
        """mode 0: no TypedDicts; 1: clean TypedDicts (descended positions, builtin / nested fields); 2: anything"""
        r = self.rnd.random()
        if depth <= 0 or r < 0.25:
            return self.leaf(classes)
        if mode and r < 0.42 and (descended or mode == 2):
            return self.td(depth - 1, mode, classes)
        d = depth - 1
        k = self.rnd.choice(["list", "set", "dict", "ddict", "tuple", "tuple0", "tuplevar", "union", "opt", "gen",
                             "iter", "type", "list", "dict", "tuple", "union"])
        sub = lambda desc=True: self.ty(d, classes, mode, descended and desc)
        if k == "list":
            return L(sub())
        if k == "set":
            return S(sub())
        if k == "dict":
            return D(self.rnd.choice([STR, INT, self.leaf(classes)]), sub())
        if k == "ddict":
            return DD(STR, sub(False))
        if k == "tuple":
            return T(*[sub() for _ in range(self.rnd.choice([1, 2, 2, 3]))])
        if k == "tuple0":
            return T()
        if k == "tuplevar":
            return TV(sub())
        if k == "union":
            return CU(*[sub() for _ in range(self.rnd.choice([2, 2, 3]))])
        if k == "opt":
            return CU(sub(), NONE)
        if k == "gen":
            return G(sub(), NONE, self.rnd.choice([NONE, INT, sub()]))
        if k == "iter":
            return IT(sub(False))
        return TY(self.leaf(classes) if self.rnd.random() < 0.8 else ANY)

    def case(self, i):
        rnd = self.rnd
        own = rnd.choice(TARGETS)
        wild = rnd.random() < 0.3
        mods = rnd.sample([m for m in TARGETS + STDLIB_UNDERSCORE], rnd.choice([1, 2, 2, 3]))
        if own not in mods and rnd.random() < 0.5:
            mods.append(own)
        classes = [i for i, (m, q) in enumerate(POOL) if m in mods and (q != "K" or (wild and rnd.random() < 0.2))]
        if not wild:
            # keep clean cases clean: one class per root name, none of the exotic names
            seen, keep = set(), []
            own_roots = {q.split(".")[0] for m, q in POOL if m == own}
            for c in classes:
                m, q = POOL[c]
                root = q.split(".")[0]
                if c in EXOTIC or (root in seen and (m, root) not in seen) or (m != own and root in own_roots) or "typing" in m:
                    continue
                seen.add(root)
                seen.add((m, root))
                keep.append(c)
            classes = keep
        mode = 2 if wild else rnd.choice([0, 0, 1])
        keys = rnd.sample(sorted(FUNC_SHAPES), rnd.choice([1, 1, 2, 3]))
        fns = []
        for key in keys:
            params, has_self = FUNC_SHAPES[key]
            args = {}
            for n, d in params[1 if has_self else 0:]:
                if d == 1 and rnd.random() < 0.35:
                    # a None default: the Optional[...] wrapping and its import; Any / class / Union / plain generic
                    k = rnd.random()
                    args[n] = (ANY if k < 0.4 else self.leaf(classes) if k < 0.6
                               else CU(self.leaf(classes), self.rnd.choice(BUILTINS)) if k < 0.8 else L(ANY))
                elif rnd.random() < 0.85:
                    args[n] = self.ty(rnd.choice([0, 1, 2, 2, 3]), classes, mode)
            ret = self.ty(rnd.choice([0, 1, 2]), classes, mode) if rnd.random() < 0.6 else None
            yld = self.ty(rnd.choice([0, 1]), classes, mode) if rnd.random() < 0.25 else None
            fns.append(fn(key, args, ret, yld))
        return case(own, fns, "wild" if wild else f"clean{mode}")


def generate(rnd, n_random):
    g = Gen(rnd)
    return directed() + [g.case(i) for i in range(n_random)]
