(* Model/Encode.v — the JSON codec of monkeytype/encoding.py (type_to_dict, typed_dict_to_dict,
   type_from_dict, typed_dict_from_dict, type_to_json/type_from_json, arg_types_*_json,
   maybe_encode_type/maybe_decode_type, CallTraceRow.from_trace/to_trace, serialize_traces) and
   util.get_name_in_module / get_func_in_module.  Executable definitions only; proofs in Proofs/Encode*.v.

   What is external behaviour enters as Section variables:
     cname  : class number -> (__module__, __qualname__) of the class object
     fname  : function number -> (__module__, __qualname__) of the function object
     env    : module -> qualname -> what importlib.import_module + the getattr walk finds
     hidden : the class number behind a key of encoding._HIDDEN_BUILTIN_TYPES
     site   : __module__ of the anonymous TypedDict classes below the type being encoded, i.e. the
              module whose code called TypedDict(...) ("monkeytype.typing" for freshly inferred or
              rewritten types, "monkeytype.encoding" for decoded ones) — DESIGN B-7. *)
From MT Require Export Types.
From MT Require Import Constants.
Open Scope string_scope.
Open Scope list_scope.

(* ---------- results: every exception the real code can raise is explicit ---------- *)
Inductive exn := AttributeError | KeyError | TypeError | NameLookupError | InvalidTypeError | OtherError.
Inductive result (A : Type) :=
| Ok (a : A)
| Raises (e : exn)
| OutOfModel.          (* the input is outside what this model represents (never an answer about the code) *)
Arguments Ok {A} a.
Arguments Raises {A} e.
Arguments OutOfModel {A}.

Definition exn_eqb (a b : exn) : bool :=
  match a, b with
  | AttributeError, AttributeError | KeyError, KeyError | TypeError, TypeError
  | NameLookupError, NameLookupError | InvalidTypeError, InvalidTypeError => true
  | _, _ => false      (* OtherError equals nothing: an unrecognised exception never matches the model *)
  end.

Definition rbind {A B} (r : result A) (f : A -> result B) : result B :=
  match r with Ok a => f a | Raises e => Raises e | OutOfModel => OutOfModel end.

(* first failure in list order, as a comprehension evaluated left to right raises it *)
Fixpoint sequence {A} (l : list (result A)) : result (list A) :=
  match l with
  | [] => Ok []
  | r :: rest => rbind r (fun a => rbind (sequence rest) (fun l' => Ok (a :: l')))
  end.

Fixpoint sequence_kv {A} (l : list (string * result A)) : result (list (string * A)) :=
  match l with
  | [] => Ok []
  | kr :: rest => rbind (snd kr) (fun a => rbind (sequence_kv rest) (fun l' => Ok ((fst kr, a) :: l')))
  end.

(* ---------- JSON trees (what json.loads returns / json.dumps receives) ---------- *)
Inductive json :=
| JNull
| JBool (b : bool)
| JStr (s : string)
| JArr (l : list json)
| JObj (kvs : list (string * json))
| JOpaque.             (* numbers: never produced by the encoder; the decoder model declines them *)

Fixpoint json_eqb (a b : json) {struct a} : bool :=
  match a, b with
  | JNull, JNull => true
  | JBool x, JBool y => Bool.eqb x y
  | JStr x, JStr y => String.eqb x y
  | JArr xs, JArr ys =>
      (fix leq (xs ys : list json) : bool :=
         match xs, ys with
         | [], [] => true
         | x :: xs', y :: ys' => json_eqb x y && leq xs' ys'
         | _, _ => false end) xs ys
  | JObj xs, JObj ys =>
      (fix feq (xs ys : list (string * json)) : bool :=
         match xs, ys with
         | [], [] => true
         | x :: xs', y :: ys' => String.eqb (fst x) (fst y) && json_eqb (snd x) (snd y) && feq xs' ys'
         | _, _ => false end) xs ys
  | _, _ => false      (* JOpaque equals nothing *)
  end.

(* json.dumps(..., sort_keys=True) followed by json.loads, on the tree: keys sorted at every level *)
Fixpoint insert_kv {A} (k : string) (v : A) (l : list (string * A)) : list (string * A) :=
  match l with
  | [] => [(k, v)]
  | kv :: r => if String.leb k (fst kv) then (k, v) :: l else kv :: insert_kv k v r
  end.

Fixpoint sort_kv {A} (l : list (string * A)) : list (string * A) :=
  match l with
  | [] => []
  | kv :: r => insert_kv (fst kv) (snd kv) (sort_kv r)
  end.

Fixpoint jsort (j : json) : json :=
  match j with
  | JArr l => JArr (map jsort l)
  | JObj kvs => JObj (sort_kv (map (fun kv => (fst kv, jsort (snd kv))) kvs))
  | _ => j
  end.

(* the field-sorted form of a type: what survives json.dumps(sort_keys=True) of its encoding.  Two types with
   the same canon differ only in the order in which TypedDicts list their fields. *)
Fixpoint canon (t : ty) : ty :=
  match t with
  | TAny | TCls _ | TCallable | TFwd _ => t
  | TType x => TType (canon x)
  | TList x => TList (canon x)
  | TSet x => TSet (canon x)
  | TIterator x => TIterator (canon x)
  | TTupleVar x => TTupleVar (canon x)
  | TDict k v => TDict (canon k) (canon v)
  | TDefaultDict k v => TDefaultDict (canon k) (canon v)
  | TTuple ts => TTuple (map canon ts)
  | TUnion ts => TUnion (map canon ts)
  | TGenerator a b c => TGenerator (canon a) (canon b) (canon c)
  | TTypedDict r o => TTypedDict (sort_kv (map (fun f => (fst f, canon (snd f))) r))
                                 (sort_kv (map (fun f => (fst f, canon (snd f))) o))
  end.

(* ---------- the Python objects a name can resolve to ---------- *)
Inductive generic :=
| GUnion | GList | GSet | GDict | GDefaultDict | GTuple | GType | GIterator | GGenerator | GCallable
| GOther (name : string).      (* any other typing alias for which compat.is_generic is true *)

Definition gen_name (g : generic) : string :=
  match g with
  | GUnion => "Union" | GList => "List" | GSet => "Set" | GDict => "Dict" | GDefaultDict => "DefaultDict"
  | GTuple => "Tuple" | GType => "Type" | GIterator => "Iterator" | GGenerator => "Generator"
  | GCallable => "Callable" | GOther n => n
  end%string.

Definition fid := N.

Inductive pyobj :=
| OClass (c : cls)                       (* isinstance(o, type) *)
| OAny                                   (* typing.Any *)
| OGen (g : generic)                     (* is_generic(o): a typing alias or typing.Union *)
| OFunc (f : fid)                        (* types.FunctionType *)
| OBuiltin (f : fid)                     (* types.BuiltinFunctionType *)
| OBound (inner : pyobj)                 (* types.MethodType; inner = __func__ *)
| OProperty (fget : option pyobj) (has_fset has_fdel : bool)
| OWrapper (qn : option string) (inner : pyobj)
                                         (* any object with __wrapped__ = inner; qn = its own __qualname__ if it has one *)
| OOther (qn : option string).           (* anything else; qn = its __qualname__ if it has one *)

Inductive lookup :=
| LNoModule                              (* import_module raised ModuleNotFoundError *)
| LNoAttr                                (* some getattr along the qualname raised AttributeError *)
| LFound (o : pyobj)
| LUnknown.                              (* the oracle table has no row for this name (harness gap) *)

Fixpoint pyobj_eqb (a b : pyobj) {struct a} : bool :=
  match a, b with
  | OClass c, OClass d => N.eqb c d
  | OAny, OAny => true
  | OGen g, OGen g' => String.eqb (gen_name g) (gen_name g')
  | OFunc f, OFunc g => N.eqb f g
  | OBuiltin f, OBuiltin g => N.eqb f g
  | OBound x, OBound y => pyobj_eqb x y
  | OWrapper _ x, OWrapper _ y => pyobj_eqb x y
  | OProperty g s d, OProperty g' s' d' =>
      match g, g' with
      | Some x, Some y => pyobj_eqb x y
      | None, None => true
      | _, _ => false end && Bool.eqb s s' && Bool.eqb d d'
  | _, _ => false                        (* OOther equals nothing *)
  end.

(* ---------- literal keys and names ---------- *)
Definition k_module : string := "module".
Definition k_qualname : string := "qualname".
Definition k_elem : string := "elem_types".
Definition k_istd : string := "is_typed_dict".
Definition k_required : string := "required_fields".     (* typing.py:62 *)
Definition k_optional : string := "optional_fields".     (* typing.py:65 *)
Definition m_typing : string := "typing".
Definition m_builtins : string := "builtins".

Fixpoint assoc_str (k : string) (l : list (string * string)) : string :=
  match l with
  | [] => ""
  | kv :: r => if String.eqb k (fst kv) then snd kv else assoc_str k r
  end.

(* regenerated from typing.py on every run (Gen/Constants.v) *)
Definition dummy_td_name : string := assoc_str "DUMMY_TYPED_DICT_NAME" dummy_names.
Definition dummy_req_name : string := assoc_str "DUMMY_REQUIRED_TYPED_DICT_NAME" dummy_names.
Definition dummy_opt_name : string := assoc_str "DUMMY_OPTIONAL_TYPED_DICT_NAME" dummy_names.

Definition mem_key (k : string) (l : list (string * string)) : bool :=
  existsb (fun kv => String.eqb k (fst kv)) l.

(* ---------- predicates on types used by statements and verdicts ---------- *)
Fixpoint has_tuplevar (t : ty) : bool :=
  match t with
  | TAny | TCls _ | TCallable | TFwd _ => false
  | TTupleVar _ => true
  | TType x | TList x | TSet x | TIterator x => has_tuplevar x
  | TDict k v | TDefaultDict k v => has_tuplevar k || has_tuplevar v
  | TTuple ts | TUnion ts => existsb has_tuplevar ts
  | TGenerator a b c => has_tuplevar a || has_tuplevar b || has_tuplevar c
  | TTypedDict r o => existsb (fun f => has_tuplevar (snd f)) r || existsb (fun f => has_tuplevar (snd f)) o
  end.

Fixpoint has_fwd (t : ty) : bool :=
  match t with
  | TAny | TCls _ | TCallable => false
  | TFwd _ => true
  | TTupleVar x | TType x | TList x | TSet x | TIterator x => has_fwd x
  | TDict k v | TDefaultDict k v => has_fwd k || has_fwd v
  | TTuple ts | TUnion ts => existsb has_fwd ts
  | TGenerator a b c => has_fwd a || has_fwd b || has_fwd c
  | TTypedDict r o => existsb (fun f => has_fwd (snd f)) r || existsb (fun f => has_fwd (snd f)) o
  end.

(* what get_type / shrink_types can produce and every shipped rewriter except RewriteLargeUnion's
   homogeneous-tuple rule keeps: no Tuple[T, ...], no forward reference *)
Definition encodable (t : ty) : bool := negb (has_tuplevar t) && negb (has_fwd t).

Fixpoint classes (t : ty) : list cls :=
  match t with
  | TAny | TCallable | TFwd _ => []
  | TCls c => [c]
  | TTupleVar x | TType x | TList x | TSet x | TIterator x => classes x
  | TDict k v | TDefaultDict k v => classes k ++ classes v
  | TTuple ts | TUnion ts => flat_map classes ts
  | TGenerator a b c => classes a ++ classes b ++ classes c
  | TTypedDict r o => flat_map (fun f => classes (snd f)) r ++ flat_map (fun f => classes (snd f)) o
  end.

Definition is_tunion (t : ty) : bool := match t with TUnion _ => true | _ => false end.

(* dedup seen ts = ts, as a boolean *)
Fixpoint nodupb (seen ts : list ty) : bool :=
  match ts with
  | [] => true
  | t :: r => negb (negb (has_td t) && existsb (py_eqb t) seen) && nodupb (t :: seen) r
  end.

(* every Union node is in the normal form typing.Union[...] produces: at least two members, none of
   them a Union, no member == an earlier one.  (Every live typing object satisfies it.) *)
Fixpoint union_nfb (t : ty) : bool :=
  match t with
  | TAny | TCls _ | TCallable | TFwd _ => true
  | TTupleVar x | TType x | TList x | TSet x | TIterator x => union_nfb x
  | TDict k v | TDefaultDict k v => union_nfb k && union_nfb v
  | TTuple ts => forallb union_nfb ts
  | TUnion ts => Nat.leb 2 (List.length ts) && forallb (fun x => negb (is_tunion x)) ts
                 && nodupb [] ts && forallb union_nfb ts
  | TGenerator a b c => union_nfb a && union_nfb b && union_nfb c
  | TTypedDict r o => forallb (fun f => union_nfb (snd f)) r && forallb (fun f => union_nfb (snd f)) o
  end.

Fixpoint nodup_strb (l : list string) : bool :=
  match l with
  | [] => true
  | s :: r => negb (existsb (String.eqb s) r) && nodup_strb r
  end.

(* TypedDict field names pairwise distinct across required and optional (make_typed_dict's assert) *)
Fixpoint wf_tyb (t : ty) : bool :=
  match t with
  | TAny | TCls _ | TCallable | TFwd _ => true
  | TTupleVar x | TType x | TList x | TSet x | TIterator x => wf_tyb x
  | TDict k v | TDefaultDict k v => wf_tyb k && wf_tyb v
  | TTuple ts | TUnion ts => forallb wf_tyb ts
  | TGenerator a b c => wf_tyb a && wf_tyb b && wf_tyb c
  | TTypedDict r o => nodup_strb (map fst r ++ map fst o)
                      && forallb (fun f => wf_tyb (snd f)) r && forallb (fun f => wf_tyb (snd f)) o
  end.

(* ================================================================================================
   Encoding
   ================================================================================================ *)
Section Encode.
Variable cname : cls -> string * string.
Variable site : string.

(* the dict of a non-TypedDict type.  Keys are listed in sorted order: a Python dict's insertion
   order is unobservable here, the only consumer is json.dumps(sort_keys=True) (and dict ==). *)
Definition jtype (m q : string) (elems : option (list json)) : json :=
  JObj (match elems with Some l => [(k_elem, JArr l)] | None => [] end
        ++ [(k_module, JStr m); (k_qualname, JStr q)]).

(* typed_dict_to_dict *)
Definition jtd (name : string) (fields : list (string * json)) : json :=
  JObj [(k_elem, JObj fields); (k_istd, JBool true); (k_module, JStr site); (k_qualname, JStr name)].

Definition jgeneric (g : generic) (elems : result (list json)) : result json :=
  rbind elems (fun l => Ok (jtype m_typing (gen_name g) (Some l))).

Fixpoint type_to_dict (t : ty) : result json :=
  match t with
  (* is_typed_dict(typ) first: make_typed_dict's three-level shape *)
  | TTypedDict req opt =>
      rbind (sequence_kv (map (fun f => (fst f, type_to_dict (snd f))) req)) (fun rj =>
      rbind (sequence_kv (map (fun f => (fst f, type_to_dict (snd f))) opt)) (fun oj =>
      Ok (jtd dummy_td_name [(k_optional, jtd dummy_opt_name oj); (k_required, jtd dummy_req_name rj)])))
  | TUnion ts => jgeneric GUnion (sequence (map type_to_dict ts))
  | TAny => Ok (jtype m_typing "Any" None)                    (* Any has no __args__ *)
  | TCls c => Ok (jtype (fst (cname c)) (snd (cname c)) None) (* not is_generic: no elem_types *)
  | TCallable => Ok (jtype m_typing (gen_name GCallable) None) (* bare typing.Callable has no __args__ *)
  | TType x => jgeneric GType (sequence [type_to_dict x])
  | TList x => jgeneric GList (sequence [type_to_dict x])
  | TSet x => jgeneric GSet (sequence [type_to_dict x])
  | TIterator x => jgeneric GIterator (sequence [type_to_dict x])
  | TDict k v => jgeneric GDict (sequence [type_to_dict k; type_to_dict v])
  | TDefaultDict k v => jgeneric GDefaultDict (sequence [type_to_dict k; type_to_dict v])
  | TTuple ts => jgeneric GTuple (sequence (map type_to_dict ts))   (* Tuple[()] : __args__ == () -> [] *)
  (* Tuple[x, ...]: __args__ == (x, Ellipsis); Ellipsis is no TypedDict/Union/Any/generic, and
     `Ellipsis.__qualname__` raises AttributeError *)
  | TTupleVar x => jgeneric GTuple (sequence [type_to_dict x; Raises AttributeError])
  | TGenerator a b c => jgeneric GGenerator (sequence [type_to_dict a; type_to_dict b; type_to_dict c])
  (* a ForwardRef instance has no __qualname__ either *)
  | TFwd _ => Raises AttributeError
  end.

(* json.dumps(type_to_dict(typ), sort_keys=True), read back as a tree *)
Definition type_to_json (t : ty) : result json := rbind (type_to_dict t) (fun j => Ok (jsort j)).

Definition arg_types_to_json (args : list (string * ty)) : result json :=
  rbind (sequence_kv (map (fun a => (fst a, type_to_dict (snd a))) args)) (fun kvs => Ok (jsort (JObj kvs))).

(* None (no return / no yield observed) is kept as SQL NULL, never as a type *)
Definition maybe_encode_type (t : option ty) : result (option json) :=
  match t with
  | None => Ok None
  | Some x => rbind (type_to_json x) (fun j => Ok (Some j))
  end.
End Encode.

(* ================================================================================================
   Decoding
   ================================================================================================ *)
(* what a type dict can decode to *)
Inductive rty :=
| RTy (t : ty)
| RRawTD (name : string) (fields : list (string * ty))   (* a TypedDict class that is not the anonymous shape *)
| ROut.                                                  (* a live typing object `ty` has no term for *)

(* one JSON node after its children have been decoded (bottom-up; the functions are pure, so this
   computes the same value as the source's top-down recursion) *)
Inductive dnode :=
| NNull | NBool (b : bool) | NStr (s : string) | NOpaque
| NArr (elems : list (result rty))                       (* each element read as a type dict *)
| NObj (self : result rty)                               (* the object read as a type dict *)
       (fields : list (string * result rty)).            (* each value read as a type dict *)

(* type_from_dict on something that is not a dict: d["module"] raises TypeError *)
Definition as_ty (n : dnode) : result rty :=
  match n with
  | NObj s _ => s
  | NOpaque => OutOfModel
  | _ => Raises TypeError
  end.

Fixpoint nlookup (k : string) (kids : list (string * dnode)) : option dnode :=
  match kids with
  | [] => None
  | kd :: r => if String.eqb k (fst kd) then Some (snd kd) else nlookup k r
  end.

Fixpoint lookup_r (k : string) (fs : list (string * rty)) : option rty :=
  match fs with
  | [] => None
  | f :: r => if String.eqb k (fst f) then Some (snd f) else lookup_r k r
  end.

Fixpoint all_rty (fs : list (string * rty)) : option (list (string * ty)) :=
  match fs with
  | [] => Some []
  | f :: r => match snd f, all_rty r with
              | RTy t, Some l => Some ((fst f, t) :: l)
              | _, _ => None end
  end.

Fixpoint all_rty_l (es : list rty) : option (list ty) :=
  match es with
  | [] => Some []
  | e :: r => match e, all_rty_l r with
              | RTy t, Some l => Some (t :: l)
              | _, _ => None end
  end.

Section Decode.
Variable env : string -> string -> lookup.
Variable hidden : string -> option cls.

(* _HIDDEN_BUILTIN_TYPES first, then util.get_name_in_module *)
Definition resolve (m q : string) : lookup :=
  if String.eqb m m_builtins && mem_key q hidden_builtin_types
  then match hidden q with Some c => LFound (OClass c) | None => LUnknown end
  else env m q.

(* TypedDict(name, fields): the anonymous three-level shape becomes TTypedDict *)
Definition build_td (name : string) (fs : list (string * rty)) : result rty :=
  if negb (nodup_strb (map fst fs)) then OutOfModel      (* not what json.loads returns *)
  else
  match (if String.eqb name dummy_td_name && Nat.eqb (List.length fs) 2
         then match lookup_r k_required fs, lookup_r k_optional fs with
              | Some (RRawTD _ rf), Some (RRawTD _ of) => Some (TTypedDict rf of)
              | _, _ => None end
         else None) with
  | Some t => Ok (RTy t)
  | None => match all_rty fs with
            | Some l => Ok (RRawTD name l)
            | None => Ok ROut end
  end.

(* typ[elem_types] *)
Definition arity (n : nat) (es : list rty) (mk : list ty -> ty) : result rty :=
  if Nat.eqb (List.length es) n
  then match all_rty_l es with Some ts => Ok (RTy (mk ts)) | None => Ok ROut end
  else Raises TypeError.                                 (* "Too few/many arguments for typing.X" *)

Definition subscript (g : generic) (es : list rty) : result rty :=
  match g with
  | GUnion => match es with
              | [] => Raises TypeError                   (* "Cannot take a Union of no types." *)
              | _ => match all_rty_l es with Some ts => Ok (RTy (union_mk ts)) | None => Ok ROut end
              end
  | GList => arity 1 es (fun ts => match ts with [x] => TList x | _ => TAny end)
  | GSet => arity 1 es (fun ts => match ts with [x] => TSet x | _ => TAny end)
  | GType => arity 1 es (fun ts => match ts with [x] => TType x | _ => TAny end)
  | GIterator => arity 1 es (fun ts => match ts with [x] => TIterator x | _ => TAny end)
  | GDict => arity 2 es (fun ts => match ts with [k; v] => TDict k v | _ => TAny end)
  | GDefaultDict => arity 2 es (fun ts => match ts with [k; v] => TDefaultDict k v | _ => TAny end)
  | GGenerator => arity 3 es (fun ts => match ts with [a; b; c] => TGenerator a b c | _ => TAny end)
  | GTuple => match all_rty_l es with Some ts => Ok (RTy (TTuple ts)) | None => Ok ROut end
  | GCallable => if Nat.eqb (List.length es) 2 then Ok ROut else Raises TypeError
  | GOther _ => OutOfModel
  end.

Definition bare (g : generic) : result rty :=
  match g with
  | GCallable => Ok (RTy TCallable)
  | GOther _ => OutOfModel
  | _ => Ok ROut                                         (* typing.List etc. without arguments *)
  end.

(* d.get("is_typed_dict", False) *)
Definition td_flag (n : option dnode) : result bool :=
  match n with
  | None => Ok false
  | Some (NBool b) => Ok b
  | Some NNull => Ok false
  | Some _ => OutOfModel
  end.

(* type_from_dict on a dict whose values have been decoded already *)
Definition obj_as_type (kids : list (string * dnode)) : result rty :=
  match nlookup k_module kids with
  | None => Raises KeyError
  | Some m =>
  match nlookup k_qualname kids with
  | None => Raises KeyError
  | Some q =>
  rbind (td_flag (nlookup k_istd kids)) (fun istd =>
  if istd then
    (* typed_dict_from_dict *)
    match nlookup k_elem kids with
    | None => Raises KeyError
    | Some (NObj _ fields) =>
        rbind (sequence_kv fields) (fun fs =>
        match q with NStr name => build_td name fs | _ => OutOfModel end)
    | Some NOpaque => OutOfModel
    | Some _ => Raises AttributeError                    (* no .items() *)
    end
  else
    match m, q with
    | NStr ms, NStr qs =>
        match resolve ms qs with
        | LNoModule | LNoAttr => Raises NameLookupError
        | LUnknown => OutOfModel
        | LFound (OClass c) => Ok (RTy (TCls c))          (* elem_types ignored: not is_generic *)
        | LFound OAny => Ok (RTy TAny)
        | LFound (OGen g) =>
            match nlookup k_elem kids with
            | None | Some NNull => bare g
            | Some (NArr rs) => rbind (sequence rs) (subscript g)
            | Some _ => OutOfModel
            end
        | LFound _ => Raises InvalidTypeError
        end
    | _, _ => OutOfModel
    end)
  end end.

Fixpoint dec (j : json) : dnode :=
  match j with
  | JNull => NNull
  | JBool b => NBool b
  | JStr s => NStr s
  | JOpaque => NOpaque
  | JArr l => NArr (map (fun x => as_ty (dec x)) l)
  | JObj kvs =>
      let kids := map (fun kv => (fst kv, dec (snd kv))) kvs in
      NObj (obj_as_type kids) (map (fun kd => (fst kd, as_ty (snd kd))) kids)
  end.

Definition only_ty (r : result rty) : result ty :=
  rbind r (fun x => match x with RTy t => Ok t | _ => OutOfModel end).

Definition type_from_dict (j : json) : result ty := only_ty (as_ty (dec j)).

(* json.loads then type_from_dict; the text layer is the tree *)
Definition type_from_json (j : json) : result ty := type_from_dict j.

Definition arg_types_from_json (j : json) : result (list (string * ty)) :=
  match dec j with
  | NObj _ fields =>
      rbind (sequence_kv fields) (fun fs =>
      match all_rty fs with Some l => Ok l | None => OutOfModel end)
  | _ => OutOfModel
  end.

(* NULL and the literal text "null" both mean: nothing observed *)
Definition maybe_decode_type (e : option json) : result (option ty) :=
  match e with
  | None => Ok None
  | Some JNull => Ok None
  | Some j => rbind (type_from_json j) (fun t => Ok (Some t))
  end.

(* inspect.unwrap *)
Fixpoint unwrap (o : pyobj) : pyobj :=
  match o with OWrapper _ i => unwrap i | _ => o end.

(* the __module__ / __qualname__ the objects themselves carry *)
Variable ocname : cls -> string * string.
Variable ofname : fid -> string * string.

(* getattr(func, "__qualname__", <absent>) *)
Fixpoint obj_qualname (o : pyobj) : result (option string) :=
  match o with
  | OFunc f | OBuiltin f => Ok (Some (snd (ofname f)))
  | OClass c => Ok (Some (snd (ocname c)))
  | OBound i => obj_qualname i            (* a bound method answers with its __func__'s attributes *)
  | OProperty _ _ _ => Ok None            (* property objects have no __qualname__ (CPython 3.12) *)
  | OWrapper qn _ => Ok qn
  | OOther qn => Ok qn
  | OAny | OGen _ => OutOfModel
  end.

(* the kind steps of util.get_func_in_module after inspect.unwrap
   (django's cached_property is not installed here: compat.cached_property is None) *)
Definition func_of_kind (o : pyobj) : result pyobj :=
  match o with
  | OBound f => Ok f
  | OProperty (Some g) false false => Ok g
  | OProperty _ _ _ => Raises InvalidTypeError
  | OFunc f => Ok (OFunc f)
  | OBuiltin f => Ok (OBuiltin f)
  | _ => Raises InvalidTypeError
  end.

(* util.get_func_in_module.  Last step (commit 7b578c3): the function found must carry the RECORDED qualified name;
   a name that is now bound to some other function is a stale row (InvalidTypeError), not that other function. *)
Definition get_func_in_module (m q : string) : result pyobj :=
  match env m q with
  | LNoModule | LNoAttr => Raises NameLookupError
  | LUnknown => OutOfModel
  | LFound o =>
      rbind (func_of_kind (unwrap o)) (fun func =>
      rbind (obj_qualname func) (fun qn =>
      match qn with
      | Some own => if String.eqb own q then Ok func else Raises InvalidTypeError
      | None => Ok func                    (* getattr(func, "__qualname__", qualname) falls back to qualname *)
      end))
  end.
End Decode.

(* ---------- the relations "same type / same arguments" of the round-trip statements ---------- *)
Definition opt_corrb (a b : option ty) : bool :=
  match a, b with
  | None, None => true
  | Some x, Some y => corrb x y
  | _, _ => false                   (* absent and NoneType (or any type) are never confused *)
  end.

(* argument dicts as finite maps *)
Definition args_corrb (a b : list (string * ty)) : bool :=
  Nat.eqb (List.length a) (List.length b)
  && forallb (fun f => match lookup_f (fst f) b with Some y => corrb (snd f) y | None => false end) a.

(* ================================================================================================
   Call traces
   ================================================================================================ *)
Record trace := Trace {
  tr_func : fid;                        (* the function object the tracer recorded *)
  tr_args : list (string * ty);
  tr_ret : option ty;
  tr_yield : option ty }.

Record row := Row {
  r_module : string; r_qualname : string;
  r_args : json; r_ret : option json; r_yield : option json }.

Record dtrace := DTrace {
  dt_func : pyobj;
  dt_args : list (string * ty);
  dt_ret : option ty;
  dt_yield : option ty }.

Section Traces.
Variable cname : cls -> string * string.
Variable fname : fid -> string * string.
Variable site : string.
Variable env : string -> string -> lookup.
Variable hidden : string -> option cls.

Definition from_trace (t : trace) : result row :=
  rbind (arg_types_to_json cname site (tr_args t)) (fun a =>
  rbind (maybe_encode_type cname site (tr_ret t)) (fun r =>
  rbind (maybe_encode_type cname site (tr_yield t)) (fun y =>
  Ok (Row (fst (fname (tr_func t))) (snd (fname (tr_func t))) a r y)))).

Definition to_trace (r : row) : result dtrace :=
  rbind (get_func_in_module env cname fname (r_module r) (r_qualname r)) (fun f =>
  rbind (arg_types_from_json env hidden (r_args r)) (fun a =>
  rbind (maybe_decode_type env hidden (r_ret r)) (fun rt =>
  rbind (maybe_decode_type env hidden (r_yield r)) (fun y =>
  Ok (DTrace f a rt y))))).

(* serialize_traces: a trace that fails to serialise is logged and dropped *)
Definition serialize_traces (ts : list trace) : list row :=
  flat_map (fun t => match from_trace t with Ok r => [r] | _ => [] end) ts.

(* the class's / function's own name leads back to it *)
Definition importableb (c : cls) : bool :=
  match resolve env hidden (fst (cname c)) (snd (cname c)) with
  | LFound (OClass c') => N.eqb c c'
  | _ => false
  end.

Definition importable_funcb (f : fid) : bool :=
  match get_func_in_module env cname fname (fst (fname f)) (snd (fname f)) with
  | Ok (OFunc f') => N.eqb f f'
  | _ => false
  end.
End Traces.
