(* Check/InferCases.v — verdicts for the inference correspondence (C04; C05 and C06 add theirs).
   verdict: 0 ok, 1 correspondence mismatch (model vs implementation),
            2 property predicate false on the implementation's own output. *)
From MT Require Export Infer Common.

Record icase := ICase { ik : nat; ivs : list value; iimpl : ty }.

Definition model_of (c : icase) : option ty := infer (ik c) (ivs c).

(* 3 = the case violates the theorem's premise (harness bug, never the code's fault) *)
Definition verdict_c04 (h : hierarchy) (c : icase) : nat :=
  if negb (forallb wf_valueb (ivs c)) then 3 else
  if negb (forallb (fun v => member false (subclass h) v (iimpl c)) (ivs c)) then 2
  else match model_of c with
       | Some t => if corrb t (iimpl c) then 0 else 1
       | None => 1
       end.

(* ---- C06 ---- *)
Record c6case := C6Case {
  c6 : icase;
  c6decoded : ty;            (* type_from_json (type_to_json impl), by /repo *)
  c6stub_counts : list nat;  (* keys of every TypedDict class the generated class stubs define (inherited keys included) *)
  c6collision : bool         (* two generated classes share a name (C11's kf_hint_collision) *)
}.

Definition all_str_dicts (vs : list value) : bool :=
  forallb (fun v => match v with
                    | VDict kvs => negb (Nat.eqb (List.length kvs) 0) && forallb is_strkey kvs
                    | _ => false end) vs.

Definition verdict_c06 (c : c6case) : nat :=
  let k := ik (c6 c) in
  let impl := iimpl (c6 c) in
  if negb (td_boundedb k impl) then 2
  else if Nat.eqb k 0 && has_td impl then 2
  else if negb (td_boundedb k (c6decoded c)) then 2
  else if negb (forallb (fun n => Nat.leb 1 n && Nat.leb n k) (c6stub_counts c)) then (if c6collision c then 5 else 2)
  else if is_td impl && negb (all_str_dicts (ivs (c6 c))) then 2
  else match model_of (c6 c) with
       | Some t => if corrb t impl then 0 else 1
       | None => 1
       end.

(* ---- C04, order and multiplicity: the implementation's answers for a permutation of the values and for the values
        with one of them repeated ---- *)
From MT Require Import StubSet MergePermBase.
Record pcase := PCase {
  pk : nat; pvs : list value;
  pimpl : ty;            (* shrink_types(get_type(v) for v in vs) *)
  pimpl_perm : ty;       (* ... for a shuffled vs *)
  pdup : value;          (* the value seen twice *)
  pimpl_dup : ty         (* ... for vs + [pdup] *)
}.
(* 0 ok | 2 the merged type depends on the order, or on multiplicity outside the recorded class |
   5 multiplicity dependence inside kf_td_under_union (the repeated value's type has a TypedDict below a union) *)
Definition verdict_c04_order (c : pcase) : nat :=
  if negb (forallb wf_valueb (pvs c)) then 3
  else if negb (equivb (pimpl c) (pimpl_perm c)) then 2
  else if equivb (pimpl c) (pimpl_dup c) then 0
  else match get_type (pk c) (pdup c) with
       | Some tx => if kf_td_under_union tx then 5 else 2
       | None => 2
       end.

(* ---- C06, the limit at merge time: types recorded under limit k1 (as stored traces are) merged under limit k2 (as
        stub generation does when the configuration changed in between).  Theorem td_merge_top_limit: a merge of
        top-level TypedDicts never builds a TypedDict with more than k2 fields. ---- *)
Record m2case := M2Case { m2k1 : nat; m2k2 : nat; m2vs : list value; m2impl : ty }.
Definition td_top_size (t : ty) : nat :=
  match t with TTypedDict r o => List.length r + List.length o | _ => 0 end.
Definition verdict_c06_merge (c : m2case) : nat :=
  if negb (forallb wf_valueb (m2vs c)) then 3 else
  match mapM (get_type (m2k1 c)) (m2vs c) with
  | None => 3
  | Some ts =>
    if forallb is_td ts && Nat.ltb (m2k2 c) (td_top_size (m2impl c)) then 2
    else match shrink_top (m2k2 c) ts with
         | Some t => if corrb t (m2impl c) then 0
                     (* the merge the model describes keeps every TypedDict within the limit in force, the real one does not *)
                     else if td_boundedb (m2k2 c) t && negb (td_boundedb (m2k2 c) (m2impl c)) then 2
                     else 1
         | None => 1
         end
  end.

(* ---- C06 through the command line: `monkeytype stub` on a store whose traces were recorded under limit k, with the
        configuration reporting k while the command runs.  Every class the stub defines has between 1 and k keys
        (none at all for k = 0). ---- *)
Record clicase := CliCase { clk : nat; clcounts : list nat; clcollision : bool }.
Definition verdict_c06_cli (c : clicase) : nat :=
  if forallb (fun n => Nat.leb 1 n && Nat.leb n (clk c)) (clcounts c) then 0
  else if clcollision c then 5 else 2.
