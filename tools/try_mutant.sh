#!/bin/bash
# tools/try_mutant.sh <prop> <mutant dir containing patch.diff demo.py> [extra check props...]
# Confirms a seeded change in a scratch worktree at /repo's HEAD (tests still pass, demo flips), then runs the
# registered check(s) against that worktree (VERIF_REPO) and reports whether they catch it.
prop=$1; dir=$2; shift 2; props="$prop $*"
wt=/tmp/mutwt_$$
git -C /repo worktree add -q $wt HEAD || exit 2
trap "git -C /repo worktree remove --force $wt >/dev/null 2>&1" EXIT
cd $wt
echo "== demo on pristine:"; (PYTHONPATH=. /venv/bin/python $dir/demo.py 2>&1 | grep -v conda | tail -2; echo "exit=${PIPESTATUS[0]}")
if ! git apply --3way $dir/patch.diff 2>/dev/null && ! git apply $dir/patch.diff; then echo "PATCH DOES NOT APPLY"; exit 3; fi
git reset -q
echo "== pytest with change:"; /venv/bin/python -m pytest -q -p no:cacheprovider 2>&1 | tail -3
echo "== demo with change:"; (PYTHONPATH=. /venv/bin/python $dir/demo.py 2>&1 | grep -v conda | tail -2; echo "exit=${PIPESTATUS[0]}")
cd /verif
# the evidence files of the unchanged tree must survive: keep them aside while the checks run against the changed tree
ev=/verif/_work/evidence_keep_$$; rm -rf $ev; mkdir -p $ev; cp /verif/evidence/*.json $ev/ 2>/dev/null
for p in $props; do
  echo "== check $p against the changed tree:"
  VERIF_REPO=$wt ./check $p --tier quick 2>&1 | grep -v conda | grep -E "VIOLATION|^\[" | awk "/VIOLATION/{n++; if(n<=3) print; next} {print}"
done
cp $ev/*.json /verif/evidence/ 2>/dev/null; rm -rf $ev
# restore generated constants for /repo
PYTHONPATH=/repo:/verif /venv/bin/python -c "from harness import common; common.regenerate_all()" >/dev/null 2>&1
