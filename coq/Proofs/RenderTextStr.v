(* Proofs/RenderTextStr.v — stringology for the text-level rendering theorems (C11).
   The two global text rewrites of the renderer — Python's str.replace (RenderAnnotation.rewrite's
   "typing." -> "" and "NoneType" -> "None") and the repaired single-pass module-prefix stripping — both
   distribute over the delimiter characters of an annotation text ([ ] , space ' ( )): neither can match
   across a delimiter, and stripping restarts at a name boundary after one.  So both act word by word. *)
From MT Require Import Types Render.
From Coq Require Import Lia.

Open Scope string_scope.
Open Scope nat_scope.
Open Scope list_scope.

(* ---- append ---- *)
Lemma app_assoc_s a b c : (a +++ b) +++ c = a +++ (b +++ c).
Proof. induction a; cbn; [reflexivity | rewrite IHa; reflexivity]. Qed.

Lemma app_nil_r_s a : a +++ "" = a.
Proof. induction a; cbn; [reflexivity | rewrite IHa; reflexivity]. Qed.

Lemma length_app_s a b : String.length (a +++ b) = String.length a + String.length b.
Proof. induction a; cbn; [reflexivity | rewrite IHa; reflexivity]. Qed.

(* ---- delimiters ---- *)
Definition is_delim (c : ascii) : bool :=
  Ascii.eqb c "[" || Ascii.eqb c "]" || Ascii.eqb c "," || Ascii.eqb c " " || Ascii.eqb c "'"
  || Ascii.eqb c "(" || Ascii.eqb c ")".

Fixpoint nodelim (s : string) : bool :=
  match s with EmptyString => true | String c r => negb (is_delim c) && nodelim r end.

Lemma nodelim_app a b : nodelim (a +++ b) = nodelim a && nodelim b.
Proof. induction a; cbn; [reflexivity | rewrite IHa, andb_assoc; reflexivity]. Qed.

Lemma delim_cases d : is_delim d = true ->
  d = "["%char \/ d = "]"%char \/ d = ","%char \/ d = " "%char \/ d = "'"%char \/ d = "("%char \/ d = ")"%char.
Proof.
  unfold is_delim. intros H.
  repeat (apply orb_prop in H as [H|H]); apply Ascii.eqb_eq in H; tauto.
Qed.

Lemma delim_neq a d : is_delim d = true -> is_delim a = false -> Ascii.eqb a d = false.
Proof. intros Hd Ha. destruct (Ascii.eqb_spec a d); [subst; congruence | reflexivity]. Qed.

Lemma delim_not_word d : is_delim d = true -> is_ident_char d || Ascii.eqb d "." = false.
Proof.
  intros H. apply delim_cases in H.
  destruct H as [->|[->|[->|[->|[->|[->| ->]]]]]]; reflexivity.
Qed.

(* ---- prefixb ---- *)
Lemma prefixb_sep p d rest : nodelim p = true -> is_delim d = true ->
  forall s, prefixb p (s +++ String d rest) = prefixb p s.
Proof.
  intros Hp Hd. induction p as [|a p IH]; intros s; [reflexivity|].
  cbn in Hp. apply andb_prop in Hp as [Ha Hp]. apply negb_true_iff in Ha.
  destruct s as [|c s]; cbn.
  - rewrite (delim_neq a d Hd Ha). reflexivity.
  - rewrite (IH Hp). reflexivity.
Qed.

Lemma prefixb_len p : forall s, prefixb p s = true -> String.length p <= String.length s.
Proof.
  induction p as [|a p IH]; intros s H; cbn; [lia|].
  destruct s as [|c s]; cbn in *; [discriminate|].
  apply andb_prop in H as [_ H]. apply IH in H. lia.
Qed.

Lemma prefixb_delim_head p d rest : p <> "" -> nodelim p = true -> is_delim d = true ->
  prefixb p (String d rest) = false.
Proof.
  intros Hne Hp Hd. destruct p as [|a p]; [congruence|]. cbn in *.
  apply andb_prop in Hp as [Ha _]. apply negb_true_iff in Ha.
  rewrite (delim_neq a d Hd Ha). reflexivity.
Qed.

(* ---- str.replace distributes over a delimiter ---- *)
Lemma replace_go_sep old new d rest : old <> "" -> nodelim old = true -> is_delim d = true ->
  forall s skip, skip <= String.length s ->
    replace_go skip old new (s +++ String d rest)
    = replace_go skip old new s +++ String d (replace_go 0 old new rest).
Proof.
  intros Hne Hold Hd. induction s as [|c s IH]; intros skip Hs.
  - cbn in Hs. assert (skip = 0) by lia. subst. cbn [append replace_go].
    rewrite (prefixb_delim_head old d rest Hne Hold Hd). reflexivity.
  - destruct skip as [|k].
    + cbn [append replace_go].
      change (String c (s +++ String d rest)) with (String c s +++ String d rest).
      rewrite (prefixb_sep old d rest Hold Hd (String c s)).
      destruct (prefixb old (String c s)) eqn:E.
      * apply prefixb_len in E. cbn in E. rewrite IH by lia. rewrite app_assoc_s. reflexivity.
      * rewrite IH by lia. reflexivity.
    + cbn [append replace_go]. cbn in Hs. apply IH. lia.
Qed.

(* a text function distributes over delimiters *)
Definition ddistr (F : string -> string) : Prop :=
  F "" = "" /\ forall s d rest, is_delim d = true -> F (s +++ String d rest) = F s +++ String d (F rest).

Lemma replace_ddistr old new : old <> "" -> nodelim old = true -> ddistr (replace old new).
Proof.
  intros Hne Hold. destruct old as [|a o]; [congruence|]. split; [reflexivity|].
  intros s d rest Hd. unfold replace. apply replace_go_sep; [assumption..|lia].
Qed.

Lemma ddistr_comp F G : ddistr F -> ddistr G -> ddistr (fun s => G (F s)).
Proof.
  intros [F0 HF] [G0 HG]. split; [rewrite F0; exact G0|].
  intros s d rest Hd. rewrite HF, HG by assumption. reflexivity.
Qed.

Lemma ddistr_id : ddistr (fun s => s).
Proof. split; reflexivity. Qed.

Lemma post_ddistr b : ddistr (post b).
Proof.
  unfold post. destruct b.
  - apply (ddistr_comp (replace "typing." "") (replace "NoneType" "None"));
      apply replace_ddistr; (discriminate || reflexivity).
  - apply replace_ddistr; (discriminate || reflexivity).
Qed.

(* no occurrence: replace is the identity *)
Lemma replace_go_absent old new : forall s, containsb old s = false -> replace_go 0 old new s = s.
Proof.
  induction s as [|c s IH]; intros H; [reflexivity|].
  cbn [containsb] in H. apply orb_false_iff in H as [H1 H2].
  cbn [replace_go]. rewrite H1, (IH H2). reflexivity.
Qed.

Lemma replace_absent old new s : containsb old s = false -> replace old new s = s.
Proof. intros H. unfold replace. destruct old; [reflexivity|]. apply replace_go_absent; exact H. Qed.

Lemma containsb_suffix old a : forall b, containsb old (b +++ a) = false -> containsb old a = false.
Proof.
  induction b as [|c b IH]; intros H; [exact H|].
  cbn [append containsb] in H. apply orb_false_iff in H as [_ H]. exact (IH H).
Qed.

(* a word free of both substituted texts *)
Definition clean (w : string) : bool := negb (containsb "typing." w) && negb (containsb "NoneType" w).

Lemma clean_post b w : clean w = true -> post b w = w.
Proof.
  unfold clean. intros H. apply andb_prop in H as [H1 H2].
  apply negb_true_iff in H1, H2. unfold post. destruct b.
  - rewrite (replace_absent "typing." "" w H1). apply replace_absent; exact H2.
  - apply replace_absent; exact H2.
Qed.

Lemma clean_suffix a b : clean (b +++ a) = true -> clean a = true.
Proof.
  unfold clean. intros H. apply andb_prop in H as [H1 H2]. apply negb_true_iff in H1, H2.
  rewrite (containsb_suffix _ a b H1), (containsb_suffix _ a b H2). reflexivity.
Qed.

(* ---- module-prefix stripping ---- *)
(* a stripped module name: no delimiter character, non-empty, not starting with a dot *)
Definition mod_ok (m : string) : bool :=
  nodelim m && match m with EmptyString => false | String c _ => negb (Ascii.eqb c ".") end.
Definition mods_ok (mods : list string) : bool := forallb mod_ok mods.

Lemma mods_ok_nodelim mods : mods_ok mods = true -> forallb nodelim mods = true.
Proof.
  unfold mods_ok. rewrite !forallb_forall. intros H m Hm. specialize (H m Hm).
  unfold mod_ok in H. apply andb_prop in H as [H _]. exact H.
Qed.

Definition bm_step (s : string) (best : option nat) (m : string) : option nat :=
  if prefixb (m +++ ".") s then
    let n := S (String.length m) in
    match best with Some b => if b <? n then Some n else best | None => Some n end
  else best.

Lemma best_match_fold mods s : best_match mods s = fold_left (bm_step s) mods None.
Proof. reflexivity. Qed.

Lemma nodelim_moddot m : nodelim m = true -> nodelim (m +++ ".") = true.
Proof. intros H. rewrite nodelim_app, H. reflexivity. Qed.

Lemma best_match_sep mods d rest s : forallb nodelim mods = true -> is_delim d = true ->
  best_match mods (s +++ String d rest) = best_match mods s.
Proof.
  intros Hm Hd. rewrite !best_match_fold. generalize (@None nat) as best.
  induction mods as [|m mods IH]; intros best; [reflexivity|].
  cbn in Hm. apply andb_prop in Hm as [Hm1 Hm2]. cbn [fold_left].
  unfold bm_step at 2 4. rewrite (prefixb_sep _ d rest (nodelim_moddot m Hm1) Hd s).
  apply IH. exact Hm2.
Qed.

Lemma best_match_bound mods s n : best_match mods s = Some n -> n <= String.length s.
Proof.
  rewrite best_match_fold.
  assert (G : forall best, (forall b, best = Some b -> b <= String.length s) ->
                           fold_left (bm_step s) mods best = Some n -> n <= String.length s).
  { induction mods as [|m mods IH]; intros best Hb H; cbn in H; [exact (Hb n H)|].
    apply (IH (bm_step s best m)); [|exact H].
    intros b. unfold bm_step. destruct (prefixb (m +++ ".") s) eqn:E; [|apply Hb].
    apply prefixb_len in E. rewrite length_app_s in E. cbn in E.
    destruct best as [b0|].
    - destruct (b0 <? S (String.length m)); intros Eb; inversion Eb; subst; [lia | apply Hb; reflexivity].
    - intros Eb; inversion Eb; subst. lia. }
  apply G. intros b Hb; discriminate.
Qed.

Lemma best_match_none mods s :
  (forall m, In m mods -> prefixb (m +++ ".") s = false) -> best_match mods s = None.
Proof.
  rewrite best_match_fold. induction mods as [|m mods IH]; intros H; [reflexivity|].
  cbn [fold_left]. unfold bm_step at 2. rewrite (H m) by (left; reflexivity).
  apply IH. intros m' Hm'. apply H. right; exact Hm'.
Qed.

Lemma best_match_delim mods d rest : forallb nodelim mods = true -> is_delim d = true ->
  best_match mods (String d rest) = None.
Proof.
  intros Hm Hd. apply best_match_none. intros m Hin.
  rewrite forallb_forall in Hm. apply prefixb_delim_head; [|apply nodelim_moddot; auto|exact Hd].
  destruct m; discriminate.
Qed.

Lemma strip_go_sep mods d rest : forallb nodelim mods = true -> is_delim d = true ->
  forall s skip pw, skip <= String.length s ->
    strip_go mods skip pw (s +++ String d rest)
    = strip_go mods skip pw s +++ String d (strip_go mods 0 false rest).
Proof.
  intros Hm Hd. induction s as [|c s IH]; intros skip pw Hs.
  - cbn in Hs. assert (skip = 0) by lia. subst. cbn [append strip_go].
    rewrite (best_match_delim mods d rest Hm Hd), (delim_not_word d Hd).
    destruct pw; reflexivity.
  - destruct skip as [|k].
    + cbn [append strip_go].
      change (String c (s +++ String d rest)) with (String c s +++ String d rest).
      rewrite (best_match_sep mods d rest (String c s) Hm Hd).
      destruct pw; [rewrite IH by lia; reflexivity|].
      destruct (best_match mods (String c s)) as [[|k]|] eqn:E; try (rewrite IH by lia; reflexivity).
      apply best_match_bound in E. cbn in E. rewrite IH by lia. reflexivity.
    + cbn [append strip_go]. cbn in Hs. apply IH. lia.
Qed.

Lemma strip_ddistr mods : mods_ok mods = true -> ddistr (strip_mods mods).
Proof.
  intros H. apply mods_ok_nodelim in H. split; [reflexivity|].
  intros s d rest Hd. unfold strip_mods. apply strip_go_sep; [assumption..|lia].
Qed.

(* words without a dot are never stripped *)
Fixpoint hasdot (s : string) : bool :=
  match s with EmptyString => false | String c r => Ascii.eqb c "." || hasdot r end.

Lemma prefixb_dot m : forall s, prefixb (m +++ ".") s = true -> hasdot s = true.
Proof.
  induction m as [|a m IH]; intros s H; destruct s as [|c s]; cbn [prefixb append hasdot] in *; try discriminate.
  - apply andb_prop in H as [H _]. rewrite Ascii.eqb_sym, H. reflexivity.
  - apply andb_prop in H as [_ H]. rewrite (IH s H). apply orb_true_r.
Qed.

Lemma best_match_nodot mods s : hasdot s = false -> best_match mods s = None.
Proof.
  intros H. apply best_match_none. intros m _.
  destruct (prefixb (m +++ ".") s) eqn:E; [|reflexivity]. apply prefixb_dot in E. congruence.
Qed.

Lemma strip_go_nodot mods : forall w pw, hasdot w = false -> strip_go mods 0 pw w = w.
Proof.
  induction w as [|c w IH]; intros pw H; [reflexivity|].
  cbn [strip_go]. rewrite (best_match_nodot mods (String c w) H).
  cbn in H. apply orb_false_iff in H as [_ H]. rewrite (IH _ H). destruct pw; reflexivity.
Qed.

Lemma strip_nodot mods w : hasdot w = false -> strip_mods mods w = w.
Proof. apply strip_go_nodot. Qed.

Lemma strip_go_nil : forall s pw, strip_go [] 0 pw s = s.
Proof. induction s as [|c s IH]; intros pw; [reflexivity|]. cbn. rewrite IH. destruct pw; reflexivity. Qed.

Lemma strip_nil s : strip_mods [] s = s.
Proof. apply strip_go_nil. Qed.

Lemma strip_ell mods : mods_ok mods = true -> strip_mods mods "..." = "...".
Proof.
  intros H. unfold strip_mods. cbn [strip_go].
  rewrite (best_match_none mods "..."); [reflexivity|].
  intros m Hm. unfold mods_ok in H. rewrite forallb_forall in H. specialize (H m Hm).
  unfold mod_ok in H. apply andb_prop in H as [_ H].
  destruct m as [|c m]; [discriminate|]. cbn. apply negb_true_iff in H. rewrite H. reflexivity.
Qed.

(* once inside a word (previous character a name character or a dot) the rest of the word is kept *)
Fixpoint wordchars (s : string) : bool :=
  match s with EmptyString => true | String c r => (is_ident_char c || Ascii.eqb c ".") && wordchars r end.

Lemma strip_go_inword mods : forall w, wordchars w = true -> strip_go mods 0 true w = w.
Proof.
  induction w as [|c w IH]; intros H; [reflexivity|].
  cbn in H. apply andb_prop in H as [Hc H]. cbn [strip_go]. rewrite Hc, (IH H). reflexivity.
Qed.
