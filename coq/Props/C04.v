From MT Require Import Infer.
Theorem placeholder_c04 : True. Proof. exact I. Qed.
Print Assumptions placeholder_c04.
