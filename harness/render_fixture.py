"""C11 fixture package: modules whose names are dotted or textual suffixes of one another, nested classes,
a class named like its module, names containing the texts the renderer substitutes globally.
`write(dir)` creates the package; `POOL` is the static class pool (module, qualname) shared by the case
generator (parent process) and the implementation runner (child process)."""
import os

# every module can be the target module of a case: each defines the same functions / methods
FUNCS = '''

def f0(a):
    return None


def f1(a, b=None):
    return None


def f2(a, b, c=3):
    return None


def g3(a, b, c):
    return None


def a_function_with_a_rather_long_name_so_that_the_signature_has_to_be_wrapped_at_120_columns(first_parameter, second_parameter=None):
    return None


class K:
    def m0(self, a):
        return None

    def m1(self, a, b=None):
        return None
'''

# name -> (params [(name, default kind 0 none / 1 None / 2 other)], has_self)
FUNC_SHAPES = {
    "f0": ([("a", 0)], False),
    "f1": ([("a", 0), ("b", 1)], False),
    "f2": ([("a", 0), ("b", 0), ("c", 2)], False),
    "g3": ([("a", 0), ("b", 0), ("c", 0)], False),
    "a_function_with_a_rather_long_name_so_that_the_signature_has_to_be_wrapped_at_120_columns":
        ([("first_parameter", 0), ("second_parameter", 1)], False),
    "K.m0": ([("self", 0), ("a", 0)], True),
    "K.m1": ([("self", 0), ("a", 0), ("b", 1)], True),
}
LONG = "a_function_with_a_rather_long_name_so_that_the_signature_has_to_be_wrapped_at_120_columns"

MODULES = {
    "utils": "class A:\n    pass\n\n\nclass utils:\n    class Inner:\n        pass\n\n\n"
             "class Outer:\n    class Inner:\n        class Deep:\n            pass\n",
    "pkg": "class P:\n    pass\n",
    "pkg.utils": "class B:\n    pass\n\n\nclass C:\n    pass\n\n\nclass Outer:\n    pass\n",
    "foo": "class Baz:\n    pass\n\n\nclass Other:\n    pass\n\n\nclass MyNoneTypeX:\n    pass\n",
    "barfoo": "class Baz:\n    pass\n\n\nclass Qux:\n    pass\n",
    "mytyping": "class Q:\n    pass\n",
}

# the class pool; order fixes the class numbering (>= 16 in order of first registration)
POOL = [
    ("utils", "A"), ("utils", "utils"), ("utils", "utils.Inner"), ("utils", "Outer"), ("utils", "Outer.Inner"),
    ("utils", "Outer.Inner.Deep"), ("utils", "K"),
    ("pkg", "P"), ("pkg", "K"),
    ("pkg.utils", "B"), ("pkg.utils", "C"), ("pkg.utils", "Outer"), ("pkg.utils", "K"),
    ("foo", "Baz"), ("foo", "Other"), ("foo", "MyNoneTypeX"), ("foo", "K"),
    ("barfoo", "Baz"), ("barfoo", "Qux"), ("barfoo", "K"),
    ("mytyping", "Q"), ("mytyping", "K"),
    ("_io", "StringIO"), ("_io", "BytesIO"),
    ("builtins", "int"), ("builtins", "str"), ("builtins", "bool"), ("builtins", "float"), ("builtins", "bytes"),
    ("builtins", "NoneType"),
]
TARGETS = list(MODULES)


def write(root: str) -> None:
    for mod, body in MODULES.items():
        parts = mod.split(".")
        if mod == "pkg":
            path = os.path.join(root, "pkg", "__init__.py")
        else:
            path = os.path.join(root, *parts) + ".py"
        os.makedirs(os.path.dirname(path), exist_ok=True)
        with open(path, "w") as f:
            f.write(body + FUNCS)


def resolve(mod: str, qualname: str):
    """The live class object of a pool entry (child process only; the fixture must be importable)."""
    import importlib
    if (mod, qualname) == ("builtins", "NoneType"):
        return type(None)
    obj = importlib.import_module(mod)
    for part in qualname.split("."):
        obj = getattr(obj, part)
    return obj
