(* C01 — placeholder until the composition proof lands (the prove-C01 builder owns this file). *)
From MT Require Import Types.
Theorem c01_placeholder_partial : member true (fun _ _ => true) (VAtom 1%N 0%N) TAny = true.
Proof. reflexivity. Qed.
Print Assumptions c01_placeholder_partial.
