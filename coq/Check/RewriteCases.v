(* Check/RewriteCases.v — verdicts for the rewriter correspondence (C07).
   0 ok; 1 model/implementation mismatch; 2 property predicate false on the implementation's output
   (raised, narrowed a witness value, or changed the type without its trigger). *)
From MT Require Export Rewrite Hier Common.

Record rcase := RCase {
  rrs : list rewriter;        (* the chain applied, in order *)
  rin : ty;                   (* input type *)
  rimpl : ty;                 (* what /repo returned *)
  rraised : bool;             (* /repo raised instead *)
  rws : list value            (* witness values *)
}.

(* --- trigger predicates: does the documented trigger occur anywhere the traversal reaches? --- *)
Section Trig.
Variable here : list ty -> bool.     (* trigger test on the members of one union *)
Fixpoint any_union (t : ty) : bool :=
  match t with
  | TList x | TSet x | TTupleVar x => any_union x
  | TDict k v => any_union k || any_union v
  | TTuple ts => existsb any_union ts
  | TGenerator a b c => any_union a || any_union b || any_union c
  | TUnion ts => here ts || existsb any_union ts
  | TTypedDict r o => existsb (fun f => any_union (snd f)) r || existsb (fun f => any_union (snd f)) o
  | _ => false
  end.
End Trig.

Fixpoint any_gen_none (t : ty) : bool :=
  match t with
  | TList x | TSet x | TTupleVar x => any_gen_none x
  | TDict k v => any_gen_none k || any_gen_none v
  | TTuple ts | TUnion ts => existsb any_gen_none ts
  | TGenerator a (TCls 1%N) (TCls 1%N) => true
  | TTypedDict r o => existsb (fun f => any_gen_none (snd f)) r || existsb (fun f => any_gen_none (snd f)) o
  | _ => false
  end.

Definition trigger (r : rewriter) (t : ty) : bool :=
  match r with
  | RNoOp => false
  | RRemoveEmpty => any_union (fun ts => existsb (fun e => is_empty e && has_nonempty_sibling e ts) ts) t
  | RConfigDict =>
      any_union (fun ts => match ts with
                           | t0 :: rest => forallb is_tdict ts && forallb (fun e => py_eqb (dict_key t0) (dict_key e)) rest
                           | [] => false end) t
  | RLargeUnion n => any_union (fun ts => Nat.ltb n (List.length ts)) t
  | RGenerator => any_gen_none t
  | RCommonBase => any_union (fun ts => forallb (fun t => is_tcls t || is_td t) ts) t
  end.

(* 3 = the emitted class tables violate the premises of the C07 theorems (harness bug, never the code's fault) *)
Definition verdict_c07 (h : hierarchy) (bt : bases_table) (c : rcase) : nat :=
  if negb (wf_hier h && bt_ok h bt) then 3 else
  if rraised c then 2
  else if negb (forallb (fun v => implb (member false (subclass h) v (rin c))
                                        (member true (subclass h) v (rimpl c))) (rws c)) then 2
  else if (match rrs c with
           | [r] => negb (corrb (rin c) (rimpl c)) && negb (trigger r (rin c))
           | _ => false end) then 2
  else if corrb (rw_chain h bt (rrs c) (rin c)) (rimpl c) then 0 else 1.
