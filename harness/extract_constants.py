"""Fail-closed Python-`ast` extractor: reads the literal tables the Coq model depends on from
/repo's *current* source and rewrites coq/Gen/Constants.v (DESIGN.md 2.6).  If a shape is not
understood nothing is written and the caller treats the tie as broken."""
import ast
import os
import re

from harness import common


class ExtractError(Exception):
    pass


def _parse(rel):
    p = os.path.join(common.REPO, rel)
    return ast.parse(open(p).read(), filename=p)


def _find_assign(tree, name):
    for node in ast.walk(tree):
        if isinstance(node, ast.Assign) and any(isinstance(t, ast.Name) and t.id == name for t in node.targets):
            return node.value
        if isinstance(node, ast.AnnAssign) and isinstance(node.target, ast.Name) and node.target.id == name:
            return node.value
    raise ExtractError(f"assignment to {name} not found")


def _find_class(tree, name):
    for node in ast.walk(tree):
        if isinstance(node, ast.ClassDef) and node.name == name:
            return node
    raise ExtractError(f"class {name} not found")


def _find_func(tree, name, within=None):
    for node in ast.walk(within or tree):
        if isinstance(node, (ast.FunctionDef, ast.AsyncFunctionDef)) and node.name == name:
            return node
    raise ExtractError(f"function {name} not found")


def _cs(s):
    return '"' + s.replace('"', '""') + '"'


def _single_return(fn):
    body = [s for s in fn.body if not (isinstance(s, ast.Expr) and isinstance(s.value, ast.Constant))]
    if len(body) != 1 or not isinstance(body[0], ast.Return):
        raise ExtractError(f"{fn.name}: expected a single return statement")
    return body[0].value


def default_rewriter(typing_tree):
    """DEFAULT_REWRITER = ChainedRewriter((R1(), R2(args), ...)) -> [(name, [int args])]"""
    v = _find_assign(typing_tree, "DEFAULT_REWRITER")
    if not (isinstance(v, ast.Call) and isinstance(v.func, ast.Name) and v.func.id == "ChainedRewriter"
            and len(v.args) == 1 and isinstance(v.args[0], (ast.Tuple, ast.List)) and not v.keywords):
        raise ExtractError("DEFAULT_REWRITER: unexpected shape")
    out = []
    for e in v.args[0].elts:
        if not (isinstance(e, ast.Call) and isinstance(e.func, ast.Name)):
            raise ExtractError("DEFAULT_REWRITER member: unexpected shape")
        args = []
        for a in list(e.args) + [k.value for k in e.keywords]:
            if not (isinstance(a, ast.Constant) and isinstance(a.value, int)):
                raise ExtractError("DEFAULT_REWRITER member argument is not an int literal")
            args.append(a.value)
        out.append((e.func.id, args))
    return out


def large_union_default(typing_tree):
    cls = _find_class(typing_tree, "RewriteLargeUnion")
    init = _find_func(typing_tree, "__init__", cls)
    names = [a.arg for a in init.args.args]
    if "max_union_len" not in names:
        raise ExtractError("RewriteLargeUnion.__init__: no max_union_len")
    d = init.args.defaults[names.index("max_union_len") - (len(names) - len(init.args.defaults))]
    if not (isinstance(d, ast.Constant) and isinstance(d.value, int)):
        raise ExtractError("max_union_len default not an int literal")
    return d.value


def config_defaults(config_tree):
    cfg = _find_class(config_tree, "Config")
    out = {}
    for name in ("max_typed_dict_size", "query_limit", "sample_rate"):
        r = _single_return(_find_func(config_tree, name, cfg))
        if not isinstance(r, ast.Constant) or not (r.value is None or isinstance(r.value, int)):
            raise ExtractError(f"Config.{name}: not a literal")
        out[name] = r.value
    r = _single_return(_find_func(config_tree, "type_rewriter", cfg))
    if not (isinstance(r, ast.Call) and isinstance(r.func, ast.Name) and not r.args):
        raise ExtractError("Config.type_rewriter: unexpected shape")
    out["base_rewriter"] = r.func.id
    dcfg = _find_class(config_tree, "DefaultConfig")
    r = _single_return(_find_func(config_tree, "type_rewriter", dcfg))
    if not isinstance(r, ast.Name):
        raise ExtractError("DefaultConfig.type_rewriter: unexpected shape")
    out["default_rewriter_name"] = r.id
    r = _single_return(_find_func(config_tree, "code_filter", dcfg))
    if not isinstance(r, ast.Name):
        raise ExtractError("DefaultConfig.code_filter: unexpected shape")
    out["default_filter_name"] = r.id
    return out


def kind_with_self(stubs_tree):
    # read off the REAL class (fresh interpreter on the tree under test): any container of FunctionKind members will do
    try:
        import json
        import subprocess
        code = ("import json; from monkeytype.stubs import FunctionDefinition, FunctionKind; "
                "ks = FunctionDefinition._KIND_WITH_SELF; "
                "assert all(isinstance(k, FunctionKind) for k in ks); "
                "print(json.dumps(sorted(k.name for k in FunctionKind if k in ks)))")
        p = subprocess.run([common.PY, "-c", code], capture_output=True, text=True, env=common.sub_env(), timeout=60)
        if p.returncode == 0:
            names = json.loads(p.stdout.strip().splitlines()[-1])
            if names and all(isinstance(n, str) for n in names):
                return sorted(names)
    except Exception:
        pass
    cls = _find_class(stubs_tree, "FunctionDefinition")
    v = None
    for s in cls.body:
        if isinstance(s, ast.Assign) and any(isinstance(t, ast.Name) and t.id == "_KIND_WITH_SELF" for t in s.targets):
            v = s.value
    if isinstance(v, ast.Call) and isinstance(v.func, ast.Name) and v.func.id in ("frozenset", "set") and len(v.args) == 1 \
            and not v.keywords:
        v = v.args[0]
    if not isinstance(v, (ast.Set, ast.Tuple, ast.List)):
        raise ExtractError("_KIND_WITH_SELF: not a set literal")
    out = []
    for e in v.elts:
        if not (isinstance(e, ast.Attribute) and isinstance(e.value, ast.Name) and e.value.id == "FunctionKind"):
            raise ExtractError("_KIND_WITH_SELF member shape")
        out.append(e.attr)
    return sorted(out)


def enum_members(tree, clsname):
    cls = _find_class(tree, clsname)
    out = []
    for s in cls.body:
        if isinstance(s, ast.Assign) and len(s.targets) == 1 and isinstance(s.targets[0], ast.Name) \
                and isinstance(s.value, ast.Constant) and isinstance(s.value.value, int):
            out.append((s.targets[0].id, s.value.value))
    if not out:
        raise ExtractError(f"{clsname}: no members")
    return out


def tracing_constants(tr_tree):
    ev = _find_assign(tr_tree, "SUPPORTED_EVENTS")
    if not isinstance(ev, ast.Set):
        raise ExtractError("SUPPORTED_EVENTS: not a set literal")
    names = {}
    for nm in ("EVENT_CALL", "EVENT_RETURN"):
        v = _find_assign(tr_tree, nm)
        if not (isinstance(v, ast.Constant) and isinstance(v.value, str)):
            raise ExtractError(nm)
        names[nm] = v.value
    events = []
    for e in ev.elts:
        if isinstance(e, ast.Name) and e.id in names:
            events.append(names[e.id])
        elif isinstance(e, ast.Constant) and isinstance(e.value, str):
            events.append(e.value)
        else:
            raise ExtractError("SUPPORTED_EVENTS member")
    # opcode names: X_OPCODE = opcode.opmap["NAME"]  (possibly guarded by .get)
    ops = {}
    for node in ast.walk(tr_tree):
        if isinstance(node, ast.Assign) and len(node.targets) == 1 and isinstance(node.targets[0], ast.Name) \
                and node.targets[0].id.endswith("_OPCODE"):
            v = node.value
            nm = None
            if isinstance(v, ast.Subscript) and isinstance(v.slice, ast.Constant):
                nm = v.slice.value
            elif isinstance(v, ast.Call) and v.args and isinstance(v.args[0], ast.Constant):
                nm = v.args[0].value
            if not isinstance(nm, str):
                raise ExtractError("opcode constant shape")
            ops[node.targets[0].id] = nm
    return sorted(events), ops


def hidden_builtins(enc_tree):
    v = _find_assign(enc_tree, "_HIDDEN_BUILTIN_TYPES")
    if not isinstance(v, ast.Dict):
        raise ExtractError("_HIDDEN_BUILTIN_TYPES: not a dict literal")
    out = []
    for k, x in zip(v.keys, v.values):
        if not (isinstance(k, ast.Constant) and isinstance(k.value, str) and isinstance(x, ast.Name)):
            raise ExtractError("_HIDDEN_BUILTIN_TYPES entry")
        out.append((k.value, x.id))
    return out


def dummy_names(typing_tree):
    out = []
    for nm in ("DUMMY_TYPED_DICT_NAME", "DUMMY_REQUIRED_TYPED_DICT_NAME", "DUMMY_OPTIONAL_TYPED_DICT_NAME"):
        v = _find_assign(typing_tree, nm)
        if not (isinstance(v, ast.Constant) and isinstance(v.value, str)):
            raise ExtractError(nm)
        out.append((nm, v.value))
    return out


def query_skeleton(sql_tree):
    """Tokenise make_query's SQL and map the qualname operator to a modelled matcher."""
    # The SQL text is read off the REAL function (called in a fresh interpreter on the tree under test), which no
    # refactoring that keeps the query can disturb; the string literals of its AST are the fallback.
    sql = None
    try:
        import json
        import subprocess
        code = ("import json; from monkeytype.db.sqlite import make_query; "
                "print(json.dumps([list(map(str, make_query('T', 'm', 'q', 7))), list(map(str, make_query('T', 'm', None, 7)))]))")
        p = subprocess.run([common.PY, "-c", code], capture_output=True, text=True, env=common.sub_env(), timeout=60)
        if p.returncode == 0:
            (q1, _v1), (_q2, _v2) = json.loads(p.stdout.strip().splitlines()[-1])
            sql = q1          # the query WITH a qualname prefix: it shows every clause
    except Exception:
        sql = None
    if sql is None:
        fn = _find_func(sql_tree, "make_query")
        strs = [n.value for n in ast.walk(fn) if isinstance(n, ast.Constant) and isinstance(n.value, str)]
        sql = " ".join(strs)
    sql = re.sub(r"\s+", " ", sql).strip()
    if not re.search(r"WHERE module == \?", sql):
        raise ExtractError("make_query: module predicate is not `module == ?`")
    if re.search(r"AND qualname LIKE \? \|\| '%'", sql):
        op = "LikePrefix"
    elif re.search(r"AND substr\(qualname, 1, length\(\?\)\) == \?", sql):
        op = "ExactPrefix"
    else:
        raise ExtractError("make_query: qualname operator not recognised: " + sql[:200])
    m = re.search(r"GROUP BY ([a-z_, ]+?) ORDER BY", sql)
    if not m:
        raise ExtractError("make_query: GROUP BY not found")
    group = [c.strip() for c in m.group(1).split(",")]
    if "LIMIT ?" not in sql:
        raise ExtractError("make_query: LIMIT ? not found")
    m2 = re.search(r"SELECT ([a-z_, ]+?) FROM", sql)
    if not m2:
        raise ExtractError("make_query: SELECT list not found")
    select = [c.strip() for c in m2.group(1).split(",")]
    return op, select, group


def cli_strategy_flags(cli_tree):
    """flag -> ExistingAnnotationStrategy member for the stub and apply sub-parsers, and the default."""
    out = []
    for node in ast.walk(cli_tree):
        if isinstance(node, ast.Call) and isinstance(node.func, ast.Attribute) and node.func.attr == "add_argument":
            kw = {k.arg: k.value for k in node.keywords}
            if "dest" in kw and isinstance(kw["dest"], ast.Constant) and kw["dest"].value == "existing_annotation_strategy":
                flag = node.args[0].value
                parser = node.func.value.id if isinstance(node.func.value, ast.Name) else "?"
                const = kw["const"].attr
                default = kw["default"].attr
                out.append((parser, flag, const, default))
    if not out:
        raise ExtractError("cli: no existing_annotation_strategy flags found")
    return sorted(out)


def apply_overwrite_rule(cli_tree):
    fn = _find_func(cli_tree, "apply_stub_handler")
    for node in ast.walk(fn):
        if isinstance(node, ast.keyword) and node.arg == "overwrite_existing_annotations":
            v = node.value
            if isinstance(v, ast.Compare) and len(v.ops) == 1 and isinstance(v.ops[0], ast.Eq) \
                    and isinstance(v.comparators[0], ast.Attribute):
                return v.comparators[0].attr
    raise ExtractError("apply_stub_handler: overwrite rule not recognised")


def render() -> str:
    ty = _parse("monkeytype/typing.py")
    cfg = _parse("monkeytype/config.py")
    st = _parse("monkeytype/stubs.py")
    tr = _parse("monkeytype/tracing.py")
    enc = _parse("monkeytype/encoding.py")
    sql = _parse("monkeytype/db/sqlite.py")
    cli = _parse("monkeytype/cli.py")

    L = []
    w = L.append
    w("(* GENERATED by harness/extract_constants.py from /repo's current source. Do not edit. *)")
    w("From Coq Require Import List String NArith.")
    w("Import ListNotations.")
    w("Open Scope string_scope.")
    w("")
    dr = default_rewriter(ty)
    w("Definition default_rewriter_spec : list (string * list nat) :=")
    w("  [" + "; ".join(f"({_cs(n)}, [{'; '.join(str(a) for a in args)}])" for n, args in dr) + "].")
    w(f"Definition large_union_default_max : nat := {large_union_default(ty)}.")
    cd = config_defaults(cfg)
    w(f"Definition config_max_typed_dict_size : nat := {cd['max_typed_dict_size']}.")
    w(f"Definition config_query_limit : N := {cd["query_limit"]}%N.")
    sr = cd["sample_rate"]
    w(f"Definition config_sample_rate : option nat := {'None' if sr is None else 'Some ' + str(sr)}.")
    w(f"Definition config_base_rewriter : string := {_cs(cd['base_rewriter'])}.")
    w(f"Definition default_config_rewriter : string := {_cs(cd['default_rewriter_name'])}.")
    w(f"Definition default_config_filter : string := {_cs(cd['default_filter_name'])}.")
    w("Definition kind_with_self : list string := [" + "; ".join(_cs(k) for k in kind_with_self(st)) + "].")
    w("Definition function_kinds : list (string * nat) := [" +
      "; ".join(f"({_cs(n)}, {v})" for n, v in enum_members(st, "FunctionKind")) + "].")
    w("Definition annotation_strategies : list (string * nat) := [" +
      "; ".join(f"({_cs(n)}, {v})" for n, v in enum_members(st, "ExistingAnnotationStrategy")) + "].")
    events, ops = tracing_constants(tr)
    w("Definition supported_events : list string := [" + "; ".join(_cs(e) for e in events) + "].")
    w("Definition tracer_opcodes : list (string * string) := [" +
      "; ".join(f"({_cs(k)}, {_cs(v)})" for k, v in sorted(ops.items())) + "].")
    w("Definition hidden_builtin_types : list (string * string) := [" +
      "; ".join(f"({_cs(k)}, {_cs(v)})" for k, v in hidden_builtins(enc)) + "].")
    w("Definition dummy_names : list (string * string) := [" +
      "; ".join(f"({_cs(k)}, {_cs(v)})" for k, v in dummy_names(ty)) + "].")
    op, select, group = query_skeleton(sql)
    w(f"Definition query_qualname_operator : string := {_cs(op)}.")
    w("Definition query_select_columns : list string := [" + "; ".join(_cs(c) for c in select) + "].")
    w("Definition query_group_columns : list string := [" + "; ".join(_cs(c) for c in group) + "].")
    w("Definition cli_strategy_flags : list (string * string * string * string) := [" +
      "; ".join(f"({_cs(a)}, {_cs(b)}, {_cs(c)}, {_cs(d)})" for a, b, c, d in cli_strategy_flags(cli)) + "].")
    w(f"Definition apply_overwrite_when : string := {_cs(apply_overwrite_rule(cli))}.")
    return "\n".join(L) + "\n"


def regenerate():
    """Returns (ok, message).  Writes only when the content changed, so make stays incremental."""
    path = os.path.join(common.COQ, "Gen", "Constants.v")
    try:
        text = render()
    except (ExtractError, SyntaxError, OSError, AttributeError, KeyError, IndexError) as e:
        # fail closed: remove the generated file so nothing depending on it can be (re)built from stale data
        # keep the previously generated file: the proof status is reported as broken by the caller, but the
        # correspondence harness can still be built (against the last understood model) to search for a failing input
        return False, f"{type(e).__name__}: {e}"
    old = open(path).read() if os.path.exists(path) else None
    if old != text:
        os.makedirs(os.path.dirname(path), exist_ok=True)
        with open(path, "w") as f:
            f.write(text)
    return True, "ok"


if __name__ == "__main__":
    print(regenerate())
    print(open(os.path.join(common.COQ, "Gen", "Constants.v")).read())
