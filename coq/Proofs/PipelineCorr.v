(* Proofs/PipelineCorr.v — the correspondence relation corrb (what a store round trip preserves:
   union members as multisets, TypedDict fields as finite maps) preserves well-formedness and membership.
   Used by Proofs/Pipeline.v (C01). *)
From MT Require Import Types TypesFacts EncodeRoundtrip.
From Coq Require Import Lia.

(* ---------- removal-permutation: each side's members have a corresponding member on the other ---------- *)
Lemma rm_c_split x : forall ys ys', rm_c x ys = Some ys' ->
  exists l1 y l2, ys = l1 ++ y :: l2 /\ ys' = l1 ++ l2 /\ corrb x y = true.
Proof.
  induction ys as [|y r IH]; cbn [rm_c]; intros ys' H; [discriminate|].
  destruct (corrb x y) eqn:E.
  - injection H as <-. exists [], y, r. repeat split. exact E.
  - destruct (rm_c x r) as [r'|] eqn:R; [|discriminate]. cbn in H. injection H as <-.
    destruct (IH r' eq_refl) as [l1 [y0 [l2 [-> [-> C]]]]].
    exists (y :: l1), y0, l2. repeat split. exact C.
Qed.

Lemma perm_c_fwd : forall xs ys, perm_c xs ys = true ->
  forall x, In x xs -> exists y, In y ys /\ corrb x y = true.
Proof.
  induction xs as [|x0 xs IH]; intros ys H x Hx; [destruct Hx|].
  cbn [perm_c] in H. destruct (rm_c x0 ys) as [ys'|] eqn:R; [|discriminate].
  destruct (rm_c_split _ _ _ R) as [l1 [y [l2 [-> [-> C]]]]].
  destruct Hx as [<-|Hx].
  - exists y. split; [apply in_or_app; right; left; reflexivity|exact C].
  - destruct (IH _ H x Hx) as [y' [Hy' C']]. exists y'. split; [|exact C'].
    apply in_app_or in Hy'. apply in_or_app. destruct Hy'; [left|right; right]; assumption.
Qed.

Lemma perm_c_bwd : forall xs ys, perm_c xs ys = true ->
  forall y, In y ys -> exists x, In x xs /\ corrb x y = true.
Proof.
  induction xs as [|x0 xs IH]; intros ys H y Hy.
  - cbn [perm_c] in H. destruct ys; [destruct Hy|discriminate].
  - cbn [perm_c] in H. destruct (rm_c x0 ys) as [ys'|] eqn:R; [|discriminate].
    destruct (rm_c_split _ _ _ R) as [l1 [y0 [l2 [-> [-> C]]]]].
    apply in_app_or in Hy. destruct Hy as [Hy|[<-|Hy]].
    + destruct (IH _ H y) as [x [Hx Cx]]; [apply in_or_app; left; exact Hy|].
      exists x. split; [right; exact Hx|exact Cx].
    + exists x0. split; [left; reflexivity|exact C].
    + destruct (IH _ H y) as [x [Hx Cx]]; [apply in_or_app; right; exact Hy|].
      exists x. split; [right; exact Hx|exact Cx].
Qed.

(* ---------- TypedDict fields ---------- *)
Lemma fsub_c_keys xs ys : fsub_c xs ys = true -> incl (map fst xs) (map fst ys).
Proof.
  unfold fsub_c. rewrite forallb_forall. intros H s Hs.
  apply in_map_iff in Hs. destruct Hs as [f [<- Hf]]. specialize (H f Hf).
  destruct (lookup_f (fst f) ys) eqn:E; [|discriminate]. eapply lookup_f_Some_key. exact E.
Qed.

(* with equal lengths and distinct keys on the left, the key sets coincide and the right keys are distinct *)
Lemma keys_same (xs ys : list (string * ty)) :
  NoDup (map fst xs) -> List.length xs = List.length ys -> fsub_c xs ys = true ->
  NoDup (map fst ys) /\ incl (map fst ys) (map fst xs).
Proof.
  intros ND L F. pose proof (fsub_c_keys _ _ F) as I.
  assert (ND' : NoDup (map fst ys)).
  { eapply NoDup_incl_NoDup; [exact ND|rewrite !map_length; lia|exact I]. }
  split; [exact ND'|].
  apply NoDup_length_incl; [exact ND|rewrite !map_length; lia|exact I].
Qed.

(* every field of the right side is the image of the same-named field of the left side *)
Lemma fsub_c_bwd (xs ys : list (string * ty)) :
  NoDup (map fst xs) -> List.length xs = List.length ys -> fsub_c xs ys = true ->
  forall s y, In (s, y) ys -> exists x, In (s, x) xs /\ corrb x y = true.
Proof.
  intros ND L F s y Hy. destruct (keys_same _ _ ND L F) as [ND' I].
  assert (Hs : In s (map fst xs)) by (apply I; apply (in_map fst) in Hy; exact Hy).
  apply in_map_iff in Hs. destruct Hs as [[s' x] [Es Hx]]. cbn [fst] in Es. subst s'.
  exists x. split; [exact Hx|].
  unfold fsub_c in F. rewrite forallb_forall in F. specialize (F _ Hx). cbn [fst snd] in F.
  rewrite (lookup_f_NoDup s y ys ND' Hy) in F. exact F.
Qed.

Lemma NoDup_app_intro {A} (l1 l2 : list A) :
  NoDup l1 -> NoDup l2 -> (forall x, In x l1 -> In x l2 -> False) -> NoDup (l1 ++ l2).
Proof.
  induction l1 as [|a r IH]; intros H1 H2 D; [exact H2|].
  inversion H1 as [|? ? Hn H1']; subst. cbn. constructor.
  - intros Hi. apply in_app_or in Hi. destruct Hi as [Hi|Hi]; [exact (Hn Hi)|].
    apply (D a); [left; reflexivity|exact Hi].
  - apply IH; [exact H1'|exact H2|]. intros x Hx1 Hx2. apply (D x); [right; exact Hx1|exact Hx2].
Qed.

(* ---------- corrb preserves well-formedness ---------- *)
Lemma corrb_wf a : forall b, wf_ty a -> corrb a b = true -> wf_ty b.
Proof.
  induction a as [ | c | x IH | | x IH | x IH | x IH | k v0 IHk IHv | k v0 IHk IHv | xs IH | x IH
                 | a1 a2 a3 IH1 IH2 IH3 | xs IH | r o IHr IHo | s ] using ty_ind';
    intros b Wa E; destruct b; cbn [corrb] in E; try discriminate E; try exact I;
    try (cbn [wf_ty] in *; apply IH; assumption).
  - (* TDict *) cbn [wf_ty] in *. apply andb_prop in E. destruct E, Wa. split; [apply IHk|apply IHv]; assumption.
  - (* TDefaultDict *) cbn [wf_ty] in *. apply andb_prop in E. destruct E, Wa. split; [apply IHk|apply IHv]; assumption.
  - (* TTuple *) change (corrb (TTuple xs) (TTuple ts) = true) in E. rewrite corrb_tuple in E.
    apply wf_TTuple in Wa. apply wf_TTuple.
    revert ts E. induction xs as [|x xs IHxs]; intros [|y ys] E; cbn [forallb2] in E; try discriminate E; [constructor|].
    apply andb_prop in E. destruct E as [E1 E2]. inversion IH; subst. inversion Wa; subst.
    constructor; [auto|apply IHxs; assumption].
  - (* TGenerator *) cbn [wf_ty] in *. apply andb_prop in E. destruct E as [E E3]. apply andb_prop in E.
    destruct E as [E1 E2]. destruct Wa as [W1 [W2 W3]]. repeat split; [apply IH1|apply IH2|apply IH3]; assumption.
  - (* TUnion *) change (corrb (TUnion xs) (TUnion ts) = true) in E. rewrite corrb_union in E.
    apply wf_TUnion in Wa. apply wf_TUnion. rewrite Forall_forall in *. intros y Hy.
    destruct (perm_c_bwd _ _ E y Hy) as [x [Hx C]]. apply (IH x Hx); [apply Wa; exact Hx|exact C].
  - (* TTypedDict *)
    change (corrb (TTypedDict r o) (TTypedDict req opt) = true) in E. rewrite corrb_td in E.
    apply wf_TTypedDict in Wa. apply wf_TTypedDict. destruct Wa as [ND [Wr Wo]].
    apply andb_prop in E. destruct E as [E Eo]. apply andb_prop in E. destruct E as [E Elo].
    apply andb_prop in E. destruct E as [Elr Er]. apply Nat.eqb_eq in Elr, Elo.
    pose proof (NoDup_app_l _ _ ND) as NDr. pose proof (NoDup_app_r _ _ ND) as NDo.
    destruct (keys_same _ _ NDr Elr Er) as [NDr' Ir]. destruct (keys_same _ _ NDo Elo Eo) as [NDo' Io].
    split; [|split].
    + apply NoDup_app_intro; [exact NDr'|exact NDo'|].
      intros s H1 H2. apply (NoDup_app_disj _ _ s ND); [apply Ir; exact H1|apply Io; exact H2].
    + rewrite Forall_forall in *. intros [s y] Hy. cbn [snd].
      destruct (fsub_c_bwd _ _ NDr Elr Er s y Hy) as [x [Hx C]].
      apply (IHr _ Hx); [apply (Wr _ Hx)|exact C].
    + rewrite Forall_forall in *. intros [s y] Hy. cbn [snd].
      destruct (fsub_c_bwd _ _ NDo Elo Eo s y Hy) as [x [Hx C]].
      apply (IHo _ Hx); [apply (Wo _ Hx)|exact C].
Qed.

(* ---------- corrb preserves membership ---------- *)
Section CorrMember.
Variable anyb : bool.
Variable sub : cls -> cls -> bool.
Notation mem := (member anyb sub).

Lemma member_corrb_wf a : forall b v,
  wf_ty a -> corrb a b = true -> mem v a = true -> mem v b = true.
Proof.
  induction a as [ | c | x IH | | x IH | x IH | x IH | k v0 IHk IHv | k v0 IHk IHv | xs IH | x IH
                 | a1 a2 a3 IH1 IH2 IH3 | xs IH | r o IHr IHo | s ] using ty_ind';
    intros b v Wa E M; destruct b; cbn [corrb] in E; try discriminate E; try exact M.
  - (* TCls *) apply N.eqb_eq in E. subst. exact M.
  - (* TType *) cbn [member] in *. destruct v; try discriminate M.
    destruct x, b; cbn [corrb] in E; try discriminate E; try discriminate M; try exact M.
    apply N.eqb_eq in E. subst. exact M.
  - (* TList *) cbn [member] in *. destruct v; try discriminate M.
    revert M. apply forallb_imp. intros e _. apply IH; assumption.
  - (* TSet *) cbn [member] in *. destruct v; try discriminate M.
    revert M. apply forallb_imp. intros e _. apply IH; assumption.
  - (* TDict *) cbn [member wf_ty] in *. destruct Wa as [Wa1 Wa2].
    apply andb_prop in E. destruct E as [E1 E2].
    destruct v; try discriminate M; revert M; apply forallb_imp; intros kv _ H;
      apply andb_prop in H; destruct H as [H1 H2]; apply andb_true_intro; split;
      [apply IHk|apply IHv|apply IHk|apply IHv]; assumption.
  - (* TDefaultDict *) cbn [member wf_ty] in *. destruct Wa as [Wa1 Wa2].
    apply andb_prop in E. destruct E as [E1 E2].
    destruct v; try discriminate M; revert M; apply forallb_imp; intros kv _ H;
      apply andb_prop in H; destruct H as [H1 H2]; apply andb_true_intro; split;
      [apply IHk|apply IHv]; assumption.
  - (* TTuple *) change (corrb (TTuple xs) (TTuple ts) = true) in E. rewrite corrb_tuple in E.
    apply wf_TTuple in Wa.
    destruct v; try discriminate M. rewrite member_TTuple in *.
    revert ts es E M. induction xs as [|x xs IHxs]; intros [|y ys] es E M; cbn [forallb2] in E; try discriminate E.
    + exact M.
    + destruct es as [|e es]; [discriminate M|].
      apply andb_prop in E. destruct E as [E1 E2]. apply andb_prop in M. destruct M as [M1 M2].
      inversion IH as [|? ? IHx IHxs']; subst. inversion Wa; subst.
      apply andb_true_intro; split.
      * apply IHx; assumption.
      * apply IHxs; assumption.
  - (* TTupleVar *) cbn [member] in *. destruct v; try discriminate M.
    revert M. apply forallb_imp. intros e _. apply IH; assumption.
  - (* TUnion *) change (corrb (TUnion xs) (TUnion ts) = true) in E. rewrite corrb_union in E.
    apply wf_TUnion in Wa.
    rewrite member_TUnion in *. apply existsb_exists in M. destruct M as [x [Hx Mx]].
    destruct (perm_c_fwd _ _ E x Hx) as [y [Hy C]].
    apply existsb_exists. exists y. split; [exact Hy|].
    rewrite Forall_forall in IH, Wa. apply (IH x Hx); auto.
  - (* TTypedDict *)
    change (corrb (TTypedDict r o) (TTypedDict req opt) = true) in E.
    pose proof (corrb_wf _ _ Wa E) as Wb. rewrite corrb_td in E.
    apply wf_TTypedDict in Wa. apply wf_TTypedDict in Wb.
    destruct Wa as [NDa [Wr Wo]], Wb as [NDb [Wr' Wo']].
    apply andb_prop in E. destruct E as [E Eo]. apply andb_prop in E. destruct E as [E Elo].
    apply andb_prop in E. destruct E as [Elr Er]. apply Nat.eqb_eq in Elr, Elo.
    rewrite member_TTypedDict in *. destruct v; try discriminate M.
    apply andb_prop in M. destruct M as [MA MB]. apply andb_true_intro; split.
    + (* every item admitted *)
      revert MA. apply forallb_imp. intros [kk vv] _. cbn [fst snd]. destruct kk; try (intros; discriminate).
      unfold field_ty. intros H.
      destruct (lookup_f s r) as [ft|] eqn:Lr.
      * unfold fsub_c in Er. rewrite forallb_forall in Er.
        pose proof (lookup_f_In _ _ _ Lr) as Hin. specialize (Er _ Hin). cbn [fst snd] in Er.
        destruct (lookup_f s req) as [ft'|] eqn:Lr'; [|discriminate Er].
        rewrite Forall_forall in IHr, Wr. apply (IHr _ Hin); cbn [snd]; auto. apply (Wr _ Hin).
      * destruct (lookup_f s o) as [ft|] eqn:Lo; [|discriminate H].
        unfold fsub_c in Eo. rewrite forallb_forall in Eo.
        pose proof (lookup_f_In _ _ _ Lo) as Hin. specialize (Eo _ Hin). cbn [fst snd] in Eo.
        destruct (lookup_f s opt) as [ft'|] eqn:Lo'; [|discriminate Eo].
        assert (Lr' : lookup_f s req = None).
        { apply lookup_f_None. intros Hc. eapply (NoDup_app_disj _ _ s NDb); [exact Hc|].
          eapply lookup_f_Some_key. exact Lo'. }
        rewrite Lr'. rewrite Forall_forall in IHo, Wo. apply (IHo _ Hin); cbn [snd]; auto. apply (Wo _ Hin).
    + (* every required field of b present *)
      assert (Hincl : incl (map fst req) (map fst r)).
      { apply (keys_same r req); [apply NoDup_app_l in NDa; exact NDa|exact Elr|exact Er]. }
      rewrite forallb_forall in MB |- *. intros f' Hf'.
      assert (Hk : In (fst f') (map fst r)) by (apply Hincl; apply in_map; exact Hf').
      apply in_map_iff in Hk. destruct Hk as [f [Ef Hf]]. rewrite <- Ef. apply MB. exact Hf.
Qed.

(* the statement with both well-formedness premises (the second is implied: corrb_wf) *)
Lemma member_corrb a b v :
  wf_ty a -> wf_ty b -> corrb a b = true -> mem v a = true -> mem v b = true.
Proof. intros Wa _. apply member_corrb_wf. exact Wa. Qed.

End CorrMember.

(* wf_ty of the source is needed: with a repeated key the correspondence holds and membership is lost *)
Example ex_member_corrb_needs_wf :
  let a := TTypedDict [("a"%string, TCls cInt); ("a"%string, TCls cInt)] [] in
  let b := TTypedDict [("a"%string, TCls cInt); ("b"%string, TCls cStr)] [] in
  let v := VDict [(VStr "a", VAtom cInt 1)] in
  corrb a b = true /\ member false N.eqb v a = true /\ member false N.eqb v b = false /\ ~ wf_ty a.
Proof.
  cbn zeta. split; [reflexivity|]. split; [reflexivity|]. split; [reflexivity|].
  intros W. apply wf_TTypedDict in W. destruct W as [ND _]. cbn in ND.
  inversion ND as [|? ? Hn _]; subst. apply Hn. left. reflexivity.
Qed.

Print Assumptions corrb_wf.
Print Assumptions member_corrb_wf.
Print Assumptions member_corrb.
