(* C03 — tracing never changes what the traced program does  (PARTIAL: see C03_full_informal below).
   What is proved is about lists and tags REGENERATED FROM THE SOURCE on every run (Gen/EffectsConstants.v,
   Gen/TracerConstants.v): which primitive operations the tracer applies to the program's objects, the try/except
   of the profiler callback, and the finally block of the tracing context.  The classification of primitives into
   hook-free / hook-invoking is an assumption about CPython, validated by the tripwire differential runs. *)
From MT Require Import Types Effects EffectsFacts.

(* "computes the same results and output with and without tracing" for arbitrary programs is a statement about
   CPython and is not expressible here; it is exercised by the differential runs.  Kept visible: *)
Definition C03_full_informal : Prop :=
  forallb hook_free_prim (get_type_prims ++ get_dict_type_prims) = true
  /\ forallb hook_free_lookup lookup_prims = true                 (* FALSE today: kf_lookup_getattr *)
  /\ (forall h, callback h = ONormal)                             (* false for BaseException, by design *)
  /\ (forall body fl, trace_calls_exit body fl = Ctx 0 1 body).

(* Type collection applies only hook-free primitives to traced values: type(), issubclass on real types, and the
   container protocol under an exact-builtin-type guard.  No isinstance, getattr, hash, ==, bool, repr. *)
Theorem get_type_runs_no_user_code_partial :
  forallb hook_free_prim (get_type_prims ++ get_dict_type_prims) = true.
Proof. exact get_type_prims_hook_free. Qed.
Print Assumptions get_type_runs_no_user_code_partial.

(* Function lookup: every primitive is hook-free EXCEPT exactly the five known sites (finding kf_lookup_getattr):
   three isinstance tests on the class attribute found by getattr_static, and the two getattr calls of _has_code. *)
Theorem lookup_hooks_only_at_known_sites_partial :
  filter (fun p => negb (hook_free_lookup p)) lookup_prims =
  ["get_func_in_mro:isinstance"; "get_func_in_mro:isinstance"; "get_func_in_mro:isinstance";
   "_has_code:getattr"; "_has_code:getattr"]%string.
Proof. exact lookup_hooking_prims_exactly. Qed.
Print Assumptions lookup_hooks_only_at_known_sites_partial.

(* Containment: whatever Exception type collection, lookup or logger.log raise inside the profiler callback,
   the callback returns normally (and returns itself, so the profiler stays installed). *)
Theorem tracer_contains_failures :
  forall h, (forall e, h = ORaises e -> e = EExceptionSub) -> callback h = ONormal.
Proof. exact callback_contains. Qed.
Print Assumptions tracer_contains_failures.

(* Exit discipline: however the traced block ends (normally or with any exception) and whether or not flush
   fails with an Exception: the previous profiler is back, flush was called exactly once, and the block's own
   outcome is what the program sees. *)
Theorem trace_calls_exit_discipline :
  forall body fl, (forall e, fl = ORaises e -> e = EExceptionSub) -> trace_calls_exit body fl = Ctx 0 1 body.
Proof. exact exit_discipline. Qed.
Print Assumptions trace_calls_exit_discipline.

Theorem trace_calls_always_restores_and_flushes_once :
  forall body fl, profiler (trace_calls_exit body fl) = 0 /\ flushes (trace_calls_exit body fl) = 1.
Proof. exact exit_restores_always. Qed.
Print Assumptions trace_calls_always_restores_and_flushes_once.

Example ex_c03_nonvacuous :
  callback (ORaises EExceptionSub) = ONormal /\ callback (ORaises EBaseOnly) = ORaises EBaseOnly
  /\ trace_calls_exit (ORaises EExceptionSub) (ORaises EExceptionSub) = Ctx 0 1 (ORaises EExceptionSub)
  /\ hook_free_prim "isinstance" = false /\ hook_free_prim "iter(obj)" = false /\ hook_free_prim "iter(obj)@list" = true.
Proof. vm_compute. repeat split; reflexivity. Qed.
