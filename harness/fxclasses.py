"""Fixture classes for value generation (importable, so the codec can resolve them)."""


class A:
    pass


class B(A):
    pass


class C(A):
    pass


class D(B, C):
    pass


class E:
    pass


class F(E):
    pass


class X:
    pass


class Y:
    pass


class XY1(X, Y):
    pass


class YX1(Y, X):
    pass


class MyList(list):
    pass


class MyDict(dict):
    pass


class MyInt(int):
    pass


class MyStr(str):
    pass


class MyTuple(tuple):
    pass


class Outer:
    class Inner:
        pass


def some_function(x):
    return x


def some_generator():
    yield 1


USER_CLASSES = [A, B, C, D, E, F, X, Y, XY1, YX1, MyList, MyDict, MyInt, MyStr, MyTuple, Outer, Outer.Inner]
