#!/usr/bin/env python3
"""tools/keep_mutant.py <prop> <mN> <caught_by text>  — copy a confirmed seeded change into /verif/seeded/<prop>-<mN>/."""
import json, os, shutil, sys
prop, m, caught = sys.argv[1], sys.argv[2], sys.argv[3]
# wave-2 changes are named w2mN and live in /tmp/mutants_<prop>_w2/mN
src = f"/tmp/mutants_{prop}_{m[:2]}/{m[2:]}" if m[:2] in ("w2", "w3", "w4", "w5", "w6", "w7", "w8") else f"/tmp/mutants_{prop}/{m}"
dst = f"/verif/seeded/{prop}-{m}"
os.makedirs(dst, exist_ok=True)
for f in ("patch.diff", "demo.py"):
    shutil.copy(os.path.join(src, f), os.path.join(dst, f))
note = open(os.path.join(src, "note.txt")).read() if os.path.exists(os.path.join(src, "note.txt")) else ""
meta = {
    "property": prop,
    "breaks": note.strip().split("\n")[0][:400] if note else "",
    "needs_to_manifest": note.strip()[:1500],
    "what_i_ran": [
        "scratch worktree of /repo at HEAD: demo.py on the pristine tree -> PASS (exit 0)",
        "git apply patch.diff; /venv/bin/python -m pytest -q -p no:cacheprovider -> no new failures (only the baseline "
        "tests/test_config.py::TestDefaultCodeFilter::test_excludes_site_packages fails)",
        "demo.py with the change -> FAIL (exit 1)",
        f"VERIF_REPO=<worktree> ./check {prop} --tier quick (tools/try_mutant.sh)",
    ],
    "caught_by": caught,
    "written_by": "independent sub-agent given only the property text and its own worktree",
}
json.dump(meta, open(os.path.join(dst, "meta.json"), "w"), indent=1)
print("kept", dst)
