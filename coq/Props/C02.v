(* C02 — every completed call yields exactly one faithful call trace.
   The tracer (Model/Tracer.v: step = CallTracer.__call__/handle_call/handle_return, with the opcode tables and
   the coroutine guard read from the source on every run) against a reference monitor that looks only at ground
   truth.  `wf_history` is the environment assumption (what CPython delivers): per frame
   call . (suspend . call)* . final return, one code object per frame, and opcode/ground-truth consistency
   (`consistent`), which EXCLUDES the known finding class kf_raise_at_yield (Refuted/C02.v). *)
From MT Require Import Types Tracer TracerFacts.

(* Faithfulness, per call (= per frame), for every well-formed history and any interleaving of frames:
   the traces logged for frame f are exactly what the declarative description of that call prescribes — nothing
   unless the call is of admitted resolvable code and has finished; then exactly one trace carrying the resolved
   function, the argument types at the FIRST call event, the return type iff the call returned (absent iff it
   raised), and the union of the types it yielded (awaits are not yields). *)
Theorem tracer_log_faithful :
  forall rate H f, sampling rate = false -> wf_history H = true ->
    logged_for f (run rate H) = expected_frame (proj f H).
Proof. exact tracer_log_faithful_frame. Qed.
Print Assumptions tracer_log_faithful.

(* logged at most once *)
Theorem tracer_logs_at_most_once :
  forall rate H f, sampling rate = false -> wf_history H = true ->
    List.length (logged_for f (run rate H)) <= 1.
Proof. intros. rewrite tracer_log_faithful_frame by assumption. apply expected_frame_le1. Qed.
Print Assumptions tracer_logs_at_most_once.

(* No residue: the tracer's per-call table holds frame f exactly while the call is in flight *)
Theorem tracer_no_residue :
  forall rate H f, sampling rate = false -> wf_history H = true ->
    (match lookup f (live (run rate H)) with Some _ => true | None => false end) = pending_frame (proj f H).
Proof. exact tracer_no_residue_frame. Qed.
Print Assumptions tracer_no_residue.

(* The whole machine equals the reference monitor (which never reads an opcode) on consistent events *)
Theorem tracer_refines_monitor :
  forall rate H, sampling rate = false -> forallb ev_consistent H = true -> run rate H = spec_run H.
Proof. exact run_faithful. Qed.
Print Assumptions tracer_refines_monitor.

(* Order of completion: the log is append-only; entries appear when the completing event is processed and are
   never reordered or removed *)
Theorem tracer_log_append_only :
  forall rate H1 H2, exists new, logged (run rate (H1 ++ H2)) = new ++ logged (run rate H1).
Proof. exact log_grows_only_at_completion. Qed.
Print Assumptions tracer_log_append_only.

(* The source constants the model was written against (regenerated from tracing.py on every run) *)
Theorem tracer_source_shape :
  tr_return_ops = [op_retv; op_retc] /\ tr_yield_ops = [op_yield] /\ tr_yield_skips_coroutines = true
  /\ tr_handle_call_steps = ["sample"; "lookup"; "unresolved_return"; "resumed_return"; "argnames"; "bind"; "store"]%string
  /\ tr_call_gates = ["unsupported_event"; "filter_rejects"]%string
  /\ (forall c, gated c = negb (c_admit c)).
Proof. repeat split; try reflexivity. Qed.
Print Assumptions tracer_source_shape.

(* Non-vacuity: two interleaved generator frames and a coroutine; the history is well formed and the log is
   the expected one. *)
Example ex_c02_nonvacuous :
  let g := Code 1 false true (Some 7%N) KGen in
  let co := Code 2 false true (Some 8%N) KCoro in
  let H := [EvCall 10 g [("a"%string, TCls cInt)] 0; EvReturn 10 g SYield op_yield (TCls cInt);
            EvCall 11 g [("a"%string, TCls cStr)] 0; EvReturn 11 g SYield op_yield (TCls cStr);
            EvCall 12 co [] 0; EvReturn 12 co SAwait op_yield (TCls cNone);
            EvCall 10 g [("a"%string, TCls cStr)] 0; EvReturn 10 g SYield op_yield (TCls cStr);
            EvCall 12 co [] 0; EvReturn 12 co SReturn op_retc (TCls cInt);
            EvCall 10 g [] 0; EvReturn 10 g SReturn op_retv (TCls cNone);
            EvCall 11 g [] 0; EvReturn 11 g SRaise "RERAISE"%string (TCls cNone)] in
  wf_history H = true
  /\ logged_for 10 (run None H) = [Trace 7 [("a"%string, TCls cInt)] (Some (TCls cNone)) (Some (TUnion [TCls cInt; TCls cStr]))]
  /\ logged_for 11 (run None H) = [Trace 7 [("a"%string, TCls cStr)] None (Some (TCls cStr))]
  /\ logged_for 12 (run None H) = [Trace 8 [] (Some (TCls cInt)) None]
  /\ live (run None H) = [].
Proof. vm_compute. repeat split; reflexivity. Qed.
