(* Proofs/StubSetRewriteUnion.v — C14: each rewriter's Union hook (RemoveEmptyContainers, RewriteConfigDict,
   RewriteLargeUnion, RewriteMostSpecificCommonBase) maps two member lists that are the same SET up to Python's ==
   (all members TypedDict-free) to ==-equal results. *)
From MT Require Import Types StubSet Infer Rewrite RewriteTrigger Hier TypesFacts UnionFacts StubSetEquiv StubSetMerge
  MergePermBase MergePermEquiv RewriteMono RewriteTriggerFacts RewriteHier StubSetRewriteBase StubSetRewriteHier.
From Coq Require Import Lia.
Open Scope list_scope.

(* ---------- observations that == cannot tell apart ---------- *)
Lemma py_is_tany a b : py_eqb a b = true -> is_tany a = is_tany b.
Proof. intros E. destruct a; destruct b; try (cbn in E; discriminate E); reflexivity. Qed.
Lemma py_is_tdict a b : py_eqb a b = true -> is_tdict a = is_tdict b.
Proof. intros E. destruct a; destruct b; try (cbn in E; discriminate E); reflexivity. Qed.
Lemma py_is_tcls a b : py_eqb a b = true -> is_tcls a = is_tcls b.
Proof. intros E. destruct a; destruct b; try (cbn in E; discriminate E); reflexivity. Qed.
Lemma py_is_td a b : py_eqb a b = true -> is_td a = is_td b.
Proof. intros E. destruct a; destruct b; try (cbn in E; discriminate E); reflexivity. Qed.
Lemma py_is_ttuple a b : py_eqb a b = true -> is_ttuple a = is_ttuple b.
Proof. intros E. destruct a; destruct b; try (cbn in E; discriminate E); reflexivity. Qed.
Lemma py_kind a b : py_eqb a b = true -> kind_of a = kind_of b.
Proof. intros E. destruct a; destruct b; try (cbn in E; discriminate E); reflexivity. Qed.
Lemma py_tcls c b : py_eqb (TCls c) b = true -> b = TCls c.
Proof. destruct b; cbn [py_eqb]; intros E; try discriminate E. apply N.eqb_eq in E. subst. reflexivity. Qed.

Lemma forallb2_length {A B} (f : A -> B -> bool) xs : forall ys, forallb2 f xs ys = true -> List.length xs = List.length ys.
Proof.
  induction xs as [|x xs IH]; intros [|y ys] H; cbn [forallb2] in H; try discriminate H; [reflexivity|].
  apply andb_prop in H. destruct H as [_ H]. cbn [List.length]. f_equal. apply IH. exact H.
Qed.

Lemma forallb2_In_l {A B} (f : A -> B -> bool) xs : forall ys x, forallb2 f xs ys = true -> In x xs ->
  exists y, In y ys /\ f x y = true.
Proof.
  induction xs as [|x0 xs IH]; intros [|y ys] x H Hx; cbn [forallb2] in H; try discriminate H; [destruct Hx|].
  apply andb_prop in H. destruct H as [H1 H2]. destruct Hx as [<-|Hx].
  - exists y. split; [left; reflexivity|exact H1].
  - destruct (IH ys x H2 Hx) as [y' [Hy' E]]. exists y'. split; [right; exact Hy'|exact E].
Qed.

Lemma forallb2_tany xs : forall ys, forallb2 py_eqb xs ys = true -> forallb is_tany xs = forallb is_tany ys.
Proof.
  induction xs as [|x xs IH]; intros [|y ys] H; cbn [forallb2] in H; try discriminate H; [reflexivity|].
  apply andb_prop in H. destruct H as [H1 H2]. cbn [forallb]. rewrite (py_is_tany x y H1), (IH ys H2). reflexivity.
Qed.

Lemma forallb_psub (p : ty -> bool) xs ys :
  (forall x y, py_eqb x y = true -> p x = p y) -> psub ys xs -> forallb p xs = true -> forallb p ys = true.
Proof.
  intros Hp P H. rewrite forallb_forall in *. intros y Hy. destruct (P y Hy) as [x [Hx E]].
  rewrite (Hp y x E). apply H. exact Hx.
Qed.

Lemma forallb_psub_inv (p : ty -> bool) xs ys :
  (forall x y, py_eqb x y = true -> p x = p y) -> psub xs ys -> psub ys xs -> forallb p xs = forallb p ys.
Proof. intros Hp P1 P2. apply bool_eq_iff; apply forallb_psub; assumption. Qed.

Lemma py_is_empty a b : py_eqb a b = true -> is_empty a = is_empty b.
Proof.
  intros E. destruct a; destruct b; try (cbn in E; discriminate E); cbn [is_empty]; try reflexivity.
  - cbn [py_eqb] in E. apply py_is_tany. exact E.
  - cbn [py_eqb] in E. apply py_is_tany. exact E.
  - cbn [py_eqb] in E. apply py_is_tany. exact E.
  - cbn [py_eqb] in E. apply py_is_tany. exact E.
  - cbn [py_eqb] in E. apply andb_prop in E. destruct E as [E1 E2].
    rewrite (py_is_tany _ _ E1), (py_is_tany _ _ E2). reflexivity.
  - cbn [py_eqb] in E. apply andb_prop in E. destruct E as [E1 E2].
    rewrite (py_is_tany _ _ E1), (py_is_tany _ _ E2). reflexivity.
  - rewrite py_eqb_TTuple in E. rewrite (forallb2_length _ _ _ E), (forallb2_tany _ _ E). reflexivity.
  - cbn [py_eqb] in E. apply andb_prop in E. destruct E as [E E3]. apply andb_prop in E. destruct E as [E1 E2].
    rewrite (py_is_tany _ _ E1), (py_is_tany _ _ E2), (py_is_tany _ _ E3). reflexivity.
  - apply py_union_inv in E. destruct E as [_ [_ [P1 P2]]].
    rewrite (forallb_psub_inv is_tany ts ts0 py_is_tany P1 P2).
    destruct ts as [|x r]; destruct ts0 as [|y r']; try reflexivity.
    + apply psub_nil_r in P2. discriminate P2.
    + apply psub_nil_r in P1. discriminate P1.
Qed.

(* ---------- RemoveEmptyContainers ---------- *)
Lemma hns_fwd e e' ts ts' : kind_of e = kind_of e' -> psub ts ts' ->
  has_nonempty_sibling e ts = true -> has_nonempty_sibling e' ts' = true.
Proof.
  unfold has_nonempty_sibling. intros K P H. apply existsb_exists in H. destruct H as [s [Hs C]].
  destruct (P s Hs) as [s' [Hs' E]]. apply existsb_exists. exists s'. split; [exact Hs'|].
  rewrite <- (py_kind s s' E), <- (py_is_empty s s' E), <- K. exact C.
Qed.

Lemma keep_inv ts ts' e e' : psub ts ts' -> psub ts' ts -> py_eqb e e' = true -> keep ts e = keep ts' e'.
Proof.
  intros P1 P2 E. unfold keep. rewrite (py_is_empty e e' E). f_equal. f_equal.
  apply bool_eq_iff; apply hns_fwd; auto; [apply py_kind; exact E|symmetry; apply py_kind; exact E].
Qed.

Lemma psub_filter_keep ts ts' : psub ts ts' -> psub ts' ts ->
  psub (filter (keep ts) ts) (filter (keep ts') ts').
Proof.
  intros P1 P2 x Hx. apply filter_In in Hx. destruct Hx as [Hx K]. destruct (P1 x Hx) as [y [Hy E]].
  exists y. split; [|exact E]. apply filter_In. split; [exact Hy|]. rewrite <- (keep_inv ts ts' x y P1 P2 E). exact K.
Qed.

(* ---------- RewriteConfigDict ---------- *)
Lemma py_dict_key e e' : py_eqb e e' = true -> py_eqb (dict_key e) (dict_key e') = true.
Proof.
  intros E. destruct e; destruct e'; try reflexivity; try (cbn in E; discriminate E).
  cbn [py_eqb dict_key] in *. apply andb_prop in E. tauto.
Qed.
Lemma py_dict_val e e' : py_eqb e e' = true -> py_eqb (dict_val e) (dict_val e') = true.
Proof.
  intros E. destruct e; destruct e'; try reflexivity; try (cbn in E; discriminate E).
  cbn [py_eqb dict_val] in *. apply andb_prop in E. tauto.
Qed.
Lemma tdfree_dict_key t : has_td t = false -> has_td (dict_key t) = false.
Proof. destruct t; cbn [dict_key has_td]; intros H; try reflexivity. apply orb_false_elim in H. tauto. Qed.
Lemma tdfree_dict_val t : has_td t = false -> has_td (dict_val t) = false.
Proof. destruct t; cbn [dict_val has_td]; intros H; try reflexivity. apply orb_false_elim in H. tauto. Qed.

Lemma psub_map (f : ty -> ty) ts ts' :
  (forall x y, In x ts -> In y ts' -> py_eqb x y = true -> py_eqb (f x) (f y) = true) ->
  psub ts ts' -> psub (map f ts) (map f ts').
Proof.
  intros Hf P u Hu. apply in_map_iff in Hu. destruct Hu as [x [<- Hx]]. destruct (P x Hx) as [y [Hy E]].
  exists (f y). split; [apply in_map; exact Hy|apply Hf; assumption].
Qed.

Lemma tfl_map (f : ty -> ty) ts : (forall x, In x ts -> has_td x = false -> has_td (f x) = false) -> tfl ts -> tfl (map f ts).
Proof. intros Hf T u Hu. apply in_map_iff in Hu. destruct Hu as [x [<- Hx]]. apply Hf; [exact Hx|apply T; exact Hx]. Qed.

Lemma rcd_cond_fwd t0 rest t0' rest' :
  tfl (t0 :: rest) -> tfl (t0' :: rest') -> psub (t0' :: rest') (t0 :: rest) ->
  here_rcd (t0 :: rest) = true ->
  here_rcd (t0' :: rest') = true /\ py_eqb (dict_key t0) (dict_key t0') = true.
Proof.
  intros T T' P H. unfold here_rcd in *. apply andb_prop in H. destruct H as [HD HK].
  rewrite forallb_forall in HK.
  assert (K0 : has_td (dict_key t0) = false) by (apply tdfree_dict_key; apply T; left; reflexivity).
  assert (K : forall e, In e (t0 :: rest) -> py_eqb (dict_key t0) (dict_key e) = true).
  { intros e [<-|He]; [apply py_eqb_refl_tdfree; exact K0|apply HK; exact He]. }
  assert (K' : forall e', In e' (t0' :: rest') -> py_eqb (dict_key e') (dict_key t0) = true).
  { intros e' He'. destruct (P e' He') as [e [He E]]. apply py_dict_key in E.
    assert (X : has_td (dict_key e') = false) by (apply tdfree_dict_key; apply T'; exact He').
    assert (Y : has_td (dict_key e) = false) by (apply tdfree_dict_key; apply T; exact He).
    apply (py_eqb_trans_tdfree _ (dict_key e) _ X Y K0 E). apply py_eqb_sym_tdfree; auto. }
  assert (K0' : has_td (dict_key t0') = false) by (apply tdfree_dict_key; apply T'; left; reflexivity).
  split.
  - apply andb_true_intro. split.
    + apply (forallb_psub is_tdict (t0 :: rest) (t0' :: rest') py_is_tdict P HD).
    + apply forallb_forall. intros e' He'.
      assert (X : has_td (dict_key e') = false) by (apply tdfree_dict_key; apply T'; right; exact He').
      apply (py_eqb_trans_tdfree _ (dict_key t0) _ K0' K0 X); [apply K'; left; reflexivity|].
      apply py_eqb_sym_tdfree; auto. apply K'. right. exact He'.
  - apply py_eqb_sym_tdfree; auto. apply K'. left. reflexivity.
Qed.

Lemma rcd_union_cons t0 rest :
  rcd_union (t0 :: rest) = if here_rcd (t0 :: rest) then TDict (dict_key t0) (union_mk (map dict_val (t0 :: rest)))
                           else TUnion (t0 :: rest).
Proof. reflexivity. Qed.

Theorem rcd_union_py ts ts' : tfl ts -> tfl ts' -> psub ts ts' -> psub ts' ts ->
  py_eqb (rcd_union ts) (rcd_union ts') = true.
Proof.
  intros T T' P1 P2. destruct ts as [|t0 rest]; destruct ts' as [|t0' rest'].
  - reflexivity.
  - apply psub_nil_r in P2. discriminate P2.
  - apply psub_nil_r in P1. discriminate P1.
  - rewrite !rcd_union_cons.
    destruct (here_rcd (t0 :: rest)) eqn:C; destruct (here_rcd (t0' :: rest')) eqn:C'.
    + destruct (rcd_cond_fwd t0 rest t0' rest' T T' P2 C) as [_ EK].
      cbn [py_eqb]. rewrite EK. cbn [andb].
      apply union_mk_py.
      * apply tfl_map; [|exact T]. intros x _. apply tdfree_dict_val.
      * apply tfl_map; [|exact T']. intros x _. apply tdfree_dict_val.
      * apply psub_map; [|exact P1]. intros x y _ _. apply py_dict_val.
      * apply psub_map; [|exact P2]. intros x y _ _. apply py_dict_val.
    + destruct (rcd_cond_fwd t0 rest t0' rest' T T' P2 C) as [X _]. rewrite X in C'. discriminate C'.
    + destruct (rcd_cond_fwd t0' rest' t0 rest T' T P1 C') as [X _]. rewrite X in C. discriminate C.
    + apply py_union_intro; assumption.
Qed.

(* ---------- RewriteLargeUnion: homogeneous tuples ---------- *)
Definition tup_elems (ts : list ty) : list ty := flat_map (fun t => match t with TTuple es => es | _ => [] end) ts.

Lemma scan_closed ts : forall vt, to_tuple_scan vt ts =
  if forallb is_ttuple ts then
    match (match vt with Some v => Some v | None => hd_error (tup_elems ts) end) with
    | None => Some None
    | Some v => if forallb (fun e => isb e v) (tup_elems ts) then Some (Some v) else None
    end
  else None.
Proof.
  induction ts as [|t ts IH]; intros vt.
  - destruct vt; reflexivity.
  - destruct t; try reflexivity. destruct ts0 as [|a es].
    + cbn [to_tuple_scan]. rewrite IH. reflexivity.
    + cbn [to_tuple_scan]. rewrite IH.
      unfold tup_elems. cbn [flat_map forallb is_ttuple andb app hd_error]. fold (tup_elems ts).
      destruct vt as [w|].
      * change (isb a w && forallb (fun e => isb e w) es) with (forallb (fun e => isb e w) (a :: es)).
        change (isb a w && forallb (fun e => isb e w) (es ++ tup_elems ts))
          with (forallb (fun e => isb e w) ((a :: es) ++ tup_elems ts)).
        rewrite forallb_app. destruct (forallb (fun e => isb e w) (a :: es)); [|destruct (forallb is_ttuple ts); reflexivity].
        reflexivity.
      * change (isb a a && forallb (fun e => isb e a) es) with (forallb (fun e => isb e a) (a :: es)).
        change (isb a a && forallb (fun e => isb e a) (es ++ tup_elems ts))
          with (forallb (fun e => isb e a) ((a :: es) ++ tup_elems ts)).
        rewrite forallb_app. destruct (forallb (fun e => isb e a) (a :: es)); [|destruct (forallb is_ttuple ts); reflexivity].
        reflexivity.
Qed.

Lemma in_tup_elems e ts : In e (tup_elems ts) <-> exists es, In (TTuple es) ts /\ In e es.
Proof.
  unfold tup_elems. rewrite in_flat_map. split.
  - intros [t [Ht He]]. destruct t; try destruct He. exists ts0. split; assumption.
  - intros [es [Ht He]]. exists (TTuple es). split; assumption.
Qed.

Lemma tfl_tup_elems ts : tfl ts -> tfl (tup_elems ts).
Proof.
  intros T e He. apply in_tup_elems in He. destruct He as [es [Ht He]]. specialize (T _ Ht).
  cbn [has_td] in T. eapply existsb_false_In; eassumption.
Qed.

Lemma psub_tup_elems ts ts' : psub ts ts' -> psub (tup_elems ts) (tup_elems ts').
Proof.
  intros P e He. apply in_tup_elems in He. destruct He as [es [Ht He]]. destruct (P _ Ht) as [y [Hy E]].
  destruct y; try (cbn in E; discriminate E). rewrite py_eqb_TTuple in E.
  destruct (forallb2_In_l _ _ _ e E He) as [e' [He' Ee]]. exists e'. split; [|exact Ee].
  apply in_tup_elems. exists ts0. split; assumption.
Qed.

Lemma homog_fwd E E' v v' : tfl E -> tfl E' -> In v E -> In v' E' -> psub E' E ->
  forallb (fun e => isb e v) E = true -> forallb (fun e => isb e v') E' = true /\ py_eqb v v' = true.
Proof.
  intros T T' Hv Hv' P H. rewrite forallb_forall in H.
  assert (Tv : has_td v = false) by (apply T; exact Hv).
  assert (A : forall e, In e E -> py_eqb e v = true).
  { intros e He. specialize (H e He). unfold isb in H. apply andb_prop in H. tauto. }
  assert (A' : forall e', In e' E' -> py_eqb e' v = true).
  { intros e' He'. destruct (P e' He') as [e [He Ee]].
    apply (py_eqb_trans_tdfree e' e v); auto. }
  assert (Tv' : has_td v' = false) by (apply T'; exact Hv').
  assert (V : py_eqb v v' = true) by (apply py_eqb_sym_tdfree; auto).
  split; [|exact V]. apply forallb_forall. intros e' He'. unfold isb. rewrite (T' e' He'). cbn [negb andb].
  apply (py_eqb_trans_tdfree e' v v'); auto.
Qed.

Definition opt_py (a b : option ty) : Prop :=
  match a, b with Some x, Some y => py_eqb x y = true | None, None => True | _, _ => False end.

Lemma rlu_to_tuple_py ts ts' : tfl ts -> tfl ts' -> psub ts ts' -> psub ts' ts ->
  opt_py (rlu_to_tuple ts) (rlu_to_tuple ts').
Proof.
  intros T T' P1 P2. unfold rlu_to_tuple. rewrite !scan_closed.
  rewrite (forallb_psub_inv is_ttuple ts ts' py_is_ttuple P1 P2).
  destruct (forallb is_ttuple ts'); [|exact I].
  pose proof (tfl_tup_elems _ T) as TE. pose proof (tfl_tup_elems _ T') as TE'.
  pose proof (psub_tup_elems _ _ P1) as Q1. pose proof (psub_tup_elems _ _ P2) as Q2.
  destruct (tup_elems ts) as [|v E0] eqn:EE; destruct (tup_elems ts') as [|v' E0'] eqn:EE'; cbn [hd_error].
  - exact I.
  - apply psub_nil_r in Q2. discriminate Q2.
  - apply psub_nil_r in Q1. discriminate Q1.
  - destruct (forallb (fun e => isb e v) (v :: E0)) eqn:F; destruct (forallb (fun e => isb e v') (v' :: E0')) eqn:F'.
    + destruct (homog_fwd _ _ v v' TE TE' (or_introl eq_refl) (or_introl eq_refl) Q2 F) as [_ V]. exact V.
    + destruct (homog_fwd _ _ v v' TE TE' (or_introl eq_refl) (or_introl eq_refl) Q2 F) as [X _].
      rewrite X in F'. discriminate F'.
    + destruct (homog_fwd _ _ v' v TE' TE (or_introl eq_refl) (or_introl eq_refl) Q1 F') as [X _].
      rewrite X in F. discriminate F.
    + exact I.
Qed.

(* ---------- RewriteLargeUnion: the first common ancestor ---------- *)
Section LargeUnion.
Variable h : hierarchy.
Hypothesis Hcons : rw_mro_consistentb h = true.
Hypothesis Hself : mro_selfb h = true.

Definition cls_part (ts : list ty) : ty :=
  match ts with
  | TCls c0 :: _ =>
      if forallb is_tcls ts then
        match find (common_anc h ts) (mro_dflt h c0) with Some a => TCls a | None => TAny end
      else TAny
  | _ => TAny
  end.

Lemma rlu_union_eq n ts :
  rlu_union h n ts = if Nat.leb (List.length ts) n then TUnion ts else
                     match rlu_to_tuple ts with Some t => t | None => cls_part ts end.
Proof. reflexivity. Qed.

Lemma cls_part_false ts : forallb is_tcls ts = false -> cls_part ts = TAny.
Proof. intros F. unfold cls_part. destruct ts as [|t r]; [reflexivity|]. destruct t; try reflexivity. rewrite F. reflexivity. Qed.

Lemma psub_incl_cls ts ts' : forallb is_tcls ts = true -> psub ts ts' -> incl ts ts'.
Proof.
  intros F P x Hx. rewrite forallb_forall in F. specialize (F x Hx). destruct x; try discriminate F.
  destruct (P _ Hx) as [y [Hy E]]. apply py_tcls in E. subst. exact Hy.
Qed.

Lemma find_ext {A} (f g : A -> bool) l : (forall x, f x = g x) -> find f l = find g l.
Proof. intros H. induction l as [|x l IH]; [reflexivity|]. cbn [find]. rewrite H, IH. reflexivity. Qed.

Lemma cls_part_inv ts ts' : psub ts ts' -> psub ts' ts -> cls_part ts = cls_part ts'.
Proof.
  intros P1 P2. pose proof (forallb_psub_inv is_tcls ts ts' py_is_tcls P1 P2) as FF.
  destruct (forallb is_tcls ts) eqn:F.
  - symmetry in FF. pose proof (psub_incl_cls _ _ F P1) as I1. pose proof (psub_incl_cls _ _ FF P2) as I2.
    destruct ts as [|t r]; destruct ts' as [|t' r'].
    + reflexivity.
    + apply psub_nil_r in P2. discriminate P2.
    + apply psub_nil_r in P1. discriminate P1.
    + unfold cls_part. rewrite F, FF.
      destruct t as [ | c0 | | | | | | | | | | | | | ]; try (cbn in F; discriminate F).
      destruct t' as [ | c0' | | | | | | | | | | | | | ]; try (cbn in FF; discriminate FF).
      rewrite (find_ext (common_anc h (TCls c0 :: r)) (common_anc h (TCls c0' :: r'))).
      * rewrite (first_common_anc h Hcons Hself (TCls c0' :: r') c0 c0'); [reflexivity| |left; reflexivity].
        apply I1. left. reflexivity.
      * intros a. unfold common_anc. f_equal. apply forallb_same_set; assumption.
  - rewrite (cls_part_false ts F). symmetry. apply cls_part_false. rewrite <- FF. reflexivity.
Qed.

Theorem rlu_union_py n ts ts' : tfl ts -> tfl ts' -> nodupb [] ts = true -> nodupb [] ts' = true ->
  psub ts ts' -> psub ts' ts -> py_eqb (rlu_union h n ts) (rlu_union h n ts') = true.
Proof.
  intros T T' N N' P1 P2. rewrite !rlu_union_eq.
  rewrite <- (same_set_length ts ts' T T' N N' P1 P2).
  destruct (Nat.leb (List.length ts) n); [apply py_union_intro; assumption|].
  pose proof (rlu_to_tuple_py ts ts' T T' P1 P2) as R.
  destruct (rlu_to_tuple ts) as [x|]; destruct (rlu_to_tuple ts') as [y|]; cbn [opt_py] in R; try contradiction; [exact R|].
  rewrite (cls_part_inv ts ts' P1 P2).
  unfold cls_part. repeat (match goal with |- context [match ?x with _ => _ end] => destruct x end);
    try reflexivity. cbn [py_eqb]. apply N.eqb_refl.
Qed.
End LargeUnion.

(* ---------- RewriteMostSpecificCommonBase ---------- *)
Definition prefix (p l : list kls) : Prop := exists s, l = p ++ s.

Lemma prefix_refl l : prefix l l.
Proof. exists []. rewrite app_nil_r. reflexivity. Qed.
Lemma prefix_trans a b c : prefix a b -> prefix b c -> prefix a c.
Proof. intros [s ->] [s' ->]. exists (s ++ s'). rewrite app_assoc. reflexivity. Qed.
Lemma prefix_antisym a b : prefix a b -> prefix b a -> a = b.
Proof.
  intros [s Hs] [s' Hs']. assert (L : List.length s = 0).
  { apply (f_equal (@List.length kls)) in Hs, Hs'. rewrite app_length in *. lia. }
  destruct s; [|discriminate L]. rewrite app_nil_r in Hs. symmetry. exact Hs.
Qed.

Lemma kls_eqb_refl x : kls_eqb x x = true.
Proof. destruct x; cbn; [apply N.eqb_refl|apply Nat.eqb_refl]. Qed.

Lemma cp_prefix_l a : forall b, prefix (common_prefix a b) a.
Proof.
  induction a as [|x a IH]; intros [|y b]; cbn [common_prefix]; try (eexists; reflexivity).
  destruct (kls_eqb x y); [|eexists; reflexivity]. destruct (IH b) as [s Hs]. exists s. cbn [app]. f_equal. exact Hs.
Qed.
Lemma cp_prefix_r a : forall b, prefix (common_prefix a b) b.
Proof.
  induction a as [|x a IH]; intros [|y b]; cbn [common_prefix]; try (eexists; reflexivity).
  destruct (kls_eqb x y) eqn:E; [|eexists; reflexivity]. apply kls_eqb_eq in E. subst.
  destruct (IH b) as [s Hs]. exists s. cbn [app]. f_equal. exact Hs.
Qed.
Lemma cp_glb q : forall a b, prefix q a -> prefix q b -> prefix q (common_prefix a b).
Proof.
  induction q as [|x q IH]; intros a b [s ->] [s' ->]; [eexists; reflexivity|].
  cbn [app common_prefix]. rewrite kls_eqb_refl.
  destruct (IH (q ++ s) (q ++ s')) as [u Hu]; try (eexists; reflexivity). exists u. cbn [app]. f_equal. exact Hu.
Qed.

Lemma fold_cp_prefix cs : forall c0 l, In l (c0 :: cs) -> prefix (fold_left common_prefix cs c0) l.
Proof.
  induction cs as [|c cs IH]; intros c0 l Hl; cbn [fold_left].
  - destruct Hl as [<-|[]]. apply prefix_refl.
  - destruct Hl as [<-|[<-|Hl]].
    + eapply prefix_trans; [apply IH; left; reflexivity|apply cp_prefix_l].
    + eapply prefix_trans; [apply IH; left; reflexivity|apply cp_prefix_r].
    + apply IH. right. exact Hl.
Qed.
Lemma fold_cp_glb cs : forall c0 q, (forall l, In l (c0 :: cs) -> prefix q l) -> prefix q (fold_left common_prefix cs c0).
Proof.
  induction cs as [|c cs IH]; intros c0 q H; cbn [fold_left].
  - apply H. left. reflexivity.
  - apply IH. intros l [<-|Hl].
    + apply cp_glb; apply H; [left|right; left]; reflexivity.
    + apply H. right. right. exact Hl.
Qed.

(* the common prefix of a family of chains depends only on the SET of chains *)
Lemma fold_cp_set c0 cs c0' cs' : incl (c0 :: cs) (c0' :: cs') -> incl (c0' :: cs') (c0 :: cs) ->
  fold_left common_prefix cs c0 = fold_left common_prefix cs' c0'.
Proof.
  intros I1 I2. apply prefix_antisym; apply fold_cp_glb; intros l Hl; apply fold_cp_prefix; [apply I2|apply I1]; exact Hl.
Qed.

Section CommonBase.
Variable bt : bases_table.

Lemma chains_cls fuel ts : forall i, forallb is_tcls ts = true ->
  chains bt fuel i ts = map (fun t => map KCls (compute_bases bt fuel (cls_of t) [])) ts.
Proof.
  induction ts as [|t ts IH]; intros i F; [reflexivity|]. cbn [forallb] in F. apply andb_prop in F. destruct F as [F1 F2].
  cbn [chains map]. rewrite (IH (S i) F2). destruct t; try discriminate F1. reflexivity.
Qed.

Theorem msb_union_py ts ts' : tfl ts -> tfl ts' -> psub ts ts' -> psub ts' ts ->
  py_eqb (msb_union bt ts) (msb_union bt ts') = true.
Proof.
  intros T T' P1 P2. unfold msb_union.
  assert (Hp : forall x y, py_eqb x y = true -> is_tcls x || is_td x = is_tcls y || is_td y).
  { intros x y E. rewrite (py_is_tcls x y E), (py_is_td x y E). reflexivity. }
  rewrite (forallb_psub_inv (fun t => is_tcls t || is_td t) ts ts' Hp P1 P2).
  pose proof (py_union_intro ts ts' T T' P1 P2) as U.
  destruct (forallb (fun t => is_tcls t || is_td t) ts') eqn:C'; [|exact U].
  assert (C : forallb (fun t => is_tcls t || is_td t) ts = true).
  { rewrite (forallb_psub_inv (fun t => is_tcls t || is_td t) ts ts' Hp P1 P2). exact C'. }
  assert (K : forall l, tfl l -> forallb (fun t => is_tcls t || is_td t) l = true -> forallb is_tcls l = true).
  { intros l Tl H. rewrite forallb_forall in *. intros x Hx. specialize (H x Hx).
    destruct x; cbn in H |- *; try discriminate H; try reflexivity. specialize (Tl _ Hx). discriminate Tl. }
  pose proof (K ts T C) as F. pose proof (K ts' T' C') as F'.
  pose proof (psub_incl_cls _ _ F P1) as I1. pose proof (psub_incl_cls _ _ F' P2) as I2.
  rewrite (chains_cls _ ts 0 F), (chains_cls _ ts' 0 F').
  set (g := fun t : ty => map KCls (compute_bases bt (S (List.length bt)) (cls_of t) [])).
  destruct ts as [|t r]; destruct ts' as [|t' r'].
  - exact U.
  - apply psub_nil_r in P2. discriminate P2.
  - apply psub_nil_r in P1. discriminate P1.
  - change (map g (t :: r)) with (g t :: map g r). change (map g (t' :: r')) with (g t' :: map g r').
    cbv iota beta.
    rewrite (fold_cp_set (g t) (map g r) (g t') (map g r') (incl_map g I1) (incl_map g I2)).
    destruct (last _ (KTd 0)); [|exact U].
    destruct (Nat.eqb _ 0); [exact U|]. cbn [py_eqb]. apply N.eqb_refl.
Qed.
End CommonBase.

Print Assumptions rcd_union_py.
Print Assumptions rlu_union_py.
Print Assumptions msb_union_py.
