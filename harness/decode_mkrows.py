"""python -m harness.decode_mkrows <root>  — run in a subprocess with the UNMUTATED fixture package under
<root>.  Builds CallTraces from the live functions and classes and encodes them with the real
CallTraceRow.from_trace; prints the row pool as JSON {tag: [module, qualname, arg_types, return_type, yield_type]}."""
import json
import sys
from typing import Dict, List, Optional, Tuple, Type


def main(root):
    sys.path.insert(0, root)
    import fxpkg
    import fxtop
    from fxpkg import broken, gone, kinds, mod
    from fxpkg.sub import leaf
    from monkeytype.typing import get_type
    from monkeytype.encoding import CallTraceRow
    from monkeytype.tracing import CallTrace
    NoneType = type(None)
    K = mod.K
    A, B, C, D, E, Keep, Inner = kinds.A, kinds.B, kinds.C, kinds.D, kinds.E, kinds.Keep, kinds.Outer.Inner
    S, M = kinds.S, kinds.M
    inner = mod.f_outer()
    T = CallTrace
    pool = {
        # rows that stay valid under every mutation
        "ok_a": T(mod.f_ok, {"a": int, "b": str}, int),
        "ok_b": T(mod.f_ok, {"a": Keep, "b": List[Keep]}, Keep),
        "ok2": T(mod.f_ok2, {"x": Dict[str, int], "y": int}, List[Dict[str, int]]),
        "gen": T(mod.f_gen, {"n": int}, NoneType, int),
        "wrapped": T(mod.f_wrapped.__wrapped__, {"a": int}, int),
        "meth": T(K.meth, {"self": K, "x": int}, int),
        "cm": T(K.cm.__func__, {"cls": Type[K], "x": int}, int),
        "sm": T(K.sm, {"x": Optional[int]}, Optional[int]),
        "prop": T(K.prop.fget, {"self": K}, int),
        "td": T(mod.f_ok, {"a": get_type({"p": 1, "q": Keep()}, 10), "b": str}, NoneType),
        # rows that a mutation makes stale
        "removed": T(mod.f_removed, {"a": int}, int),
        "nonfunc": T(mod.f_nonfunc, {"a": int}, int),
        "none": T(mod.f_none, {"a": str}, str),
        "partial": T(mod.f_partial, {"a": int}, int),
        "builtin": T(mod.f_builtin, {"a": List[int]}, int),
        "cls": T(mod.f_class, {"a": int}, int),
        "prop_gsd": T(K.prop_gsd.fget, {"self": K}, int),
        "prop_s": T(K.prop_s.fget, {"self": K}, int),
        "prop_d": T(K.prop_d.fget, {"self": K}, int),
        "prop_sd": T(K.prop_sd.fget, {"self": K}, int),
        "sub_run": T(mod.Sub.run, {"self": mod.Sub, "x": int}, int),
        "sub_run_ret": T(mod.Sub.run, {"self": mod.Sub, "x": str}, B),
        "ali_run": T(mod.Ali.run, {"self": mod.Ali, "x": str}, str),
        "base_run": T(mod.Base.run, {"self": mod.Base, "x": float}, float),
        "sub_keep": T(mod.Sub.keep, {"self": mod.Sub, "x": int}, int),
        "alias": T(mod.f_alias, {"a": int}, int),
        "closure": T(mod.f_closure, {"a": str}, str),
        "plaindeco": T(mod.f_plaindeco, {"a": int}, List[int]),
        "pm": T(K.pm, {"self": K, "x": int}, int),
        "selfpartial": T(mod.f_selfpartial, {"a": int, "b": int}, int),
        "alias_argcls": T(mod.f_alias, {"a": A}, int),
        "lru": T(mod.f_lru, {"a": int}, int),
        "moved": T(mod.f_moved, {"a": int}, int),
        "prop_set": T(K.prop_set.fget, {"self": K}, int),
        "prop_del": T(K.prop_del.fget, {"self": K}, int),
        "prop_nog": T(K.prop_nog.fget, {"self": K}, int),
        "m_removed": T(K.m_removed, {"self": K, "x": str}, str),
        "kgone": T(mod.KGone.meth, {"self": mod.KGone, "x": int}, int),
        "argcls": T(mod.f_argcls, {"a": A, "b": int}, int),
        "argcls_nested": T(mod.f_argcls, {"a": int, "b": List[Dict[str, A]]}, NoneType),
        "argcls_opt": T(mod.f_argcls, {"a": Optional[A], "b": Keep}, Keep),
        "argcls_two": T(mod.f_argcls, {"a": A, "b": D}, D),
        "td_stale": T(mod.f_ok, {"a": get_type({"k": 1, "p": A()}, 10), "b": int}, int),
        "retcls": T(mod.f_retcls, {"a": int}, B),
        "retcls_nested": T(mod.f_retcls, {"a": str}, Dict[str, Tuple[int, B]]),
        "yieldcls": T(mod.f_yieldcls, {"a": int}, NoneType, C),
        "nontype": T(mod.f_nontype, {"a": D}, int),
        "nontype_ret": T(mod.f_nontype, {"a": int}, List[D]),
        "nontype_fn": T(mod.f_nontype, {"a": E}, NoneType),
        "inner_cls": T(mod.f_nested, {"a": Inner}, Inner),
        "gonemod_cls": T(mod.f_argcls, {"a": gone.G, "b": int}, int),
        "subcls": T(mod.f_retcls, {"a": int}, leaf.L),
        "local": T(inner, {"x": int}, int),
        "local2": T(inner, {"x": str}, List[str]),
        "params": T(mod.f_params, {"a": int, "b": str}, int),
        "params_pruned": T(mod.f_params, {"a": int}, int),
        # a name now bound to a non-type, nested inside generics
        "nt_opt_fn": T(mod.f_nontype, {"a": Optional[E]}, int),
        "nt_list_str": T(mod.f_nontype, {"a": List[S]}, int),
        "nt_dict_mod": T(mod.f_nontype, {"a": int}, Dict[str, M]),
        "nt_opt_int": T(mod.f_nontype, {"a": Optional[D]}, NoneType),
        "nt_str": T(mod.f_nontype, {"a": S}, int),
        "nt_mod_ret": T(mod.f_nontype, {"a": str}, Tuple[int, List[M]]),
        "nt_yield_list": T(mod.f_gen, {"n": int}, NoneType, List[E]),
        # two stale facts in one row
        "params_argcls": T(mod.f_params, {"a": int, "b": A}, int),
        "params_nontype": T(mod.f_params, {"a": str, "b": D}, float),
        "params_nested": T(mod.f_params, {"a": str, "b": List[A]}, str),
        "yieldcls_list": T(mod.f_yieldcls, {"a": str}, List[int], List[C]),
        "yield_ret": T(mod.f_yieldcls, {"a": int}, B, C),
        "removed_argcls": T(mod.f_removed, {"a": A}, int),
        "cls_nontype": T(mod.f_class, {"a": D}, int),
        "arg_ret": T(mod.f_argcls, {"a": A, "b": int}, B),
        "propset_ret": T(K.prop_set.fget, {"self": K}, B),
        "nonfunc_yield": T(mod.f_nonfunc, {"a": int}, int, C),
        "gonemod_nontype": T(mod.f_argcls, {"a": gone.G, "b": D}, float),
        # other modules
        "gone_g": T(gone.g, {"x": int}, int),
        "gone_g2": T(gone.g, {"x": str}, gone.G),
        "top_tf": T(fxtop.tf, {"x": int}, int),
        "top_tf2": T(fxtop.tf2, {"x": fxtop.T, "y": str}, str),
        "topcls": T(mod.f_argcls, {"a": fxtop.T, "b": int}, int),
        "leaf_f2": T(leaf.leaf_f, {"x": leaf.L}, leaf.L),
        "leaf_f": T(leaf.leaf_f, {"x": int}, int),
        "top": T(fxpkg.top, {"a": int}, int),
        "broken_f": T(broken.broken_f, {"x": int}, int),
    }
    out = {}
    for tag, tr in pool.items():
        r = CallTraceRow.from_trace(tr)
        out[tag] = [r.module, r.qualname, r.arg_types, r.return_type, r.yield_type]
    json.dump(out, sys.stdout)


if __name__ == "__main__":
    main(sys.argv[1])
