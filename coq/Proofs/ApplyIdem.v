(* Proofs/ApplyIdem.v — C15 idempotence: applying the same stub to the result of [apply] changes nothing,
   for every overwrite flag, stub and source — under two explicit boolean conditions
   ([idem_side], and [in_fragment stub out] which [reimport_safe stub] guarantees).
   Without them the statement is FALSE of the model (and, for [idem_side], of the real tool): see the
   witnesses [idem_ce_*] at the end. *)
From Coq Require Import List Bool Arith String Ascii Lia.
From MT Require Import Apply ApplyFacts ApplyExamples ApplyIdemBase ApplyIdemImports.
Import ListNotations.
Open Scope list_scope.

Definition needs_of (stub : list stmt) : list (string * string) := flat_map (stub_needs (stub_symbols stub)) stub.

(* ---------------------------------------------------------------- the side conditions *)
(* (1) the second pass finds nothing to annotate inside the classes the first pass inserted (classes of the
       stub the source lacks): true whenever those classes have no methods, e.g. MonkeyType's TypedDict classes;
   (2) when overwriting, no stub function offers the bare name of an inserted class (or of a class nested in
       one) as an annotation: otherwise the second pass, which now sees that class among the module's global
       names / visited classes, changes its forward-reference quoting decision. *)
Definition idem_side (ow : bool) (stub src : list stmt) : bool :=
  let e := mk_env ow stub src in
  let fresh := fresh_classes (stub_symbols stub) stub src in
  negb (existsb (touches e []) fresh)
  && forallb (fun c => negb (str_in c (classes_in_list fresh))) (cands e).

(* the inserted `from m import o` items keep the result inside the modelled fragment: no requested object
   name is a module the stub imports from or requests from, and a requested object named like a stub
   symbol comes from that symbol's module.  A condition on the stub alone. *)
Definition reimport_safe (stub : list stmt) : bool :=
  let simp := stub_symbols stub in
  let needs := needs_of stub in
  forallb (fun mo => negb (str_in (snd mo) (map snd simp))
                     && negb (str_in (snd mo) (map fst needs))
                     && forallb (fun om => negb (String.eqb (snd mo) (fst om)) || String.eqb (fst mo) (snd om)) simp)
          needs.

(* ---------------------------------------------------------------- shape of a result *)
Lemma apply_shape : forall ow stub src out, apply ow stub src = Some out ->
  in_fragment stub src = true /\
  ((existsb (touches (mk_env ow stub src) []) src = false
    /\ fresh_classes (stub_symbols stub) stub src = []
    /\ out = walk_list (mk_env ow stub src) [] [] src)
   \/ out = insert_at (after_last_from (add_imports (needs_of stub) (walk_list (mk_env ow stub src) [] [] src)))
                      (fresh_classes (stub_symbols stub) stub src)
                      (add_imports (needs_of stub) (walk_list (mk_env ow stub src) [] [] src))).
Proof.
  intros ow stub src out A. unfold apply in A. destruct (in_fragment stub src); [|discriminate].
  split; [reflexivity|]. cbn [e_simp mk_env] in A. fold (needs_of stub) in A.
  destruct (existsb (touches (mk_env ow stub src) []) src) eqn:T; cbn [orb] in A.
  - right. inversion A. reflexivity.
  - destruct (fresh_classes (stub_symbols stub) stub src) eqn:Fr; cbn [negb] in A.
    + left. inversion A. auto.
    + right. inversion A. reflexivity.
Qed.

Lemma fresh_is_class : forall simp stub src x, In x (fresh_classes simp stub src) ->
  exists n d b body, x = Class n d (resolve simp b) body /\ In (n, d, b, body) (stub_classes_list stub)
                     /\ str_in n (classes_in_list src) = false.
Proof.
  intros simp stub src x H. unfold fresh_classes in H. apply in_flat_map in H as [[[[n d] b] body] [Hc Hx]].
  cbn in Hx. destruct (str_in n (classes_in_list src)) eqn:E; [destruct Hx|].
  destruct Hx as [Hx|[]]. exists n, d, b, body. auto.
Qed.
Lemma flat_map_incl : forall A B (f : A -> list B) a b, incl a b -> incl (flat_map f a) (flat_map f b).
Proof. intros A B f a b I y Hy. apply in_flat_map in Hy as [x [Hx Hy]]. apply in_flat_map. exists x. split; [apply I|]; assumption. Qed.
Lemma flat_map_nil : forall A B (f : A -> list B) l, (forall x, In x l -> f x = []) -> flat_map f l = [].
Proof. intros A B f l H. induction l as [|a r IH]; cbn; [reflexivity|]. rewrite H by (left; reflexivity). apply IH. intros. apply H. right. assumption. Qed.
Lemma in_classes_in_list : forall x L, In x L -> incl (classes_in x) (classes_in_list L).
Proof. intros x L H y Hy. unfold classes_in_list. apply in_flat_map. exists x. split; assumption. Qed.
Lemma insert_at_new_In : forall n new s x, In x new -> In x (insert_at n new s).
Proof. intros. unfold insert_at. apply in_or_app. right. apply in_or_app. left. assumption. Qed.

(* what the first application inserts *)
Definition added (stub src : list stmt) (x : stmt) : Prop :=
  requested (needs_of stub) x \/ In x (fresh_classes (stub_symbols stub) stub src).

Lemma added_props : forall ow stub src, idem_side ow stub src = true ->
  forall x, added stub src x ->
    touches (mk_env ow stub src) [] x = false
    /\ (forall c, In c (cands (mk_env ow stub src)) -> str_in c (classes_in x) = false)
    /\ (forall c, In c (cands (mk_env ow stub src)) -> str_in c (global_names x) = false).
Proof.
  intros ow stub src Sd x [(m & o & Ex & _)|Hx].
  - subst x. repeat split; reflexivity.
  - unfold idem_side in Sd. apply andb_true_iff in Sd as [S1 S2]. apply negb_true_iff in S1.
    rewrite forallb_forall in S2.
    assert (Hcls : forall c, In c (cands (mk_env ow stub src)) -> str_in c (classes_in x) = false).
    { intros c Hc. specialize (S2 c Hc). apply negb_true_iff in S2.
      destruct (str_in c (classes_in x)) eqn:E; [|reflexivity].
      rewrite (str_in_incl c _ _ (in_classes_in_list x _ Hx) E) in S2. discriminate. }
    split; [|split; [exact Hcls|]].
    + destruct (touches (mk_env ow stub src) [] x) eqn:E; [|reflexivity].
      assert (X : existsb (touches (mk_env ow stub src) []) (fresh_classes (stub_symbols stub) stub src) = true)
        by (apply existsb_exists; exists x; split; assumption).
      congruence.
    + intros c Hc. destruct (fresh_is_class _ _ _ _ Hx) as (n & d & b & body & Ex & _). subst x.
      specialize (Hcls c Hc). rewrite classes_in_Class, str_in_app in Hcls. apply orb_false_iff in Hcls as [_ Hn].
      exact Hn.
Qed.

Lemma apply_insq : forall ow stub src out, apply ow stub src = Some out ->
  insq (added stub src) (walk_list (mk_env ow stub src) [] [] src) out.
Proof.
  intros ow stub src out A. destruct (apply_shape _ _ _ _ A) as [_ [(_ & _ & E)|E]]; subst out.
  - apply insq_refl.
  - eapply insq_trans.
    + eapply insq_mono; [|apply (proj1 (add_imports_spec (needs_of stub) _))]. intros x H. left. exact H.
    + apply insq_insert_at. apply Forall_forall. intros x H. right. exact H.
Qed.

Lemma apply_env_sim : forall ow stub src out, apply ow stub src = Some out -> idem_side ow stub src = true ->
  env_sim (mk_env ow stub src) (mk_env ow stub out).
Proof.
  intros ow stub src out A Sd. repeat split. cbn [e_globals mk_env].
  rewrite <- (walk_list_global_names src (mk_env ow stub src) [] []).
  apply (insq_global_names (added stub src)); [|apply apply_insq; assumption].
  intros x Hx. apply (added_props ow stub src Sd x Hx).
Qed.

(* ---------------------------------------------------------------- the three facts about the second application *)
Lemma second_walk : forall ow stub src out, apply ow stub src = Some out -> idem_side ow stub src = true ->
  walk_list (mk_env ow stub out) [] [] out = out.
Proof.
  intros ow stub src out A Sd.
  apply (sim_walk_list_ins _ _ (apply_env_sim _ _ _ _ A Sd) (added stub src) []) with (ss := src) (vis := []).
  - intros x Hx. destruct (added_props ow stub src Sd x Hx) as (H1 & H2 & _). split; assumption.
  - intros x _. reflexivity.
  - apply apply_insq. assumption.
Qed.

Lemma second_fresh : forall ow stub src out, apply ow stub src = Some out ->
  fresh_classes (stub_symbols stub) stub out = [].
Proof.
  intros ow stub src out A. unfold fresh_classes. apply flat_map_nil. intros [[[n d] b] body] Hc. cbn.
  assert (H : str_in n (classes_in_list out) = true); [|rewrite H; reflexivity].
  destruct (str_in n (classes_in_list src)) eqn:E.
  - rewrite <- (walk_list_classes_in src (mk_env ow stub src) [] []) in E.
    eapply str_in_incl; [|exact E]. apply flat_map_incl. eapply insq_incl. apply apply_insq. exact A.
  - assert (Hf : In (Class n d (resolve (stub_symbols stub) b) body) (fresh_classes (stub_symbols stub) stub src)).
    { unfold fresh_classes. apply in_flat_map. exists (n, d, b, body). split; [assumption|]. cbn. rewrite E. left. reflexivity. }
    destruct (apply_shape _ _ _ _ A) as [_ [(_ & Fr & _)|Eo]].
    + rewrite Fr in Hf. destruct Hf.
    + apply str_in_In. eapply in_classes_in_list.
      * rewrite Eo. apply insert_at_new_In. exact Hf.
      * rewrite classes_in_Class. apply in_or_app. right. left. reflexivity.
Qed.

(* ---------------------------------------------------------------- idempotence *)
Theorem apply_idempotent_side : forall ow stub src out,
  apply ow stub src = Some out -> in_fragment stub out = true -> idem_side ow stub src = true ->
  apply ow stub out = Some out.
Proof.
  intros ow stub src out A Fo Sd.
  destruct (apply_shape _ _ _ _ A) as [_ [(T & _ & E)|E]].
  - (* nothing was applied: the result is the source *)
    rewrite untouched_list in E by assumption. subst out. exact A.
  - unfold apply. rewrite Fo. cbn [e_simp mk_env]. fold (needs_of stub).
    rewrite (second_walk _ _ _ _ A Sd), (second_fresh _ _ _ _ A).
    destruct (_ || _); [|reflexivity].
    rewrite insert_at_nil. f_equal. rewrite E. apply add_imports_insert_fix.
Qed.

(* the same, without mentioning the fragment: wherever the second application is defined it returns its input *)
Corollary apply_idempotent_where_defined : forall ow stub src out out2,
  apply ow stub src = Some out -> idem_side ow stub src = true -> apply ow stub out = Some out2 -> out2 = out.
Proof.
  intros ow stub src out out2 A Sd B.
  assert (Fo : in_fragment stub out = true).
  { unfold apply in B. destruct (in_fragment stub out); [reflexivity|discriminate]. }
  rewrite (apply_idempotent_side _ _ _ _ A Fo Sd) in B. inversion B. reflexivity.
Qed.

(* ---------------------------------------------------------------- the result stays inside the modelled fragment *)
Lemma no_nested_imports_Class : forall n d b body,
  no_nested_imports (Class n d b body) = forallb (fun x => negb (is_import x) && no_nested_imports x) body.
Proof. intros. cbn [no_nested_imports]. induction body as [|x r IH]; cbn; [reflexivity|]. now rewrite IH. Qed.
Lemma no_nested_imports_Block : forall t body,
  no_nested_imports (Block t body) = forallb (fun x => negb (is_import x) && no_nested_imports x) body.
Proof. intros. cbn [no_nested_imports]. induction body as [|x r IH]; cbn; [reflexivity|]. now rewrite IH. Qed.
Lemma no_nested_imports_Def : forall h body,
  no_nested_imports (Def h body) = forallb (fun x => negb (is_import x) && no_nested_imports x) body.
Proof. intros. cbn [no_nested_imports]. induction body as [|x r IH]; cbn; [reflexivity|]. now rewrite IH. Qed.
Lemma stub_classes_Class : forall n d b body,
  stub_classes (Class n d b body) = (n, d, b, body) :: flat_map stub_classes body.
Proof. intros. reflexivity. Qed.
Lemma stub_classes_Block : forall t body, stub_classes (Block t body) = flat_map stub_classes body.
Proof. intros. reflexivity. Qed.

(* induction over statements that also descends into function bodies *)
Section StmtInd2.
Variable P : stmt -> Prop.
Hypothesis HDef : forall h body, Forall P body -> P (Def h body).
Hypothesis HClass : forall n d b body, Forall P body -> P (Class n d b body).
Hypothesis HBlock : forall t body, Forall P body -> P (Block t body).
Hypothesis HLeaf : forall s, (match s with Def _ _ | Class _ _ _ _ | Block _ _ => False | _ => True end) -> P s.
Fixpoint stmt_ind2 (s : stmt) : P s :=
  match s with
  | Def h body =>
      HDef h body ((fix go (l : list stmt) : Forall P l :=
                      match l with [] => Forall_nil _ | x :: r => Forall_cons _ (stmt_ind2 x) (go r) end) body)
  | Class n d b body =>
      HClass n d b body ((fix go (l : list stmt) : Forall P l :=
                            match l with [] => Forall_nil _ | x :: r => Forall_cons _ (stmt_ind2 x) (go r) end) body)
  | Block t body =>
      HBlock t body ((fix go (l : list stmt) : Forall P l :=
                        match l with [] => Forall_nil _ | x :: r => Forall_cons _ (stmt_ind2 x) (go r) end) body)
  | Import it => HLeaf (Import it) I
  | StrExpr t => HLeaf (StrExpr t) I
  | Assign ts t => HLeaf (Assign ts t) I
  | AnnAssign t a v => HLeaf (AnnAssign t a v) I
  | Other t => HLeaf (Other t) I
  end.
End StmtInd2.

Lemma nni_items : forall s, no_nested_imports s = true -> is_import s = false -> all_items s = [].
Proof.
  assert (G : forall body, Forall (fun s => no_nested_imports s = true -> is_import s = false -> all_items s = []) body ->
                           forallb (fun x => negb (is_import x) && no_nested_imports x) body = true ->
                           all_items_list body = []).
  { intros body F H. unfold all_items_list. apply flat_map_nil. intros x Hx.
    rewrite Forall_forall in F. rewrite forallb_forall in H. specialize (H x Hx).
    apply andb_true_iff in H as [H1 H2]. apply negb_true_iff in H1. apply F; assumption. }
  induction s using stmt_ind2; intros N I.
  - rewrite all_items_Def. rewrite no_nested_imports_Def in N. apply G; assumption.
  - rewrite all_items_Class. rewrite no_nested_imports_Class in N. apply G; assumption.
  - rewrite all_items_Block. rewrite no_nested_imports_Block in N. apply G; assumption.
  - destruct s; try contradiction; try reflexivity. discriminate.
Qed.

(* classes collected from a stub without nested imports contain no import items *)
Lemma nni_classes : forall s, no_nested_imports s = true ->
  forall n d b body, In (n, d, b, body) (stub_classes s) -> all_items_list body = [].
Proof.
  assert (G : forall body,
             Forall (fun s => no_nested_imports s = true -> forall n d b body, In (n, d, b, body) (stub_classes s) -> all_items_list body = []) body ->
             forallb (fun x => negb (is_import x) && no_nested_imports x) body = true ->
             forall n d b bd, In (n, d, b, bd) (flat_map stub_classes body) -> all_items_list bd = []).
  { intros body F H n d b bd Hin. apply in_flat_map in Hin as [x [Hx Hc]].
    rewrite Forall_forall in F. rewrite forallb_forall in H. specialize (H x Hx).
    apply andb_true_iff in H as [_ H2]. eapply F; eauto. }
  induction s using stmt_ind2; intros N n0 d0 b0 bd Hin.
  - destruct Hin.
  - rewrite stub_classes_Class in Hin. destruct Hin as [E|Hin].
    + inversion E; subst. rewrite <- all_items_Class with (n := n0) (d := d0) (b := b0). apply nni_items; [assumption|reflexivity].
    + rewrite no_nested_imports_Class in N. eapply G; eauto.
  - rewrite stub_classes_Block in Hin. rewrite no_nested_imports_Block in N. eapply G; eauto.
  - destruct s; try contradiction; destruct Hin.
Qed.

Lemma fresh_no_items : forall stub src x,
  forallb no_nested_imports stub = true -> In x (fresh_classes (stub_symbols stub) stub src) -> all_items x = [].
Proof.
  intros stub src x N Hx. destruct (fresh_is_class _ _ _ _ Hx) as (n & d & b & body & Ex & Hc & _). subst x.
  rewrite all_items_Class. unfold stub_classes_list in Hc. apply in_flat_map in Hc as [s [Hs Hc]].
  rewrite forallb_forall in N. eapply nni_classes; eauto.
Qed.

(* the import items of a result: those of the source and the requested ones *)
Lemma apply_items : forall ow stub src out, apply ow stub src = Some out ->
  forall it, In it (all_items_list out) ->
    In it (all_items_list src) \/ exists m o, it = mkItem m (Some o) None /\ In (m, o) (needs_of stub).
Proof.
  intros ow stub src out A it Hit.
  destruct (apply_shape _ _ _ _ A) as [Fr _].
  unfold in_fragment in Fr. repeat (apply andb_true_iff in Fr as [Fr ?]). 
  assert (N : forallb no_nested_imports stub = true) by assumption.
  unfold all_items_list in Hit. apply in_flat_map in Hit as [x [Hx Hit]].
  destruct (insq_In _ _ _ (apply_insq _ _ _ _ A) x Hx) as [Hm|[(m & o & Ex & Hn)|Hf]].
  - left. rewrite <- (walk_list_all_items src (mk_env ow stub src) [] []).
    unfold all_items_list. apply in_flat_map. exists x. split; assumption.
  - right. subst x. destruct Hit as [E|[]]. exists m, o. split; [symmetry; exact E|exact Hn].
  - rewrite (fresh_no_items stub src x N Hf) in Hit. destruct Hit.
Qed.

Theorem apply_stays_in_fragment : forall ow stub src out,
  apply ow stub src = Some out -> reimport_safe stub = true -> in_fragment stub out = true.
Proof.
  intros ow stub src out A R.
  pose proof (apply_items _ _ _ _ A) as Hitems.
  destruct (apply_shape _ _ _ _ A) as [Fr _].
  unfold in_fragment in *. fold (needs_of stub) in *.
  apply andb_true_iff in Fr as [Fr F8]. apply andb_true_iff in Fr as [Fr F7]. apply andb_true_iff in Fr as [Fr F6].
  apply andb_true_iff in Fr as [Fr F5].
  rewrite Fr, F8, andb_true_r. cbn [andb].
  unfold reimport_safe in R. fold (needs_of stub) in R.
  rewrite forallb_forall in R, F5, F6, F7.
  apply andb_true_iff; split; [apply andb_true_iff; split|]; apply forallb_forall.
  - intros om Hom. apply negb_true_iff, str_in_false. intro Hin.
    apply in_map_iff in Hin as [it [Eb Hit]]. destruct (Hitems it Hit) as [Hs|(m & o & Ei & Hn)].
    + specialize (F5 om Hom). apply negb_true_iff, str_in_false in F5. apply F5. apply in_map_iff. exists it. auto.
    + subst it. cbn in Eb. specialize (R (m, o) Hn). cbn [fst snd] in R.
      apply andb_true_iff in R as [R _]. apply andb_true_iff in R as [R _]. apply negb_true_iff, str_in_false in R.
      apply R. apply in_map_iff. exists om. split; [symmetry; exact Eb|exact Hom].
  - intros mo Hmo. apply negb_true_iff, str_in_false. intro Hin.
    apply in_map_iff in Hin as [it [Eb Hit]]. destruct (Hitems it Hit) as [Hs|(m & o & Ei & Hn)].
    + specialize (F6 mo Hmo). apply negb_true_iff, str_in_false in F6. apply F6. apply in_map_iff. exists it. auto.
    + subst it. cbn in Eb. specialize (R (m, o) Hn). cbn [fst snd] in R.
      apply andb_true_iff in R as [R _]. apply andb_true_iff in R as [_ R]. apply negb_true_iff, str_in_false in R.
      apply R. apply in_map_iff. exists mo. split; [symmetry; exact Eb|exact Hmo].
  - intros om Hom. apply forallb_forall. intros it Hit. destruct (Hitems it Hit) as [Hs|(m & o & Ei & Hn)].
    + specialize (F7 om Hom). rewrite forallb_forall in F7. apply F7. assumption.
    + subst it. cbn [bound_name i_alias i_obj i_mod]. specialize (R (m, o) Hn). cbn [fst snd] in R.
      apply andb_true_iff in R as [_ R]. rewrite forallb_forall in R. apply R. assumption.
Qed.

(* C15 idempotence with the result's membership of the fragment discharged by the stub-only condition *)
Theorem apply_idempotent_safe : forall ow stub src out,
  apply ow stub src = Some out -> reimport_safe stub = true -> idem_side ow stub src = true ->
  apply ow stub out = Some out.
Proof.
  intros ow stub src out A R Sd. apply (apply_idempotent_side ow stub src out A); [|assumption].
  eapply apply_stays_in_fragment; eauto.
Qed.

(* ---------------------------------------------------------------- a syntactic sufficient condition *)
(* the classes of the stub that the source lacks define no functions outside function bodies (true of the
   TypedDict classes MonkeyType generates): then, without overwriting, [idem_side] holds *)
Definition fresh_plain (stub src : list stmt) : bool :=
  forallb (fun x => match stub_funs [] x with [] => true | _ => false end)
          (fresh_classes (stub_symbols stub) stub src).
Lemma stub_funs_Class : forall path n d b body,
  stub_funs path (Class n d b body) = flat_map (stub_funs (path ++ [n])) body.
Proof. reflexivity. Qed.
Lemma stub_funs_Block : forall path t body, stub_funs path (Block t body) = flat_map (stub_funs path) body.
Proof. reflexivity. Qed.
Lemma no_funs_untouched : forall e s path, stub_funs path s = [] -> touches e path s = false.
Proof.
  intro e.
  assert (G : forall body, Forall (fun s => forall path, stub_funs path s = [] -> touches e path s = false) body ->
                           forall path, flat_map (stub_funs path) body = [] -> existsb (touches e path) body = false).
  { intros body F. induction F as [|x r Hx Hr IH]; intros path E; cbn in *; [reflexivity|].
    apply app_eq_nil in E as [E1 E2]. now rewrite (Hx path E1), (IH path E2). }
  induction s using stmt_ind'; intros path E; try reflexivity.
  - cbn in E. destruct path; discriminate.
  - rewrite touches_Class. rewrite stub_funs_Class in E. apply G; assumption.
  - rewrite touches_Block. rewrite stub_funs_Block in E. apply G; assumption.
Qed.
Lemma fresh_plain_side : forall stub src, fresh_plain stub src = true -> idem_side false stub src = true.
Proof.
  intros stub src H. unfold idem_side. cbn [cands e_ow mk_env forallb]. rewrite andb_true_r. apply negb_true_iff.
  unfold fresh_plain in H. induction (fresh_classes (stub_symbols stub) stub src) as [|x r IH]; cbn in *; [reflexivity|].
  apply andb_true_iff in H as [H1 H2]. rewrite (IH H2), orb_false_r.
  apply no_funs_untouched. destruct (stub_funs [] x); [reflexivity|discriminate].
Qed.
Theorem apply_idempotent_plain : forall stub src out out2,
  apply false stub src = Some out -> fresh_plain stub src = true -> apply false stub out = Some out2 -> out2 = out.
Proof.
  intros stub src out out2 A P B. eapply apply_idempotent_where_defined; eauto. apply fresh_plain_side. assumption.
Qed.

(* ---------------------------------------------------------------- the conditions are needed: witnesses *)
Open Scope string_scope.
Definition ceP (n : string) (a : option anno) : param := mkParam n PosOrKw a None.
Definition ceD (n : string) (ps : list param) (r : option anno) : stmt := Def (mkDef n false [] ps r) [Other "..."].
(* stub: class C: def m(self, x): ... ; def m(self, x: int): ...     source: def g(): ...   (no overwrite)
   first result inserts class C verbatim; the second application annotates the FIRST m from the LAST m.
   Reproduced on the real tool (libcst 1.9.0 + monkeytype.cli.apply_stub_using_libcst). *)
Definition ce_redef_stub : list stmt :=
  [Class "C" [] [] [ceD "m" [ceP "self" None; ceP "x" None] None;
                    ceD "m" [ceP "self" None; ceP "x" (Some [AName ["int"]])] None]].
Definition ce_redef_src : list stmt := [ceD "g" [] None].
(* stub: class C: a: int ; def f(a: C): ...     source: def f(a): ... ; from os import path   (overwrite on)
   first result: f(a: C), class C inserted after the last from-import; second: f(a: 'C') because C is now a
   global name of the module not yet visited at f.  Reproduced on the real tool. *)
Definition ce_quote_stub : list stmt :=
  [Class "C" [] [] [AnnAssign "a" [AName ["int"]] None]; ceD "f" [ceP "a" (Some [AName ["C"]])] None].
Definition ce_quote_src : list stmt := [ceD "f" [ceP "a" None] None; Import (mkItem "os" (Some "path") None)].
(* stub: from shapes import Outer ; from other import Inner ; def f(a: Outer.Inner, b: Inner): ...
   first result has `from other import Inner` and `from shapes.Outer import Inner`: the symbol Inner is now
   bound from two modules, which is outside [in_fragment] (the model is undefined there; the real tool is
   idempotent on this input: a limitation of the model, not a defect). *)
Definition ce_frag_stub : list stmt :=
  [Import (mkItem "shapes" (Some "Outer") None); Import (mkItem "other" (Some "Inner") None);
   ceD "f" [ceP "a" (Some [AName ["Outer"; "Inner"]]); ceP "b" (Some [AName ["Inner"]])] None].
Definition ce_frag_src : list stmt := [ceD "f" [ceP "a" None; ceP "b" None] None].
Close Scope string_scope.

Definition second_differs (ow : bool) (stub src : list stmt) : bool :=
  match apply ow stub src with
  | Some out => match apply ow stub out with
                | Some out2 => if stmts_eq_dec out2 out then false else true
                | None => false end
  | None => false
  end.
Theorem idem_ce_redefinition :
  second_differs false ce_redef_stub ce_redef_src = true
  /\ reimport_safe ce_redef_stub = true /\ idem_side false ce_redef_stub ce_redef_src = false.
Proof. vm_compute. repeat split; reflexivity. Qed.
Theorem idem_ce_overwrite_quote :
  second_differs true ce_quote_stub ce_quote_src = true
  /\ second_differs false ce_quote_stub ce_quote_src = false
  /\ reimport_safe ce_quote_stub = true /\ idem_side true ce_quote_stub ce_quote_src = false
  /\ idem_side false ce_quote_stub ce_quote_src = true.
Proof. vm_compute. repeat split; reflexivity. Qed.
Theorem idem_ce_leaves_fragment :
  exists out, apply false ce_frag_stub ce_frag_src = Some out /\ apply false ce_frag_stub out = None
              /\ idem_side false ce_frag_stub ce_frag_src = true /\ reimport_safe ce_frag_stub = false.
Proof. eexists. vm_compute. repeat split; reflexivity. Qed.
(* hence the unconditional statement is false of the model *)
Theorem idempotent_unconditional_refuted :
  ~ (forall ow stub src out, apply ow stub src = Some out -> apply ow stub out = Some out).
Proof.
  intro H. destruct idem_ce_leaves_fragment as (out & A & B & _). rewrite (H _ _ _ _ A) in B. discriminate.
Qed.
(* ... and stays false when the second application is only required to agree where it is defined *)
Theorem idempotent_where_defined_refuted :
  ~ (forall ow stub src out out2, apply ow stub src = Some out -> apply ow stub out = Some out2 -> out2 = out).
Proof.
  intro H. pose proof (proj1 idem_ce_redefinition) as D. unfold second_differs in D.
  destruct (apply false ce_redef_stub ce_redef_src) as [out|] eqn:A; [|discriminate].
  destruct (apply false ce_redef_stub out) as [out2|] eqn:B; [|discriminate].
  rewrite (H _ _ _ _ _ A B) in D. destruct (stmts_eq_dec out out); [discriminate|congruence].
Qed.

(* ---------------------------------------------------------------- non-vacuity *)
Example ex_idem_b13 :
  apply false b13_stub b13_src = Some b13_out /\ reimport_safe b13_stub = true
  /\ idem_side false b13_stub b13_src = true /\ (if stmts_eq_dec b13_out b13_src then true else false) = false.
Proof. vm_compute. repeat split; reflexivity. Qed.
(* overwrite on, a class inserted (fresh class present), forward-reference quoting, a late from-import *)
Example ex_idem_qc :
  apply true qc_stub qc_src = Some qc_out /\ reimport_safe qc_stub = true /\ idem_side true qc_stub qc_src = true
  /\ fresh_classes (stub_symbols qc_stub) qc_stub qc_src <> [] /\ cands (mk_env true qc_stub qc_src) <> [].
Proof. vm_compute. repeat split; try reflexivity; discriminate. Qed.
Example ex_idem_qc_second : apply true qc_stub qc_out = Some qc_out.
Proof. exact (apply_idempotent_safe _ _ _ _ (proj1 ex_idem_qc) (proj1 (proj2 ex_idem_qc)) (proj1 (proj2 (proj2 ex_idem_qc)))). Qed.
Example ex_idem_plain_qc : fresh_plain qc_stub qc_src = true /\ fresh_classes (stub_symbols qc_stub) qc_stub qc_src <> [].
Proof. vm_compute. split; [reflexivity|discriminate]. Qed.
