"""C10 fixture: a small package written under ctx.work, the mutations that make stored rows stale, and the
row pool (created by harness.decode_mkrows in a subprocess against the UNMUTATED package, with the real
CallTraceRow.from_trace).  A `world` is a set of mutation names applied to the package on disk."""
import os
import shutil

# ---- module-level blocks of fxpkg/mod.py: name -> (original, mutated) --------------------------------
MOD_BLOCKS = [
    ("f_ok", "def f_ok(a, b):\n    return a\n", None),
    ("f_ok2", "def f_ok2(x: int, y=0):\n    return [x]\n", None),
    ("f_gen", "def f_gen(n):\n    for i in range(n):\n        yield i\n", None),
    ("f_wrapped", "@deco\ndef f_wrapped(a):\n    return a\n", None),
    ("f_removed", "def f_removed(a):\n    return a\n", ""),
    ("f_nonfunc", "def f_nonfunc(a):\n    return a\n", "f_nonfunc = 3\n"),
    ("f_none", "def f_none(a):\n    return a\n", "f_none = None\n"),
    ("f_partial", "def f_partial(a):\n    return a\n", "f_partial = functools.partial(f_ok, 1)\n"),
    ("f_builtin", "def f_builtin(a):\n    return a\n", "f_builtin = len\n"),
    # the name is re-bound to ANOTHER function: an alias, a closure made by a factory, a plain (non-wraps) decorator
    ("f_alias", "def f_alias(a):\n    return a\n", "f_alias = f_ok2\n"),
    ("f_closure", "def f_closure(a):\n    return a\n", "def _factory():\n    def handler(a):\n        return a\n    return handler\n\n\nf_closure = _factory()\n"),
    ("f_plaindeco", "def f_plaindeco(a):\n    return a\n", "@plain_deco\ndef f_plaindeco(a):\n    return a\n"),
    # still the same function: functools.wraps-style wrappers (lru_cache sets __wrapped__), a function moved to another
    # module and re-exported under the same name
    ("f_lru", "def f_lru(a):\n    return a\n", "@functools.lru_cache(maxsize=None)\ndef f_lru(a):\n    return a\n"),
    ("f_moved", "def f_moved(a):\n    return a\n", "from fxpkg.other import f_moved  # noqa\n"),
    # the name is re-bound to a partial of the function itself
    ("f_selfpartial", "def f_selfpartial(a, b=0):\n    return a\n",
     "def f_selfpartial(a, b=0):\n    return a\n\n\nf_selfpartial = functools.partial(f_selfpartial, b=1)\n"),
    ("f_class", "def f_class(a):\n    return a\n", "class f_class:\n    def __init__(self, a):\n        self.a = a\n"),
    ("f_argcls", "def f_argcls(a, b):\n    return b\n", None),
    ("f_retcls", "def f_retcls(a):\n    return a\n", "def f_retcls(a):\n    yield a\n"),             # became a generator
    ("f_yieldcls", "def f_yieldcls(a):\n    yield a\n", "def f_yieldcls(a):\n    return [a]\n"),      # no longer a generator
    ("f_nontype", "def f_nontype(a):\n    return a\n", None),
    ("f_nested", "def f_nested(a):\n    return a\n", None),
    ("f_params", "def f_params(a, b):\n    return a\n", "def f_params(a, c):\n    return a\n"),
    ("f_outer", "def f_outer():\n    def inner(x):\n        return x\n    return inner\n", None),
    # a method whose name still resolves -- to ANOTHER, non-local function: by inheritance once the override is deleted,
    # or because the attribute is now an alias of another class's method
    ("Base", "class Base:\n    def run(self, x):\n        return x\n", None),
    ("Sub.run", "class Sub(Base):\n    def run(self, x):\n        return x\n\n    def keep(self, x):\n        return x\n",
     "class Sub(Base):\n    def keep(self, x):\n        return x\n"),
    ("Ali.run", "class Ali:\n    def run(self, x):\n        return x\n", "class Ali:\n    run = Base.run\n"),
    ("KGone", "class KGone:\n    def meth(self, x):\n        return x\n", ""),
]
K_BLOCKS = [
    ("K.meth", "    def meth(self, x):\n        return x\n", None),
    ("K.cm", "    @classmethod\n    def cm(cls, x):\n        return x\n", None),
    ("K.sm", "    @staticmethod\n    def sm(x):\n        return x\n", None),
    ("K.prop", "    @property\n    def prop(self):\n        return 1\n", None),
    ("K.prop_set", "    @property\n    def prop_set(self):\n        return 2\n",
     "    @property\n    def prop_set(self):\n        return 2\n\n    @prop_set.setter\n    def prop_set(self, v):\n        pass\n"),
    ("K.prop_del", "    @property\n    def prop_del(self):\n        return 3\n",
     "    @property\n    def prop_del(self):\n        return 3\n\n    @prop_del.deleter\n    def prop_del(self):\n        pass\n"),
    ("K.prop_nog", "    @property\n    def prop_nog(self):\n        return 4\n", "    prop_nog = property()\n"),
    # the remaining combinations of fget / fset / fdel (prop: g, prop_set: g+s, prop_del: g+d, prop_nog: none)
    ("K.prop_gsd", "    @property\n    def prop_gsd(self):\n        return 5\n",
     "    @property\n    def prop_gsd(self):\n        return 5\n\n    @prop_gsd.setter\n    def prop_gsd(self, v):\n        pass\n\n"
     "    @prop_gsd.deleter\n    def prop_gsd(self):\n        pass\n"),
    ("K.prop_s", "    @property\n    def prop_s(self):\n        return 6\n", "    prop_s = property(None, lambda self, v: None)\n"),
    ("K.prop_d", "    @property\n    def prop_d(self):\n        return 7\n", "    prop_d = property(None, None, lambda self: None)\n"),
    ("K.prop_sd", "    @property\n    def prop_sd(self):\n        return 8\n",
     "    prop_sd = property(None, lambda self, v: None, lambda self: None)\n"),
    ("K.m_removed", "    def m_removed(self, x):\n        return x\n", ""),
    ("K.pm", "    def pm(self, x):\n        return x\n", "    pm = functools.partialmethod(meth, 1)\n"),
]
KINDS_BLOCKS = [
    ("Keep", "class Keep:\n    pass\n", None),
    ("A", "class A:\n    pass\n", ""),
    ("B", "class B:\n    pass\n", ""),
    ("C", "class C:\n    pass\n", ""),
    ("D", "class D:\n    pass\n", "D = 5\n"),
    ("E", "class E:\n    pass\n", "def E():\n    pass\n"),
    ("S", "class S:\n    pass\n", "S = \"text\"\n"),
    ("M", "class M:\n    pass\n", "import functools as M\n"),
    ("Outer.Inner", "class Outer:\n    class Inner:\n        pass\n", "class Outer:\n    pass\n"),
]
MOD_HEADER = ("import functools\n\n\n"
              "def deco(fn):\n    @functools.wraps(fn)\n    def wrapper(*a, **k):\n        return fn(*a, **k)\n    return wrapper\n\n\n"
              "def plain_deco(fn):\n    def wrapper(*a, **k):\n        return fn(*a, **k)\n    return wrapper\n")

# whole-file mutations
# the package itself binds the names of things that live in its submodules to UNRELATED objects: a lookup that falls
# back from a removed submodule to its package must not find them
PKG_NAMES = ("class L:\n    pass\n\n\nclass G:\n    pass\n\n\ndef leaf_f(x):\n    return x\n\n\n"
             "def g(x):\n    return x\n")

FILE_MUTS = {
    "mod:gone": lambda files: [files.pop(k) for k in list(files) if k == "fxpkg/gone.py"],
    "mod:sub": lambda files: [files.pop(k) for k in list(files) if k.startswith("fxpkg/sub/")],
    "top": lambda files: files.__setitem__("fxpkg/__init__.py", PKG_NAMES),
    "mod:fxtop": lambda files: [files.pop(k) for k in list(files) if k == "fxtop.py"],
    "broken": lambda files: files.__setitem__("fxpkg/broken.py", "def broken_f(x):\n    return x +\n"),
}

BLOCK_MUTS = [n for n, _, m in MOD_BLOCKS + K_BLOCKS + KINDS_BLOCKS if m is not None]
ALL_MUTS = BLOCK_MUTS + ["mod:gone", "mod:sub", "top", "mod:fxtop"]          # "broken" is outside the property
TARGET = "fxpkg.mod"


def _blocks(blocks, muts, sep):
    out = []
    for name, orig, mut in blocks:
        text = mut if (name in muts and mut is not None) else orig
        if text:
            out.append(text)
    return sep.join(out)


def files_for(muts):
    muts = set(muts)
    files = {
        "fxpkg/__init__.py": PKG_NAMES + "\n\ndef top(a):\n    return a\n",
        "fxpkg/kinds.py": _blocks(KINDS_BLOCKS, muts, "\n\n"),
        "fxpkg/gone.py": "class G:\n    pass\n\n\ndef g(x):\n    return x\n",
        "fxpkg/sub/__init__.py": "",
        "fxpkg/sub/leaf.py": "class L:\n    pass\n\n\ndef leaf_f(x):\n    return x\n",
        "fxpkg/broken.py": "def broken_f(x):\n    return x\n",
        "fxpkg/other.py": "def f_moved(a):\n    return a\n",
        "fxtop.py": "class T:\n    pass\n\n\ndef tf(x):\n    return x\n\n\ndef tf2(x, y):\n    return y\n",
        "fxpkg/mod.py": MOD_HEADER + "\n\n" + _blocks(MOD_BLOCKS, muts, "\n\n") + "\n\nclass K:\n"
                        + _blocks(K_BLOCKS, muts, "\n"),
    }
    for name, fn in FILE_MUTS.items():
        if name in muts:
            fn(files)
    return files


def write_tree(root, muts):
    """(Re)create <root>/fxpkg for the given set of mutations: the package is really changed on disk."""
    shutil.rmtree(os.path.join(root, "fxpkg"), ignore_errors=True)
    if os.path.exists(os.path.join(root, "fxtop.py")):
        os.remove(os.path.join(root, "fxtop.py"))
    for rel, text in files_for(muts).items():
        p = os.path.join(root, rel)
        os.makedirs(os.path.dirname(p) or root, exist_ok=True)
        with open(p, "w") as f:
            f.write(text)


# ---- which mutations make which pool row stale, and the MonkeyTypeError class expected then ---------
# tag -> [(mutation, expected class, stale kind of the property), ...] in the order to_trace meets them (function,
# arguments by sorted name, return, yield): the first ACTIVE one decides.  Mutations not listed for a tag (a renamed
# parameter, a function that stopped / started being a generator) do not make the row decodable or undecodable.
NLE, ITE = "NameLookupError", "InvalidTypeError"
K_ARG, K_RET, K_YLD, K_NT = ("argument class removed", "return class removed", "yield class removed",
                             "class name now bound to a non-type")
F_REMOVED = ("f_removed", NLE, "function removed")
K_OTHERFN = "function replaced by another function (own qualified name differs)"
STALE_BY = {
    "removed": [F_REMOVED],
    "nonfunc": [("f_nonfunc", ITE, "function replaced by a non-function")],
    "none": [("f_none", ITE, "function replaced by a non-function")],
    "partial": [("f_partial", ITE, "function replaced by a non-function")],
    "cls": [("f_class", ITE, "function replaced by a class")],
    "builtin": [("f_builtin", ITE, K_OTHERFN)],
    "alias": [("f_alias", ITE, K_OTHERFN)],
    "closure": [("f_closure", ITE, K_OTHERFN)],
    "plaindeco": [("f_plaindeco", ITE, K_OTHERFN)],
    "pm": [("K.pm", ITE, K_OTHERFN)],
    "selfpartial": [("f_selfpartial", ITE, "function replaced by a non-function")],
    "alias_argcls": [("f_alias", ITE, K_OTHERFN), ("A", NLE, K_ARG)],
    "prop_set": [("K.prop_set", ITE, "function replaced by a settable property")],
    "prop_del": [("K.prop_del", ITE, "function replaced by a settable property")],
    "prop_nog": [("K.prop_nog", ITE, "function replaced by a property without getter")],
    "prop_gsd": [("K.prop_gsd", ITE, "function replaced by a settable property")],
    "prop_s": [("K.prop_s", ITE, "function replaced by a property without getter")],
    "prop_d": [("K.prop_d", ITE, "function replaced by a property without getter")],
    "prop_sd": [("K.prop_sd", ITE, "function replaced by a property without getter")],
    "sub_run": [("Sub.run", ITE, K_OTHERFN)],
    "ali_run": [("Ali.run", ITE, K_OTHERFN)],
    "sub_run_ret": [("Sub.run", ITE, K_OTHERFN), ("B", NLE, K_RET)],
    "m_removed": [("K.m_removed", NLE, "function removed")],
    "kgone": [("KGone", NLE, "function removed")],
    "argcls": [("A", NLE, K_ARG)],
    "argcls_nested": [("A", NLE, K_ARG)],
    "argcls_opt": [("A", NLE, K_ARG)],
    "argcls_two": [("A", NLE, K_ARG), ("D", ITE, K_NT)],
    "td_stale": [("A", NLE, K_ARG)],
    "retcls": [("B", NLE, K_RET)],
    "retcls_nested": [("B", NLE, K_RET)],
    "yieldcls": [("C", NLE, K_YLD)],
    "yieldcls_list": [("C", NLE, K_YLD)],
    "nontype": [("D", ITE, K_NT)],
    "nontype_ret": [("D", ITE, K_NT)],
    "nontype_fn": [("E", ITE, K_NT)],
    "inner_cls": [("Outer.Inner", NLE, K_ARG)],
    "gonemod_cls": [("mod:gone", NLE, K_ARG)],
    "subcls": [("mod:sub", NLE, K_RET)],
    "gone_g": [("mod:gone", NLE, "module removed")],
    "gone_g2": [("mod:gone", NLE, "module removed")],
    "top_tf": [("mod:fxtop", NLE, "module removed")],
    "top_tf2": [("mod:fxtop", NLE, "module removed")],
    "topcls": [("mod:fxtop", NLE, K_ARG)],
    "leaf_f2": [("mod:sub", NLE, "submodule removed")],
    "leaf_f": [("mod:sub", NLE, "submodule removed")],
    "top": [("top", NLE, "function removed")],
    # a name now bound to a non-type (function, int, str, module) nested inside generics
    "nt_opt_fn": [("E", ITE, K_NT)],
    "nt_list_str": [("S", ITE, K_NT)],
    "nt_dict_mod": [("M", ITE, K_NT)],
    "nt_opt_int": [("D", ITE, K_NT)],
    "nt_str": [("S", ITE, K_NT)],
    "nt_mod_ret": [("M", ITE, K_NT)],
    "nt_yield_list": [("E", ITE, K_NT)],
    # two stale facts in one row
    "params_argcls": [("A", NLE, K_ARG)],            # + the parameter it was recorded for is gone (f_params)
    "params_nontype": [("D", ITE, K_NT)],
    "params_nested": [("A", NLE, K_ARG)],
    "yield_ret": [("B", NLE, K_RET), ("C", NLE, K_YLD)],   # + the function is no longer a generator (f_yieldcls)
    "removed_argcls": [F_REMOVED, ("A", NLE, K_ARG)],
    "cls_nontype": [("f_class", ITE, "function replaced by a class"), ("D", ITE, K_NT)],
    "arg_ret": [("A", NLE, K_ARG), ("B", NLE, K_RET)],
    "propset_ret": [("K.prop_set", ITE, "function replaced by a settable property"), ("B", NLE, K_RET)],
    "nonfunc_yield": [("f_nonfunc", ITE, "function replaced by a non-function"), ("C", NLE, K_YLD)],
    "gonemod_nontype": [("mod:gone", NLE, K_ARG), ("D", ITE, K_NT)],
}
DOUBLE_TAGS = ["params_argcls", "params_nontype", "params_nested", "yield_ret", "yieldcls", "yieldcls_list", "retcls",
               "arg_ret", "gonemod_nontype", "argcls_two", "nt_opt_fn", "nt_list_str", "nt_dict_mod", "nt_opt_int",
               "nt_yield_list", "nt_mod_ret"]
ALWAYS_STALE = {"local": (NLE, "function defined in a local scope"),
                "local2": (NLE, "function defined in a local scope")}
# decodes, but one traced parameter name no longer exists
PARAMS_TAG = ("params", "f_params", "parameter names that no longer exist")
VALID_TAGS = ["ok_a", "ok_b", "ok2", "gen", "wrapped", "meth", "cm", "sm", "prop", "td", "lru", "moved", "base_run", "sub_keep"]
# every mutation of the classes / modules that rows mention, plus the ones that only change a function's shape
TYPE_MUTS = ["A", "B", "C", "D", "E", "S", "M", "Outer.Inner", "mod:gone", "mod:sub", "mod:fxtop",
             "f_params", "f_yieldcls", "f_retcls"]


def _first_active(tag, muts):
    for mut, cls, kind in STALE_BY.get(tag, []):
        if mut in muts:
            return cls, kind
    return None


def expected(tag, muts):
    """'ok' | MonkeyTypeError class name | None (outside the property) -- known BY CONSTRUCTION of the fixture"""
    if tag in ALWAYS_STALE:
        return ALWAYS_STALE[tag][0]
    if tag == "broken_f":
        return None if "broken" in muts else "ok"
    hit = _first_active(tag, muts)
    return hit[0] if hit else "ok"


def kind_of(tag, muts):
    if tag in ALWAYS_STALE:
        return ALWAYS_STALE[tag][1]
    hit = _first_active(tag, muts)
    if hit:
        return hit[1]
    if tag == "params" and "f_params" in muts:
        return PARAMS_TAG[2]
    return "valid"


def copy_tree(src_root, dst_root):
    """copy the (possibly mutated) fixture from one root to another"""
    shutil.copytree(os.path.join(src_root, "fxpkg"), os.path.join(dst_root, "fxpkg"))
    if os.path.exists(os.path.join(src_root, "fxtop.py")):
        shutil.copy(os.path.join(src_root, "fxtop.py"), os.path.join(dst_root, "fxtop.py"))


def source_file(root, module):
    """the file `apply <module>` rewrites, or None when the module is not there"""
    base = os.path.join(root, *module.split("."))
    for p in (base + ".py", os.path.join(base, "__init__.py")):
        if os.path.isfile(p):
            return p
    return None
