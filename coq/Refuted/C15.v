(* C15 — the full completeness clause ("every stub annotation for an unannotated position is present in
   the result") is FALSE of the faithful model of today's code, in two classes (call site: libcst 1.9.0). *)
From Coq Require Import List Bool String.
From MT Require Import Apply ApplyFacts ApplyExamples ApplyIdemBase ApplyIdemImports ApplyIdem.
From MT.Props Require Import C15.
Import ListNotations.
Open Scope list_scope.

(* kf_star_param: annotations for *args / **kwargs are never applied.  Witness: DESIGN B-13; the result is
   the abstraction of the real tool's output; excluding star parameters makes the predicate true. *)
Theorem apply_complete_full_refuted :
  exists ow stub src out,
    apply ow stub src = Some out
    /\ completeb (mk_env ow stub src) excl_none src (core src out) = false
    /\ completeb (mk_env ow stub src) excl_star src (core src out) = true.
Proof. exists false, b13_stub, b13_src, b13_out. vm_compute. repeat split; reflexivity. Qed.
Print Assumptions apply_complete_full_refuted.

(* kf_dotted_name: `Outer.Inner` on a positional-or-keyword parameter or the return becomes `Inner`, and
   `from shapes.Outer import Inner` is added; the keyword-only `b: Outer.Inner` is copied verbatim. *)
Theorem apply_complete_dotted_refuted :
  exists ow stub src out,
    apply ow stub src = Some out
    /\ completeb (mk_env ow stub src) excl_star src (core src out) = false
    /\ completeb (mk_env ow stub src) (excl_known (stub_symbols stub)) src (core src out) = true.
Proof. exists false, dot_stub, dot_src, dot_out. vm_compute. repeat split; reflexivity. Qed.
Print Assumptions apply_complete_dotted_refuted.

(* ---- additions for Refuted/C15.v ---- *)
Theorem C15_full_refuted : ~ C15_full.
Proof. exact idempotent_unconditional_refuted. Qed.
Print Assumptions C15_full_refuted.
Theorem apply_idempotent_redefinition_refuted :
  second_differs false ce_redef_stub ce_redef_src = true
  /\ reimport_safe ce_redef_stub = true /\ idem_side false ce_redef_stub ce_redef_src = false.
Proof. exact idem_ce_redefinition. Qed.
Print Assumptions apply_idempotent_redefinition_refuted.
Theorem apply_idempotent_overwrite_quote_refuted :
  second_differs true ce_quote_stub ce_quote_src = true
  /\ second_differs false ce_quote_stub ce_quote_src = false
  /\ reimport_safe ce_quote_stub = true /\ idem_side true ce_quote_stub ce_quote_src = false
  /\ idem_side false ce_quote_stub ce_quote_src = true.
Proof. exact idem_ce_overwrite_quote. Qed.
Print Assumptions apply_idempotent_overwrite_quote_refuted.
