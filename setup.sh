#!/bin/bash
# Build the framework from files on disk only (offline). Full .vo build, never -vos/-vok.
set -e
cd "$(dirname "$0")"
export PYTHONPATH="${VERIF_REPO:-/repo}:$(pwd)" PYTHONHASHSEED=0 PYTHONDONTWRITEBYTECODE=1
/venv/bin/python -m harness.extract_constants > /dev/null
/venv/bin/python -c "from harness import common; common.write_coqproject()"
cd coq
coq_makefile -f _CoqProject -o Makefile
timeout 3000 make -j16
