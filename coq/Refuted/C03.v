(* Known finding kf_lookup_getattr (C03): function lookup applies hook-invoking primitives to program objects. *)
From MT Require Import Types Effects.
Theorem lookup_hook_free_refuted : forallb hook_free_lookup lookup_prims = false.
Proof. vm_compute. reflexivity. Qed.
Print Assumptions lookup_hook_free_refuted.
