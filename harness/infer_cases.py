"""Case stream shared by C04/C05/C06: (k, values, type returned by /repo's get_type+shrink_types)."""
import random

from harness import common
from harness.valgen import ValGen

KS = [0, 1, 2, 3, 10, 200]

HEADER = """From MT Require Import InferCases.
Definition h : hierarchy := %s.
"""


def impl_infer(vs, k):
    from monkeytype.typing import get_type, shrink_types
    return shrink_types([get_type(v, k) for v in vs], k)


def nontrivial(vs):
    """>= 2 values, at least one container, not all values' reifications equal."""
    import collections
    if len(vs) < 2:
        return False
    if not any(type(v) in (list, set, tuple, dict, collections.defaultdict) for v in vs):
        return False
    return True


def small_scope(ct):
    """Exhaustive: all multisets of size 1..3 over a 7-element alphabet of small values, k in {0,1,2}."""
    import itertools
    from harness import fxclasses as fx
    alpha = [1, "s", None, fx.B(), [], [1], {"a": 1}, {"a": "s", "b": 1}, {1: 2}, (1, "s"), [{"a": 1}], {"a": {"b": 1}}]
    for n in (1, 2, 3):
        for combo in itertools.combinations_with_replacement(range(len(alpha)), n):
            for k in (0, 1, 2):
                yield k, [alpha[i] for i in combo]


def generate(seed, n_random, with_small_scope, extra_cases=()):
    """Returns (ct, cases) with cases = list of dict(k, vs, impl, term, nontrivial)."""
    ct = common.ClassTable()
    rnd = random.Random(seed)
    g = ValGen(rnd)
    raw = list(extra_cases)
    if with_small_scope:
        raw.extend(small_scope(ct))
    for i in range(n_random):
        k = rnd.choice(KS)
        raw.append((k, g.values()))
    cases = []
    for k, vs in raw:
        try:
            impl = impl_infer(vs, k)
            impl_term = common.reify_type(impl, ct)
            err = None
        except Exception as e:   # the implementation raised: the property says inference never errors
            impl_term = 'TFwd "?raised"%string'
            err = f"{type(e).__name__}: {e}"
        vterms = [common.reify_value(v, ct) for v in vs]
        term = f"ICase {k} {common.coq_list(vterms)} ({impl_term})"
        cases.append({"k": k, "vs": vs, "vs_repr": repr(vs)[:400], "impl": impl_term, "term": term,
                      "nontrivial": nontrivial(vs), "error": err})
    return ct, cases


def distribution(cases):
    import collections
    d = collections.Counter()
    for c in cases:
        d[f"k={c['k']}"] += 1
        d[f"n_values={len(c['vs'])}"] += 1
        t = c["impl"]
        for tag in ("TTypedDict", "TUnion", "TList", "TDict", "TDefaultDict", "TTuple", "TSet", "TType", "TCallable", "TIterator", "TAny"):
            if tag in t:
                d["impl_has_" + tag] += 1
        if c["error"]:
            d["impl_raised"] += 1
    return dict(sorted(d.items()))
