(* C14 — generating a stub from the same set of distinct traces gives the same stub up to the order of union
   members: what is PROVED here (for all inputs) is
     (1) "equal up to union order / duplication / TypedDict field order" (equivb) is an equivalence relation on
         well-formed types and equivalent types admit exactly the same values at every position;
     (2) what Union[...] admits does not depend on the order or multiplicity of the members it is built from;
     (3) the skeleton is order-insensitive: the set of distinct rows does not depend on the order or duplication of
         rows, and the rendering order (sort by name) is a function of the set of names;
     (4, partial) for TypedDict-free types, what the merged type (shrink_types) admits depends only on the SET of
         traced types.
   What is NOT proved is kept as the Gallina propositions C14_merge_full / C14_full at the end (tested only). *)
From MT Require Import Types StubSet Infer Rewrite TypesFacts StubSetEquiv StubSetOrder StubSetMerge.
From Coq Require Import Sorting.Permutation.

(* ---------------- (1) the equivalence and what it preserves ---------------- *)
Theorem member_equivb :
  forall anyb sub a b v, wf_ty a -> wf_ty b -> equivb a b = true -> member anyb sub v a = member anyb sub v b.
Proof. exact StubSetEquiv.member_equivb. Qed.
Print Assumptions member_equivb.

Theorem equivb_refl : forall t, wf_ty t -> equivb t t = true.
Proof. exact StubSetEquiv.equivb_refl. Qed.
Print Assumptions equivb_refl.

Theorem equivb_sym : forall a b, wf_ty a -> wf_ty b -> equivb a b = true -> equivb b a = true.
Proof. exact StubSetEquiv.equivb_sym. Qed.
Print Assumptions equivb_sym.

Theorem equivb_trans :
  forall a b c, wf_ty a -> wf_ty b -> wf_ty c -> equivb a b = true -> equivb b c = true -> equivb a c = true.
Proof. exact StubSetEquiv.equivb_trans. Qed.
Print Assumptions equivb_trans.

(* on TypedDict-free types the equivalence is exactly Python's == on typing objects *)
Theorem py_eqb_is_equivb_tdfree :
  forall a b, has_td a = false -> has_td b = false -> py_eqb a b = equivb a b.
Proof. exact StubSetMerge.py_eqb_equivb_tdfree. Qed.
Print Assumptions py_eqb_is_equivb_tdfree.

Example ex_member_equivb :
  let a := TUnion [TCls cInt; TList (TUnion [TCls cStr; TCls cNone]);
                   TTypedDict [("a"%string, TCls cInt); ("b"%string, TUnion [TCls cInt; TCls cStr])] []] in
  let b := TUnion [TTypedDict [("b"%string, TUnion [TCls cStr; TCls cInt; TCls cStr]); ("a"%string, TCls cInt)] [];
                   TList (TUnion [TCls cNone; TCls cStr]); TCls cInt; TCls cInt] in
  equivb a b = true /\ ty_eqb a b = false /\ equivb a a = true /\ equivb b a = true
  /\ equivb a (TUnion [TCls cInt]) = false.
Proof. vm_compute. repeat split; reflexivity. Qed.

(* well-formedness (distinct field names) is needed for reflexivity: a repeated field name shadows *)
Example ex_equivb_refl_needs_wf :
  let t := TTypedDict [("a"%string, TCls cInt); ("a"%string, TCls cStr)] [] in equivb t t = false.
Proof. vm_compute. reflexivity. Qed.

(* ---------------- (2) Union[...] ---------------- *)
Theorem union_mk_perm_members :
  forall anyb sub ts ts', Permutation ts ts' -> Forall wf_ty ts ->
    forall v, member anyb sub v (union_mk ts) = member anyb sub v (union_mk ts').
Proof. exact StubSetOrder.union_mk_perm_members. Qed.
Print Assumptions union_mk_perm_members.

(* ... nor on multiplicity *)
Theorem union_mk_set_members :
  forall anyb sub ts ts', incl ts ts' -> incl ts' ts -> Forall wf_ty ts -> Forall wf_ty ts' ->
    forall v, member anyb sub v (union_mk ts) = member anyb sub v (union_mk ts').
Proof. exact StubSetOrder.union_mk_set_members. Qed.
Print Assumptions union_mk_set_members.

Example ex_union_mk_perm :
  let ts  := [TCls cInt; TUnion [TCls cStr; TCls cNone]; TList (TCls cInt); TCls cInt] in
  let ts' := [TList (TCls cInt); TCls cInt; TUnion [TCls cStr; TCls cNone]; TCls cInt; TList (TCls cInt)] in
  union_mk ts = TUnion [TCls cInt; TCls cStr; TCls cNone; TList (TCls cInt)]
  /\ union_mk ts' = TUnion [TList (TCls cInt); TCls cInt; TCls cStr; TCls cNone]
  /\ equivb (union_mk ts) (union_mk ts') = true
  /\ forallb (fun x => existsb (ty_eqb x) ts') ts && forallb (fun x => existsb (ty_eqb x) ts) ts' = true.
Proof. vm_compute. repeat split; reflexivity. Qed.

(* ---------------- (3) the skeleton ---------------- *)
(* sorting: for a total, transitive order that separates the elements of l, the sorted list is a function of
   the multiset *)
Theorem isort_perm :
  forall (A : Type) (leb : A -> A -> bool),
    (forall a b, leb a b = true \/ leb b a = true) ->
    (forall a b c, leb a b = true -> leb b c = true -> leb a c = true) ->
    forall l l',
      (forall a b, In a l -> In b l -> leb a b = true -> leb b a = true -> a = b) ->
      Permutation l l' -> isort leb l = isort leb l'.
Proof. exact @StubSetOrder.isort_perm. Qed.
Print Assumptions isort_perm.

(* the form used by ModuleStub/ClassStub: entries sorted by name, names pairwise distinct *)
Theorem isort_perm_keys :
  forall (A K : Type) (key : A -> K) (kleb : K -> K -> bool),
    (forall a b, kleb a b = true \/ kleb b a = true) ->
    (forall a b c, kleb a b = true -> kleb b c = true -> kleb a c = true) ->
    (forall a b, kleb a b = true -> kleb b a = true -> a = b) ->
    forall l l', NoDup (map key l) -> Permutation l l' ->
      isort (fun x y => kleb (key x) (key y)) l = isort (fun x y => kleb (key x) (key y)) l'.
Proof. exact @StubSetOrder.isort_perm_keys. Qed.
Print Assumptions isort_perm_keys.

Example ex_isort_perm :
  let l  := [(5%N, "f"%string); (2%N, "b"%string); (9%N, "z"%string); (3%N, "c"%string)] in
  let l' := [(3%N, "c"%string); (9%N, "z"%string); (5%N, "f"%string); (2%N, "b"%string)] in
  NoDup (map fst l) /\ Permutation l l' /\ l <> l'
  /\ isort (fun x y => N.leb (fst x) (fst y)) l = [(2%N, "b"%string); (3%N, "c"%string); (5%N, "f"%string); (9%N, "z"%string)]
  /\ isort (fun x y => N.leb (fst x) (fst y)) l' = isort (fun x y => N.leb (fst x) (fst y)) l.
Proof.
  cbv zeta. split; [|split; [|split; [discriminate|vm_compute; split; reflexivity]]].
  - cbn [map fst]. repeat constructor; cbn [In]; intros H; repeat destruct H as [H|H]; try discriminate H; exact H.
  - (* both are permutations of their common sorted form *)
    set (leb := fun x y : N * string => N.leb (fst x) (fst y)).
    match goal with |- Permutation ?a ?b =>
      apply (Permutation_trans (l' := isort leb a)); [apply Permutation_sym; apply isort_permutation|];
      replace (isort leb a) with (isort leb b) by (vm_compute; reflexivity); apply isort_permutation end.
Qed.

(* with a repeated name the (stable) sort is order-dependent: the distinct-names premise is needed *)
Example ex_isort_dupkey_order_dependent :
  let l  := [(1%N, "a"%string); (1%N, "b"%string)] in
  let l' := [(1%N, "b"%string); (1%N, "a"%string)] in
  isort (fun x y => N.leb (fst x) (fst y)) l <> isort (fun x y => N.leb (fst x) (fst y)) l'.
Proof. exact StubSetOrder.ex_isort_dupkey_order_dependent. Qed.

(* the set of distinct rows: GROUP BY keeps one representative of every row ... *)
Theorem nodupb_same_set :
  forall (K : Type) (keyb : K -> K -> bool),
    (forall x, keyb x x = true) ->
    (forall x y z, keyb x y = true -> keyb y z = true -> keyb x z = true) ->
    forall l, same_set keyb (nodupb keyb l) l = true.
Proof. exact @StubSetOrder.nodupb_same_set. Qed.
Print Assumptions nodupb_same_set.

(* ... a reordering of the rows is the same set ... *)
Theorem same_set_perm :
  forall (K : Type) (keyb : K -> K -> bool), (forall x, keyb x x = true) ->
    forall l l', Permutation l l' -> same_set keyb l l' = true.
Proof. exact @StubSetOrder.same_set_perm. Qed.
Print Assumptions same_set_perm.

(* ... hence two stores holding the same rows in any order and any multiplicity give the same distinct rows *)
Theorem nodupb_set_invariant :
  forall (K : Type) (keyb : K -> K -> bool),
    (forall x, keyb x x = true) ->
    (forall x y z, keyb x y = true -> keyb y z = true -> keyb x z = true) ->
    forall l l', incl l l' -> incl l' l -> same_set keyb (nodupb keyb l) (nodupb keyb l') = true.
Proof. exact @StubSetOrder.nodupb_set_invariant. Qed.
Print Assumptions nodupb_set_invariant.

Theorem nodupb_perm_invariant :
  forall (K : Type) (keyb : K -> K -> bool),
    (forall x, keyb x x = true) ->
    (forall x y z, keyb x y = true -> keyb y z = true -> keyb x z = true) ->
    forall l l', Permutation l l' -> same_set keyb (nodupb keyb l) (nodupb keyb l') = true.
Proof. exact @StubSetOrder.nodupb_perm_invariant. Qed.
Print Assumptions nodupb_perm_invariant.

Example ex_nodupb_same_set :
  let l  := [3%N; 1%N; 3%N; 2%N; 1%N; 3%N] in
  let l' := [1%N; 2%N; 2%N; 3%N] in
  nodupb N.eqb l = [2%N; 1%N; 3%N] /\ nodupb N.eqb l' = [1%N; 2%N; 3%N]
  /\ same_set N.eqb (nodupb N.eqb l) l = true
  /\ same_set N.eqb (nodupb N.eqb l) (nodupb N.eqb l') = true
  /\ same_set N.eqb l [1%N; 2%N] = false.
Proof. vm_compute. repeat split; reflexivity. Qed.

(* transitivity of the row test is needed (reflexivity alone is not enough) *)
Example ex_nodupb_needs_trans :
  let keyb := fun a b : N => N.eqb a b || (N.eqb a 0 && N.eqb b 1) || (N.eqb a 1 && N.eqb b 2) in
  (forall x, In x [0%N; 1%N; 2%N] -> keyb x x = true)
  /\ nodupb keyb [0%N; 1%N; 2%N] = [2%N]
  /\ same_set keyb (nodupb keyb [0%N; 1%N; 2%N]) [0%N; 1%N; 2%N] = false.
Proof. exact StubSetOrder.ex_nodupb_needs_trans. Qed.

(* ---------------- (4) the merge, PARTIAL: TypedDict-free types ---------------- *)
(* k (max_typed_dict_size) arbitrary; fuel as computed by shrink_top on either side *)
Theorem merge_tdfree_perm_partial :
  forall anyb sub k ts ts' t t',
    Forall (fun t => has_td t = false) ts -> Forall wf_ty ts -> Permutation ts ts' ->
    shrink_top k ts = Some t -> shrink_top k ts' = Some t' ->
    forall v, member anyb sub v t = member anyb sub v t'.
Proof. exact StubSetMerge.shrink_top_perm_invariant. Qed.
Print Assumptions merge_tdfree_perm_partial.

(* ... and multiplicity (the same SET of types) *)
Theorem merge_tdfree_set_partial :
  forall anyb sub k ts ts' t t',
    Forall (fun t => has_td t = false) ts -> incl ts ts' -> incl ts' ts ->
    shrink_top k ts = Some t -> shrink_top k ts' = Some t' ->
    forall v, member anyb sub v t = member anyb sub v t'.
Proof. exact StubSetMerge.shrink_top_set_invariant. Qed.
Print Assumptions merge_tdfree_set_partial.

(* for TypedDict-free inputs the merge is always defined, so the two results exist and admit the same values *)
Theorem merge_tdfree_defined :
  forall k ts, Forall (fun t => has_td t = false) ts -> exists t, shrink_top k ts = Some t.
Proof. exact StubSetMerge.shrink_top_tdfree_defined. Qed.
Print Assumptions merge_tdfree_defined.

Theorem merge_tdfree_perm_total_partial :
  forall anyb sub k ts ts',
    Forall (fun t => has_td t = false) ts -> Permutation ts ts' ->
    exists t t', shrink_top k ts = Some t /\ shrink_top k ts' = Some t'
                 /\ forall v, member anyb sub v t = member anyb sub v t'.
Proof. exact StubSetMerge.shrink_top_perm_total. Qed.
Print Assumptions merge_tdfree_perm_total_partial.

Example ex_merge_tdfree_perm :
  let i := TCls cInt in let s := TCls cStr in
  let ts  := [TList i; TList (TUnion [i; s]); TList TAny; TList s] in
  let ts' := [TList s; TList TAny; TList (TUnion [i; s]); TList i; TList s] in
  let us  := [i; TUnion [s; TCls cNone]; TList i] in
  let us' := [TList i; TUnion [s; TCls cNone]; i; TList i] in
  forallb (fun t => negb (has_td t)) (ts ++ us) = true
  /\ shrink_top 3 ts = Some (TList (TUnion [i; s]))
  /\ shrink_top 3 ts' = Some (TList (TUnion [s; i]))
  /\ shrink_top 3 us = Some (TUnion [i; s; TCls cNone; TList i])
  /\ shrink_top 3 us' = Some (TUnion [TList i; s; TCls cNone; i]).
Proof. vm_compute. repeat split; reflexivity. Qed.

(* ---------------- what is left open (statements only; tested on small scopes, not proved) ---------------- *)
(* the merged type itself (TypedDicts included) is the same up to equivb, whatever the order of the traces *)
Definition C14_merge_full : Prop :=
  forall k ts ts', Forall wf_ty ts -> Permutation ts ts' ->
    opt_equivb (shrink_top k ts) (shrink_top k ts') = true.

(* two classes never list their shared ancestors in different orders *)
Fixpoint listN_eqb (a b : list cls) : bool :=
  match a, b with [], [] => true | x :: a', y :: b' => N.eqb x y && listN_eqb a' b' | _, _ => false end.
Definition mro_consistentb (h : hierarchy) : bool :=
  forallb (fun e => forallb (fun e' =>
     listN_eqb (filter (fun a => memN a (snd e')) (snd e)) (filter (fun a => memN a (snd e)) (snd e'))) h) h.

(* the annotation after the rewriter chain, for hierarchies satisfying H *)
Definition C14_rw_stmt (H : hierarchy -> bool) : Prop :=
  forall k h bt rs ts ts' t t', H h = true -> Forall wf_ty ts -> Permutation ts ts' ->
    shrink_top k ts = Some t -> shrink_top k ts' = Some t' ->
    equivb (rw_chain h bt rs t) (rw_chain h bt rs t') = true.

Definition C14_full : Prop := C14_rw_stmt mro_consistentb.

(* Without the premise on the hierarchy the statement is FALSE: RewriteLargeUnion picks the first common
   ancestor in the MRO of the FIRST union member, and the first member follows the trace order
   (finding class kf_rlu_ambiguous_ancestor).  Classes 16 = X(A,B), 17 = Y(B,A), 18..21 = Z_i(A,B). *)
Definition h_amb : hierarchy :=
  [(16%N, [16%N; 30%N; 31%N; cObject]); (17%N, [17%N; 31%N; 30%N; cObject]); (18%N, [18%N; 30%N; 31%N; cObject]);
   (19%N, [19%N; 30%N; 31%N; cObject]); (20%N, [20%N; 30%N; 31%N; cObject]); (21%N, [21%N; 30%N; 31%N; cObject]);
   (30%N, [30%N; cObject]); (31%N, [31%N; cObject])].

Example ex_rlu_order_dependent :
  let chain := [RRemoveEmpty; RConfigDict; RLargeUnion 5; RGenerator] in
  let ts  := map TCls [16%N; 17%N; 18%N; 19%N; 20%N; 21%N] in
  let ts' := map TCls [17%N; 16%N; 18%N; 19%N; 20%N; 21%N] in
  shrink_top 3 ts = Some (TUnion ts) /\ shrink_top 3 ts' = Some (TUnion ts')
  /\ rw_chain h_amb [] chain (TUnion ts) = TCls 30%N
  /\ rw_chain h_amb [] chain (TUnion ts') = TCls 31%N
  /\ mro_consistentb h_amb = false.
Proof. vm_compute. repeat split; reflexivity. Qed.

Theorem C14_rw_unrestricted_refuted : ~ C14_rw_stmt (fun _ => true).
Proof.
  intros H.
  specialize (H 3 h_amb [] [RRemoveEmpty; RConfigDict; RLargeUnion 5; RGenerator]
                (map TCls [16%N; 17%N; 18%N; 19%N; 20%N; 21%N])
                (map TCls [17%N; 16%N; 18%N; 19%N; 20%N; 21%N])
                (TUnion (map TCls [16%N; 17%N; 18%N; 19%N; 20%N; 21%N]))
                (TUnion (map TCls [17%N; 16%N; 18%N; 19%N; 20%N; 21%N]))
                eq_refl).
  assert (E : false = true); [|discriminate E].
  apply H.
  - cbn [map]. repeat constructor.
  - cbn [map]. apply perm_swap.
  - vm_compute. reflexivity.
  - vm_compute. reflexivity.
Qed.
Print Assumptions C14_rw_unrestricted_refuted.

(* the premise of C14_full is satisfiable by a hierarchy with multiple inheritance *)
Example ex_mro_consistent :
  mro_consistentb [(16%N, [16%N; 30%N; 31%N; cObject]); (17%N, [17%N; 30%N; 31%N; cObject]);
                   (18%N, [18%N; 16%N; 30%N; 31%N; cObject]); (19%N, [19%N; 31%N; cObject]);
                   (30%N, [30%N; cObject]); (31%N, [31%N; cObject])] = true.
Proof. vm_compute. reflexivity. Qed.

(* ---- C14_merge_full is a theorem (Proofs/MergePermEquiv.v): permuting the inputs of the merge gives an equivb-equal
        result, TypedDicts anywhere ---- *)
From MT Require Import MergePermEquiv.
Theorem C14_merge_full_holds : C14_merge_full.
Proof. exact merge_perm_equivb. Qed.
Print Assumptions C14_merge_full_holds.

(* ================= the rewriters (Proofs/StubSetRewrite*.v) =================
   The literal C14_full is REFUTED (a class table whose MRO omits the class itself; non-normal inputs); proved is the
   strongest true variant: outside kf_td_under_union every rewriter and every chain maps equivb-equal normal types to
   equivb-equal types, and merge-then-rewrite is order-invariant. *)
(* ---------------- (5) the rewriter chain (Proofs/StubSetRewrite*.v) ---------------- *)
From MT Require RewriteTrigger MergePermBase StubSetRewriteHier StubSetRewrite StubSetRewriteClass StubSetRewriteEx.

(* every class's MRO lists the class itself (in Python: as its first entry) *)
Definition mro_selfb := StubSetRewriteHier.mro_selfb.

(* every shipped rewriter maps equivb-equal, well-formed, normal types outside kf_td_under_union to equivb-equal
   types (again outside the class), for class tables with consistent, self-listing MROs *)
Theorem rw_equiv_invariant :
  forall h bt, mro_consistentb h = true -> mro_selfb h = true ->
  forall r a b, wf_ty a -> wf_ty b -> RewriteTrigger.normal a = true -> RewriteTrigger.normal b = true ->
    MergePermBase.kf_td_under_union a = false -> equivb a b = true ->
    equivb (rw h bt r a) (rw h bt r b) = true
    /\ MergePermBase.kf_td_under_union (rw h bt r a) = false /\ MergePermBase.kf_td_under_union (rw h bt r b) = false.
Proof. exact StubSetRewrite.rw_equiv_invariant. Qed.
Print Assumptions rw_equiv_invariant.

Theorem rw_chain_equiv_invariant :
  forall h bt, mro_consistentb h = true -> mro_selfb h = true ->
  forall rs a b, wf_ty a -> wf_ty b -> RewriteTrigger.normal a = true -> RewriteTrigger.normal b = true ->
    MergePermBase.kf_td_under_union a = false -> equivb a b = true ->
    equivb (rw_chain h bt rs a) (rw_chain h bt rs b) = true
    /\ MergePermBase.kf_td_under_union (rw_chain h bt rs a) = false
    /\ MergePermBase.kf_td_under_union (rw_chain h bt rs b) = false.
Proof. exact StubSetRewrite.rw_chain_equiv_invariant. Qed.
Print Assumptions rw_chain_equiv_invariant.

(* C14_full with the premises it needs: MROs list their own class, the traced types are normal (as typing builds
   them), and the merged type has no TypedDict-bearing union member *)
Theorem rw_equiv_invariant_partial :
  forall k h bt rs ts ts' t t',
    mro_consistentb h = true -> mro_selfb h = true ->
    Forall wf_ty ts -> forallb RewriteTrigger.normal ts = true -> Permutation ts ts' ->
    shrink_top k ts = Some t -> shrink_top k ts' = Some t' -> MergePermBase.kf_td_under_union t = false ->
    equivb (rw_chain h bt rs t) (rw_chain h bt rs t') = true.
Proof. exact StubSetRewrite.rw_equiv_invariant_partial. Qed.
Print Assumptions rw_equiv_invariant_partial.

Theorem merge_rewrite_perm_partial :
  forall h bt, mro_consistentb h = true -> mro_selfb h = true ->
  forall k rs ts ts',
    Forall wf_ty ts -> forallb RewriteTrigger.normal ts = true -> Permutation ts ts' ->
    (forall t, shrink_top k ts = Some t -> MergePermBase.kf_td_under_union t = false) ->
    opt_equivb (option_map (rw_chain h bt rs) (shrink_top k ts)) (option_map (rw_chain h bt rs) (shrink_top k ts')) = true.
Proof. exact StubSetRewrite.merge_rewrite_perm_opt. Qed.
Print Assumptions merge_rewrite_perm_partial.

(* the same with premises on the traced types only: every input is outside kf_td_under_union and has no TypedDict
   below DefaultDict / Type / Iterator (where RewriteAnonymousTypedDictToDict does not reach) *)
Definition c14_inputb := StubSetRewriteClass.c14_inputb.

Theorem merge_outside_class :
  forall k ts t, Forall wf_ty ts -> forallb c14_inputb ts = true -> shrink_top k ts = Some t ->
    MergePermBase.kf_td_under_union t = false.
Proof. exact StubSetRewriteClass.merge_outside_class. Qed.
Print Assumptions merge_outside_class.

Theorem merge_rewrite_perm_inputs_partial :
  forall h bt k rs ts ts',
    mro_consistentb h = true -> mro_selfb h = true ->
    Forall wf_ty ts -> forallb RewriteTrigger.normal ts = true -> forallb c14_inputb ts = true -> Permutation ts ts' ->
    opt_equivb (option_map (rw_chain h bt rs) (shrink_top k ts)) (option_map (rw_chain h bt rs) (shrink_top k ts')) = true.
Proof. exact StubSetRewriteClass.merge_rewrite_perm_inputs. Qed.
Print Assumptions merge_rewrite_perm_inputs_partial.

(* the literal C14_full is false: its premises allow a class table in which a class's MRO omits the class ... *)
Theorem C14_full_refuted : ~ C14_full.
Proof. exact StubSetRewriteEx.C14_rw_stmt_consistent_only_refuted. Qed.
Print Assumptions C14_full_refuted.

(* ... and, with self-listing MROs, input types that are not in typing's normal form *)
Theorem C14_rw_nonnormal_refuted : ~ C14_rw_stmt (fun h => mro_consistentb h && mro_selfb h).
Proof. exact StubSetRewriteEx.C14_rw_stmt_nonnormal_refuted. Qed.
Print Assumptions C14_rw_nonnormal_refuted.

Example ex_chain_rcd : 
  let ts_ := TCls cStr in let ti := TCls cInt in
  let chain := [RRemoveEmpty; RConfigDict; RLargeUnion 6; RGenerator] in
  let ts  := [TDict ts_ (TUnion [TCls 16%N; TCls 19%N]); TDict ts_ (TList TAny); TDict ts_ (TList (TCls 17%N));
              TDict ts_ (TTuple [ti; ti]); TDict ts_ (TCls 18%N)] in
  let ts' := [TDict ts_ (TCls 18%N); TDict ts_ (TTuple [ti; ti]); TDict ts_ (TList (TCls 17%N)); TDict ts_ (TList TAny);
              TDict ts_ (TUnion [TCls 19%N; TCls 16%N])] in
  mro_consistentb StubSetRewriteEx.hx = true /\ mro_selfb StubSetRewriteEx.hx = true
  /\ forallb RewriteTrigger.normal ts = true
  /\ option_map MergePermBase.kf_td_under_union (shrink_top 3 ts) = Some false
  /\ option_map (rw_chain StubSetRewriteEx.hx StubSetRewriteEx.btx chain) (shrink_top 3 ts)
     <> option_map (rw_chain StubSetRewriteEx.hx StubSetRewriteEx.btx chain) (shrink_top 3 ts')
  /\ opt_equivb (option_map (rw_chain StubSetRewriteEx.hx StubSetRewriteEx.btx chain) (shrink_top 3 ts))
                (option_map (rw_chain StubSetRewriteEx.hx StubSetRewriteEx.btx chain) (shrink_top 3 ts')) = true.
Proof. vm_compute. repeat split; try reflexivity. discriminate. Qed.
