(* Proofs/ConfineSpec.v — C16: the two headline statements, assembled. *)
From Coq Require Import List Bool Arith String Ascii Lia.
From MT Require Import Confine ConfineEmb ConfineItems ConfineRender ConfineRuntime.
Import ListNotations.
Open Scope list_scope.

Lemma moved_items_In stub src it :
  In it (moved_items stub src) <->
  (In it (gather stub) /\ ~ In it (gather_top src) /\ runtime_module (i_mod it) = false).
Proof.
  unfold moved_items, newly. rewrite !filter_In, !negb_true_iff, memb_false. tauto.
Qed.

Lemma moved_not_runtime_module stub src it :
  In it (moved_items stub src) -> runtime_module (i_mod it) = false.
Proof. intro H. now apply moved_items_In in H. Qed.

Lemma confine_Some stub src applied out :
  confine stub src applied = Some out ->
  in_domain (moved_items stub src) = true /\ out = confine_with (moved_items stub src) applied.
Proof.
  unfold confine. destruct (in_domain (moved_items stub src)); [|discriminate].
  intro H. injection H as <-. auto.
Qed.

Lemma kf_apply_extra_false stub src applied :
  kf_apply_extra stub src applied = false ->
  forall it, In it (top_items applied) -> allowed_runtime src it = true \/ In it (moved_items stub src).
Proof.
  intros H it Hit. unfold kf_apply_extra in H.
  destruct (allowed_runtime src it) eqn:A; [now left|]. right.
  destruct (memb it (moved_items stub src)) eqn:M; [now apply memb_In|].
  assert (X : existsb (fun it => negb (allowed_runtime src it) && negb (memb it (moved_items stub src)))
                      (top_items applied) = true).
  { apply existsb_exists. exists it. split; [assumption|]. now rewrite A, M. }
  rewrite X in H. discriminate.
Qed.

Theorem confine_spec :
  forall stub src applied out,
    wf_module src = true ->
    embedsb src applied = true ->
    confine stub src applied = Some out ->
       (future_head applied = true -> future_head out = true)
    /\ (forall it, In it (gather stub) -> ~ In it (gather_top src) -> runtime_module (i_mod it) = false ->
          In it (tc_items out) /\ ~ In it (top_items out))
    /\ (kf_apply_extra stub src applied = false -> nested_ok src applied = true ->
          forall it, In it (run_items out) -> allowed_runtime src it = true)
    /\ (kf_shadow stub src = false -> embedsb src out = true).
Proof.
  intros stub src applied out Hwf He Hc. apply confine_Some in Hc as [Hd ->].
  repeat split.
  - apply confine_head. now apply in_domain_no_future.
  - apply confine_moved_under_tc; [assumption|]. apply moved_items_In. auto.
  - apply confine_moved_not_toplevel. apply moved_items_In. auto.
  - intros Hk Hn. apply confine_no_new_runtime; [now apply kf_apply_extra_false|].
    unfold nested_ok in Hn. rewrite forallb_forall in Hn. exact Hn.
  - intro Hk. now apply confine_keeps_source.
Qed.

Theorem runtime_names_preserved :
  forall stub src applied out,
    wf_module src = true ->
    embedsb src applied = true ->
    confine stub src applied = Some out ->
       (kf_shadow stub src = false -> incl (runtime_bound src) (runtime_bound out))
    /\ (needed_okb src applied = true -> incl (runtime_needed src out) (runtime_bound out)).
Proof.
  intros stub src applied out Hwf He Hc. apply confine_Some in Hc as [Hd ->]. split.
  - intro Hk. apply embeds_runtime_bound. now apply confine_keeps_source.
  - intro Hn. apply confine_needed_bound; [|assumption]. intros it. apply moved_not_runtime_module.
Qed.

(* the finding class kf_shadow is empty when no two module-level imports of the source bind one name and no star import
   precedes a from-import of the same module - in particular whenever every module-level item is in the symbol mapping *)
Lemma kf_shadow_free_when_gathered stub src :
  (forall it, In it (top_items src) -> In it (gather_top src)) -> kf_shadow stub src = false.
Proof.
  intro H. unfold kf_shadow. destruct (existsb _ _) eqn:E; [|reflexivity].
  apply existsb_exists in E as [it [Hit Hm]]. apply memb_In in Hm. apply moved_items_In in Hm as [_ [Hn _]].
  elim Hn. now apply H.
Qed.

(* the name the inserted block tests is imported in the leading import block, hence bound before every block *)
From MT Require Import ConfineTcName.
Theorem tc_name_bound :
  forall stub src applied out,
    confine stub src applied = Some out -> tc_ready out = true /\ tc_before out = true.
Proof.
  intros stub src applied out Hc. apply confine_Some in Hc as [_ ->].
  assert (R : tc_ready (confine_with (moved_items stub src) applied) = true).
  { apply confine_tc_ready. intros it Hit. apply moved_not_runtime_module in Hit.
    unfold runtime_module in Hit. now apply orb_false_iff in Hit as [Hit _]. }
  split; [exact R | now apply tc_ready_before].
Qed.
