(* Proofs/TdBounded.v — C06: the TypedDict size limit is honoured by get_type and by merging. *)
From MT Require Import Types Infer TypesFacts UnionFacts InferFacts InferSound GetTypeSound.
From Coq Require Import Lia.

Notation keys m := (map fst m) (only parsing).

Section Bounded.
Variable k : nat.
Notation bd := (td_boundedb k).

Lemma bd_TTypedDict r o : bd (TTypedDict r o) = true <->
  1 <= List.length r + List.length o <= k
  /\ forallb (fun f => bd (snd f)) r = true /\ forallb (fun f => bd (snd f)) o = true.
Proof.
  cbn [td_boundedb]. rewrite !andb_true_iff, !Nat.leb_le. tauto.
Qed.

Lemma bd_k0_no_td t : td_boundedb 0 t = true -> has_td t = false.
Proof.
  induction t as [ | c | x IH | | x IH | x IH | x IH | a b IHa IHb | a b IHa IHb | xs IH | x IH
                 | a1 a2 a3 IH1 IH2 IH3 | xs IH | r o IHr IHo | s ] using ty_ind';
    cbn [td_boundedb has_td]; intros H; auto.
  - apply andb_prop in H. destruct H. rewrite IHa, IHb; auto.
  - apply andb_prop in H. destruct H. rewrite IHa, IHb; auto.
  - rewrite forallb_forall in H. rewrite Forall_forall in IH.
    destruct (existsb has_td xs) eqn:E; [|reflexivity]. apply existsb_exists in E. destruct E as [x [Hx Ex]].
    rewrite (IH x Hx (H x Hx)) in Ex. discriminate.
  - apply andb_prop in H. destruct H as [H H3]. apply andb_prop in H. destruct H as [H1 H2].
    rewrite IH1, IH2, IH3; auto.
  - rewrite forallb_forall in H. rewrite Forall_forall in IH.
    destruct (existsb has_td xs) eqn:E; [|reflexivity]. apply existsb_exists in E. destruct E as [x [Hx Ex]].
    rewrite (IH x Hx (H x Hx)) in Ex. discriminate.
  - rewrite !andb_true_iff, !Nat.leb_le in H. lia.
Qed.

Lemma flatten_bd ts : forallb bd ts = true -> forallb bd (flatten ts) = true.
Proof.
  unfold flatten. induction ts as [|t r IH]; cbn [flat_map forallb]; intros H; [reflexivity|].
  apply andb_prop in H. destruct H as [H1 H2]. rewrite forallb_app, IH by exact H2. rewrite andb_true_r.
  destruct t; cbn [forallb]; rewrite ?andb_true_r; try exact H1.
Qed.

Lemma union_mk_bd ts : forallb bd ts = true -> bd (union_mk ts) = true.
Proof.
  intros H. apply flatten_bd in H. unfold union_mk.
  assert (D : forallb bd (dedup [] (flatten ts)) = true).
  { rewrite forallb_forall in *. intros x Hx. apply H. eapply dedup_incl. exact Hx. }
  destruct (dedup [] (flatten ts)) as [|t [|t' l]]; [reflexivity| |exact D].
  cbn [forallb] in D. rewrite andb_true_r in D. exact D.
Qed.

Lemma td2dict_bd t : bd t = true -> bd (td2dict t) = true.
Proof.
  induction t as [ | c | x IH | | x IH | x IH | x IH | a b IHa IHb | a b IHa IHb | xs IH | x IH
                 | a1 a2 a3 IH1 IH2 IH3 | xs IH | r o IHr IHo | s ] using ty_ind';
    cbn [td_boundedb td2dict]; intros H; auto.
  - apply andb_prop in H. destruct H. cbn [td_boundedb]. rewrite IHa, IHb; auto.
  - cbn [td_boundedb]. rewrite forallb_forall in *. rewrite Forall_forall in IH. intros y Hy.
    apply in_map_iff in Hy. destruct Hy as [x [<- Hx]]. auto.
  - apply andb_prop in H. destruct H as [H H3]. apply andb_prop in H. destruct H as [H1 H2].
    cbn [td_boundedb]. rewrite IH1, IH2, IH3; auto.
  - apply union_mk_bd. rewrite forallb_forall in *. rewrite Forall_forall in IH. intros y Hy.
    apply in_map_iff in Hy. destruct Hy as [x [<- Hx]]. auto.
  - apply bd_TTypedDict in H. destruct H as [_ [Hr Ho]].
    assert (G : bd (TDict (TCls cStr)
                 (union_mk (map (fun f => td2dict (snd f)) r ++ map (fun f => td2dict (snd f)) o))) = true).
    { cbn [td_boundedb]. apply union_mk_bd. rewrite forallb_app.
      rewrite forallb_forall in Hr, Ho. rewrite Forall_forall in IHr, IHo.
      apply andb_true_intro; split; apply forallb_forall; intros y Hy; apply in_map_iff in Hy;
        destruct Hy as [f [<- Hf]]; auto. }
    destruct r, o; try exact G; reflexivity.
Qed.

(* every collected value type comes from a field of some input TypedDict *)
Lemma merge_origin ts (W : Forall wf_ty ts) e ft :
  In e (required_of ts) \/ In e (optional_of ts) -> In ft (snd e) ->
  exists x f, In x ts /\ (In f (td_req x) \/ In f (td_opt x)) /\ snd f = ft.
Proof.
  assert (KV : forall s, In ft (lookup_m s (kvmap ts [])) ->
               exists x f, In x ts /\ (In f (td_req x) \/ In f (td_opt x)) /\ snd f = ft).
  { intros s H. rewrite lookup_m_kvmap in H. cbn [lookup_m app] in H. apply in_flat_map in H.
    destruct H as [x [Hx H]]. apply In_vals_of in H. exists x, (s, ft). auto. }
  intros [He|He] Hft.
  - destruct (required_entry ts e He) as [E _]. rewrite E in Hft. apply (KV _ Hft).
  - rewrite (optional_entry ts e He) in Hft. apply in_app_or in Hft. destruct Hft as [Hft|Hft].
    + destruct (lookup_m_filter (fun e0 => negb (Nat.eqb (List.length (snd e0)) (List.length ts)))
                                (fst e) (kvmap ts []) (ND_kv ts)) as [Z|[Z _]]; rewrite Z in Hft.
      * destruct Hft. * apply (KV _ Hft).
    + apply In_vals_of in Hft. apply in_flat_map in Hft. destruct Hft as [x [Hx Hf]].
      exists x, (fst e, ft). auto.
Qed.

Lemma bd_fields x f : bd x = true -> In f (td_req x) \/ In f (td_opt x) -> bd (snd f) = true.
Proof.
  destruct x; cbn [td_req td_opt]; intros H [Hf|Hf]; try destruct Hf.
  - apply bd_TTypedDict in H. destruct H as [_ [Hr _]]. rewrite forallb_forall in Hr. apply Hr. exact Hf.
  - apply bd_TTypedDict in H. destruct H as [_ [_ Ho]]. rewrite forallb_forall in Ho. apply Ho. exact Hf.
Qed.

Lemma entries_bd ts (W : Forall wf_ty ts) e :
  forallb bd ts = true -> In e (required_of ts) \/ In e (optional_of ts) -> forallb bd (snd e) = true.
Proof.
  intros B He. apply forallb_forall. intros ft Hft.
  destruct (merge_origin ts W e ft He Hft) as [x [f [Hx [Hf <-]]]].
  rewrite forallb_forall in B. apply (bd_fields x f (B x Hx) Hf).
Qed.

Lemma shrink_bd fuel : forall ts t,
  Forall wf_ty ts -> forallb bd ts = true -> shrink k fuel ts = Some t -> bd t = true.
Proof.
  induction fuel as [|fuel IH]; intros ts t W B S; [cbn in S; discriminate S|].
  cbn [shrink] in S. destruct ts as [|t0 rest]; [injection S as <-; reflexivity|].
  destruct (forallb is_td (t0 :: rest)) eqn:ATD.
  - set (ts := t0 :: rest) in *.
    rewrite (merge_maps_pair ts) in S. cbn iota beta in S.
    set (required := required_of ts) in *. set (optional := optional_of ts) in *.
    destruct (Nat.ltb k (List.length required + List.length optional)) eqn:LT.
    + destruct (shrink k fuel (flat_map snd required ++ flat_map snd optional)) as [T|] eqn:ST;
        [|cbn [option_map] in S; discriminate S]. cbn [option_map] in S.
      injection S as <-. cbn [td_boundedb]. apply (IH _ _ (all_entries_wf ts W)) in ST; [exact ST|].
      rewrite forallb_app. apply andb_true_intro; split; apply forallb_forall; intros y Hy;
        apply in_flat_map in Hy; destruct Hy as [e [He Hy]].
      * pose proof (entries_bd ts W e B (or_introl He)) as X. rewrite forallb_forall in X. auto.
      * pose proof (entries_bd ts W e B (or_intror He)) as X. rewrite forallb_forall in X. auto.
    + destruct (negb (keys_disjoint required optional)) eqn:DJ; [discriminate S|].
      destruct (mapM (fun e => option_map (pair (fst e)) (shrink k fuel (snd e))) required) as [R|] eqn:MR; [|discriminate S].
      destruct (mapM (fun e => option_map (pair (fst e)) (shrink k fuel (snd e))) optional) as [O|] eqn:MO; [|discriminate S].
      injection S as <-.
      pose proof (mapM_pair_keys _ _ _ MR) as KR. pose proof (mapM_pair_keys _ _ _ MO) as KO.
      apply bd_TTypedDict. apply Nat.ltb_ge in LT.
      assert (LR : List.length R = List.length required).
      { rewrite <- (map_length fst R), KR, map_length. reflexivity. }
      assert (LO : List.length O = List.length optional).
      { rewrite <- (map_length fst O), KO, map_length. reflexivity. }
      split; [split; [|lia]|split].
      * (* at least one field: t0 has one *)
        cbn [forallb] in B. apply andb_prop in B. destruct B as [B0 _].
        cbn [forallb] in ATD. apply andb_prop in ATD. destruct ATD as [A0 _].
        destruct t0; try discriminate A0. apply bd_TTypedDict in B0. destruct B0 as [[L1 _] _].
        assert (Hf : exists f, In f req \/ In f opt).
        { destruct req as [|f r']; [|exists f; left; left; reflexivity].
          destruct opt as [|f o']; [cbn in L1; lia|exists f; right; left; reflexivity]. }
        destruct Hf as [[s ft] Hf].
        destruct (merge_complete' ts W (TTypedDict req opt) s ft (or_introl eq_refl) Hf) as [e [[He|He] _]].
        -- fold required in He. destruct required; [destruct He|cbn [List.length] in *; lia].
        -- fold optional in He. destruct optional; [destruct He|cbn [List.length] in *; lia].
      * apply forallb_forall. intros y Hy. destruct (mapM_pair_bwd _ _ _ _ MR Hy) as [e [He [_ ST]]].
        apply (IH _ _ (entries_wf' ts W e (or_introl He)) (entries_bd ts W e B (or_introl He)) ST).
      * apply forallb_forall. intros y Hy. destruct (mapM_pair_bwd _ _ _ _ MO Hy) as [e [He [_ ST]]].
        apply (IH _ _ (entries_wf' ts W e (or_intror He)) (entries_bd ts W e B (or_intror He)) ST).
  - destruct (forallb (fun t => py_eqb t t0) rest).
    + injection S as <-. cbn [forallb] in B. apply andb_prop in B. tauto.
    + destruct (forallb is_tlist (t0 :: rest)) eqn:AL.
      * destruct (shrink k fuel (filter (fun a => negb (is_tany a)) (map list_arg (t0 :: rest)))) as [T|] eqn:ST;
          [|cbn [option_map] in S; discriminate S]. cbn [option_map] in S.
        injection S as <-. cbn [td_boundedb]. apply (fun X Y => IH _ _ X Y ST).
        -- rewrite forallb_forall in AL. rewrite Forall_forall in *. intros y Hy.
           apply filter_In in Hy. destruct Hy as [Hy _].
           apply in_map_iff in Hy. destruct Hy as [z [<- Hz]].
           pose proof (W z Hz) as Wz. pose proof (AL z Hz) as Lz. destruct z; try discriminate Lz. exact Wz.
        -- rewrite forallb_forall in *. intros y Hy. apply filter_In in Hy. destruct Hy as [Hy _].
           apply in_map_iff in Hy. destruct Hy as [z [<- Hz]].
           pose proof (B z Hz) as Bz. pose proof (AL z Hz) as Lz. destruct z; try discriminate Lz. exact Bz.
      * injection S as <-. change (td2dict t0 :: map td2dict rest) with (map td2dict (t0 :: rest)).
        apply union_mk_bd. rewrite forallb_forall in *. intros y Hy.
        apply in_map_iff in Hy. destruct Hy as [z [<- Hz]]. apply td2dict_bd. apply B. exact Hz.
Qed.

Lemma shrink_top_bd ts T : Forall wf_ty ts -> forallb bd ts = true -> shrink_top k ts = Some T -> bd T = true.
Proof. unfold shrink_top. apply shrink_bd. Qed.

End Bounded.

Section GTBounded.
Variable k : nat.
Notation bd := (td_boundedb k).
Let subN := fun c a : cls => N.eqb c a.
Lemma subN_refl c : subN c c = true. Proof. apply N.eqb_refl. Qed.

Definition gt_bd (v : value) : Prop :=
  wf_valueb v = true -> forall t, get_type k v = Some t -> bd t = true.

Lemma mapM_gt_bd {A} (proj : A -> value) (l : list A) ts :
  Forall (fun a => gt_bd (proj a)) l ->
  forallb (fun a => wf_valueb (proj a)) l = true ->
  mapM (fun a => get_type k (proj a)) l = Some ts ->
  forallb bd ts = true /\ Forall wf_ty ts.
Proof.
  intros HF HW HM.
  assert (Wts : Forall wf_ty ts).
  { assert (HG : Forall (fun a => gt_ok subN k (proj a)) l)
      by (rewrite Forall_forall; intros x _; apply get_type_ok; apply subN_refl).
    destruct (mapM_gt_ok subN k proj l ts HG HW HM) as [X _]. exact X. }
  split; [|exact Wts]. apply mapM_Forall2 in HM. clear Wts.
  induction HM as [|a t l ts Ht _ IH]; [reflexivity|].
  inversion HF as [|? ? Ha HF']; subst. cbn [forallb] in HW |- *. apply andb_prop in HW. destruct HW as [W1 W2].
  rewrite (Ha W1 t Ht), (IH HF' W2). reflexivity.
Qed.

Lemma seq_case_bd es T0 (con : ty -> ty) :
  (forall T, bd (con T) = bd T) ->
  Forall gt_bd es -> forallb wf_valueb es = true ->
  opt_bind (mapM (get_type k) es) (fun ts => option_map con (shrink_top k ts)) = Some T0 -> bd T0 = true.
Proof.
  intros Hc HF HW H. apply opt_bind_Some in H. destruct H as [ts [HM H]].
  apply option_map_Some in H. destruct H as [T [HS ->]].
  destruct (mapM_gt_bd (fun e => e) es ts HF HW HM) as [B Wts].
  rewrite Hc. eapply shrink_top_bd; eauto.
Qed.

Lemma dict_case_bd kvs T0 (con : ty -> ty -> ty) :
  (forall a b, bd (con a b) = bd a && bd b) ->
  Forall (fun kv => gt_bd (fst kv) /\ gt_bd (snd kv)) kvs ->
  forallb (fun kv => wf_valueb (fst kv) && wf_valueb (snd kv)) kvs = true ->
  opt_bind (mapM (fun kv => get_type k (fst kv)) kvs) (fun ks =>
  opt_bind (mapM (fun kv => get_type k (snd kv)) kvs) (fun vs =>
  opt_bind (shrink_top k ks) (fun kt => option_map (con kt) (shrink_top k vs)))) = Some T0 ->
  bd T0 = true.
Proof.
  intros Hc HF HW H.
  apply opt_bind_Some in H. destruct H as [ks [HK H]].
  apply opt_bind_Some in H. destruct H as [vs [HV H]].
  apply opt_bind_Some in H. destruct H as [kt [HSK H]].
  apply option_map_Some in H. destruct H as [vt [HSV ->]].
  assert (HF1 : Forall (fun kv => gt_bd (fst kv)) kvs) by (rewrite Forall_forall in *; intros x Hx; apply HF; exact Hx).
  assert (HF2 : Forall (fun kv => gt_bd (snd kv)) kvs) by (rewrite Forall_forall in *; intros x Hx; apply HF; exact Hx).
  assert (HW1 : forallb (fun kv => wf_valueb (fst kv)) kvs = true).
  { rewrite forallb_forall in *. intros x Hx. specialize (HW x Hx). apply andb_prop in HW. tauto. }
  assert (HW2 : forallb (fun kv => wf_valueb (snd kv)) kvs = true).
  { rewrite forallb_forall in *. intros x Hx. specialize (HW x Hx). apply andb_prop in HW. tauto. }
  destruct (mapM_gt_bd fst kvs ks HF1 HW1 HK) as [Bk Wk].
  destruct (mapM_gt_bd snd kvs vs HF2 HW2 HV) as [Bv Wv].
  rewrite Hc, (shrink_top_bd k ks kt Wk Bk HSK), (shrink_top_bd k vs vt Wv Bv HSV). reflexivity.
Qed.

Lemma get_type_bd v : gt_bd v.
Proof.
  induction v as [c p|s|c| | |es IH|es IH|es IH|kvs IH|kvs IH] using value_ind'; intros WV t G;
    cbn [get_type] in G; try (injection G as <-; reflexivity).
  - cbn [wf_valueb] in WV. apply (seq_case_bd es t TList); auto.
  - cbn [wf_valueb] in WV. apply (seq_case_bd es t TSet); auto.
  - cbn [wf_valueb] in WV. apply option_map_Some in G. destruct G as [ts [HM ->]].
    destruct (mapM_gt_bd (fun e => e) es ts IH WV HM) as [B _]. exact B.
  - cbn [wf_valueb] in WV. apply andb_prop in WV. destruct WV as [ND WV].
    destruct kvs as [|kv0 kvs0]; [injection G as <-; reflexivity|].
    set (kvs := kv0 :: kvs0) in *.
    destruct (forallb is_strkey kvs && Nat.leb (List.length kvs) k) eqn:C.
    + apply andb_prop in C. destruct C as [_ LE]. apply Nat.leb_le in LE.
      apply option_map_Some in G. destruct G as [r [HM ->]].
      pose proof (mapM_Forall2 _ _ _ HM) as F2.
      assert (LR : List.length r = List.length kvs).
      { clear -F2. induction F2; cbn [List.length]; congruence. }
      apply bd_TTypedDict. split; [|split; [|reflexivity]].
      * rewrite LR. unfold kvs in *. cbn [List.length] in *. lia.
      * clear -F2 IH WV. revert IH WV. induction F2 as [|kv y l r Hy _ IH']; intros IH WV; [reflexivity|].
        inversion IH as [|? ? [_ Hv] IHl]; subst. cbn [forallb] in WV |- *. apply andb_prop in WV. destruct WV as [W1 W2].
        apply andb_prop in W1. destruct W1 as [_ W1].
        destruct (get_type k (snd kv)) as [tv|] eqn:E; [|discriminate Hy]. injection Hy as <-. cbn [snd].
        rewrite (Hv W1 tv E), (IH' IHl W2). reflexivity.
    + apply (dict_case_bd kvs t TDict); auto.
  - cbn [wf_valueb] in WV. apply (dict_case_bd kvs t TDefaultDict); auto.
Qed.

Theorem infer_bd vs t : forallb wf_valueb vs = true -> infer k vs = Some t -> bd t = true.
Proof.
  unfold infer. intros WV H. apply opt_bind_Some in H. destruct H as [ts [HM HS]].
  assert (HF : Forall gt_bd vs) by (rewrite Forall_forall; intros x _; apply get_type_bd).
  destruct (mapM_gt_bd (fun e => e) vs ts HF WV HM) as [B W]. eapply shrink_top_bd; eauto.
Qed.

(* merging already-bounded, well-formed types (e.g. decoded from the store) stays bounded *)
Theorem merge_bd ts t : Forall wf_ty ts -> forallb bd ts = true -> shrink_top k ts = Some t -> bd t = true.
Proof. apply shrink_top_bd. Qed.

(* only non-empty all-string-key dicts of at most k items become TypedDicts, with required keys only *)
Theorem td_only_from_str_dicts v r o :
  get_type k v = Some (TTypedDict r o) ->
  exists kvs, v = VDict kvs /\ kvs <> [] /\ forallb is_strkey kvs = true
              /\ List.length kvs <= k /\ o = [] /\ map fst r = map strkey kvs.
Proof.
  destruct v; cbn [get_type]; intros G; try discriminate G.
  - apply opt_bind_Some in G. destruct G as [ts [_ G]]. apply option_map_Some in G. destruct G as [T [_ G]]. discriminate G.
  - apply opt_bind_Some in G. destruct G as [ts [_ G]]. apply option_map_Some in G. destruct G as [T [_ G]]. discriminate G.
  - apply option_map_Some in G. destruct G as [ts [_ G]]. discriminate G.
  - destruct kvs as [|kv0 kvs0]; [discriminate G|]. set (kvs := kv0 :: kvs0) in *.
    destruct (forallb is_strkey kvs && Nat.leb (List.length kvs) k) eqn:C.
    + apply andb_prop in C. destruct C as [SK LE]. apply Nat.leb_le in LE.
      apply option_map_Some in G. destruct G as [r' [HM G]]. injection G as -> ->.
      exists kvs. repeat split; auto; [discriminate|].
      pose proof (mapM_Forall2 _ _ _ HM) as F2. clear -F2.
      induction F2 as [|kv y l r Hy _ IH']; [reflexivity|]. cbn [map]. rewrite IH'. f_equal.
      destruct (get_type k (snd kv)); [|discriminate Hy]. injection Hy as <-. reflexivity.
    + apply opt_bind_Some in G. destruct G as [ks [_ G]]. apply opt_bind_Some in G. destruct G as [vs [_ G]].
      apply opt_bind_Some in G. destruct G as [kt [_ G]]. apply option_map_Some in G. destruct G as [vt [_ G]]. discriminate G.
  - apply opt_bind_Some in G. destruct G as [ks [_ G]]. apply opt_bind_Some in G. destruct G as [vs [_ G]].
    apply opt_bind_Some in G. destruct G as [kt [_ G]]. apply option_map_Some in G. destruct G as [vt [_ G]]. discriminate G.
Qed.

End GTBounded.

Theorem k0_no_typeddict vs t : forallb wf_valueb vs = true -> infer 0 vs = Some t -> has_td t = false.
Proof. intros W H. apply bd_k0_no_td. eapply infer_bd; eauto. Qed.
