(* Model/Rewrite.v — TypeRewriter's generic traversal and the shipped rewriters
   (monkeytype/typing.py:253-576).  Executable definitions only. *)
From MT Require Export Types.
From MT Require Import Constants.

(* which constructor ("origin") a generic has: used by RemoveEmptyContainers' same-kind test *)
Definition kind_of (t : ty) : nat :=
  match t with
  | TAny => 0 | TCls _ => 1 | TType _ => 2 | TCallable => 3 | TList _ => 4 | TSet _ => 5
  | TIterator _ => 6 | TDict _ _ => 7 | TDefaultDict _ _ => 8 | TTuple _ => 9 | TTupleVar _ => 9
  | TGenerator _ _ _ => 10 | TUnion _ => 11 | TTypedDict _ _ => 12 | TFwd _ => 13
  end.

(* RemoveEmptyContainers._is_empty: has arguments and all of them are Any *)
Definition is_empty (t : ty) : bool :=
  match t with
  | TType x | TList x | TSet x | TIterator x => is_tany x
  | TDict k v | TDefaultDict k v => is_tany k && is_tany v
  | TTuple ts => negb (Nat.eqb (List.length ts) 0) && forallb is_tany ts
  | TGenerator a b c => is_tany a && is_tany b && is_tany c
  | TUnion ts => negb (Nat.eqb (List.length ts) 0) && forallb is_tany ts
  | TTupleVar _ (* (x, Ellipsis): Ellipsis is not Any *)
  | TAny | TCls _ | TCallable | TTypedDict _ _ | TFwd _ => false
  end.

Definition has_nonempty_sibling (t : ty) (members : list ty) : bool :=
  existsb (fun e => Nat.eqb (kind_of e) (kind_of t) && negb (is_empty e)) members.

(* `a is b` on type objects: classes by identity; TypedDict-free aliases through typing's
   parametrisation cache (assumption, DESIGN 5); TypedDict-bearing objects are never identical *)
Definition isb (a b : ty) : bool := negb (has_td a) && py_eqb a b.

(* ---- class tables ---- *)
Definition bases_table := list (cls * list cls).
Fixpoint bases_of (b : bases_table) (c : cls) : list cls :=
  match b with
  | [] => []
  | (c', l) :: r => if N.eqb c c' then l else bases_of r c
  end.

Section Rewriters.
Variable h : hierarchy.       (* cls -> __mro__ *)
Variable bt : bases_table.    (* cls -> __bases__ *)

Inductive rewriter :=
| RNoOp
| RRemoveEmpty
| RConfigDict
| RLargeUnion (n : nat)
| RGenerator
| RCommonBase.

(* --- the per-rewriter Union hooks; `self` is the recursive rewrite of the same rewriter --- *)
Definition rec_union (self : ty -> ty) (ts : list ty) : ty :=
  let kept := filter (fun e => negb (is_empty e && has_nonempty_sibling e ts)) ts in
  match kept with
  | [] => TUnion ts
  | _ => union_mk (map self kept)
  end.

Definition dict_key (t : ty) : ty := match t with TDict k _ => k | _ => TAny end.
Definition dict_val (t : ty) : ty := match t with TDict _ v => v | _ => TAny end.

Definition rcd_union (ts : list ty) : ty :=
  match ts with
  | [] => TUnion ts
  | t0 :: rest =>
      if forallb is_tdict ts && forallb (fun e => py_eqb (dict_key t0) (dict_key e)) rest
      then TDict (dict_key t0) (union_mk (map dict_val ts))
      else TUnion ts
  end.

(* _rewrite_to_tuple (after the Tuple[()] repair): None = "not a union of homogeneous tuples" *)
Fixpoint to_tuple_scan (vt : option ty) (ts : list ty) : option (option ty) :=
  match ts with
  | [] => Some vt
  | TTuple [] :: r => to_tuple_scan vt r
  | TTuple (a :: es) :: r =>
      let v := match vt with Some v => v | None => a end in
      if forallb (fun e => isb e v) (a :: es) then to_tuple_scan (Some v) r else None
  | _ => None       (* not a Tuple; or Tuple[x, ...] whose Ellipsis argument `is not` the value type *)
  end.

Definition rlu_to_tuple (ts : list ty) : option ty :=
  match to_tuple_scan None ts with
  | Some (Some v) => Some (TTupleVar v)
  | _ => None
  end.

Definition cls_of (t : ty) : cls := match t with TCls c => c | _ => cObject end.

Definition rlu_union (n : nat) (ts : list ty) : ty :=
  if Nat.leb (List.length ts) n then TUnion ts else
  match rlu_to_tuple ts with
  | Some t => t
  | None =>
      match ts with
      | TCls c0 :: _ =>
          if forallb is_tcls ts then
            match find (fun a => negb (N.eqb a cObject) && forallb (fun t => subclass h (cls_of t) a) ts)
                       (match mro_of h c0 with Some m => m | None => [c0; cObject] end) with
            | Some a => TCls a
            | None => TAny
            end
          else TAny     (* issubclass() on a non-class raises TypeError -> Any *)
      | _ => TAny       (* inspect.getmro on a non-class raises AttributeError -> Any *)
      end
  end.

(* RewriteMostSpecificCommonBase (after the non-class repair).  A TypedDict class is a `type`
   whose single base is dict. *)
Fixpoint compute_bases (fuel : nat) (c : cls) (acc : list cls) : list cls :=
  (* acc: specific-to-general so far; result general-to-specific *)
  match fuel with
  | O => acc
  | S f =>
      if N.eqb c cObject then acc
      else match bases_of bt c with
           | [b] => compute_bases f b (c :: acc)
           | _ => c :: acc
           end
  end.

Inductive kls := KCls (c : cls) | KTd (i : nat).   (* the i-th union member is a TypedDict class *)
Definition kls_eqb (a b : kls) : bool :=
  match a, b with
  | KCls c, KCls d => N.eqb c d
  | KTd i, KTd j => Nat.eqb i j
  | _, _ => false
  end.

Definition chain_of (fuel : nat) (i : nat) (t : ty) : list kls :=
  match t with
  | TCls c => map KCls (compute_bases fuel c [])
  | _ (* TTypedDict *) => map KCls (compute_bases fuel cDict []) ++ [KTd i]
  end.

Fixpoint common_prefix (a b : list kls) : list kls :=
  match a, b with
  | x :: a', y :: b' => if kls_eqb x y then x :: common_prefix a' b' else []
  | _, _ => []
  end.

Fixpoint chains (fuel : nat) (i : nat) (ts : list ty) : list (list kls) :=
  match ts with [] => [] | t :: r => chain_of fuel i t :: chains fuel (S i) r end.

Definition msb_union (ts : list ty) : ty :=
  if forallb (fun t => is_tcls t || is_td t) ts then
    let fuel := S (List.length bt) in
    match chains fuel 0 ts with
    | [] => TUnion ts
    | c0 :: cs =>
        match last (fold_left common_prefix cs c0) (KTd 0) with
        | KCls c => if Nat.eqb (List.length (fold_left common_prefix cs c0)) 0 then TUnion ts else TCls c
        | KTd _ => TUnion ts      (* common prefix empty (default) or a single TypedDict member *)
        end
    end
  else TUnion ts.

(* --- the generic traversal, specialised per rewriter --- *)
Fixpoint rw (r : rewriter) (t : ty) {struct t} : ty :=
  match r with
  | RNoOp => t
  | _ =>
    match t with
    | TAny | TCls _ | TCallable | TFwd _ => t
    | TType _ | TIterator _ | TDefaultDict _ _ => t          (* no rewrite_<name> method: generic_rewrite *)
    | TList x => TList (rw r x)
    | TSet x => TSet (rw r x)
    | TDict k v => TDict (rw r k) (rw r v)
    | TTuple ts => TTuple (map (rw r) ts)
    | TTupleVar x => TTupleVar (rw r x)
    | TGenerator a b c =>
        match r with
        | RGenerator =>
            match b, c with
            | TCls 1%N, TCls 1%N => TIterator a
            | _, _ => t
            end
        | _ => TGenerator (rw r a) (rw r b) (rw r c)
        end
    | TTypedDict rq op =>
        TTypedDict (map (fun f => (fst f, rw r (snd f))) rq) (map (fun f => (fst f, rw r (snd f))) op)
    | TUnion ts =>
        match r with
        | RRemoveEmpty =>
            (* rec_union with self := rw r, written with flat_map so that the recursive call is
               visibly on members of ts (Proofs/RewriteFacts.v: rw_remove_empty_union) *)
            let keep := fun e => negb (is_empty e && has_nonempty_sibling e ts) in
            match filter keep ts with
            | [] => TUnion ts
            | _ => union_mk (flat_map (fun e => if keep e then [rw r e] else []) ts)
            end
        | RConfigDict => rcd_union ts
        | RLargeUnion n => rlu_union n ts
        | RCommonBase => msb_union ts
        | RGenerator | RNoOp => union_mk (map (rw r) ts)
        end
    end
  end.

Definition rw_chain (rs : list rewriter) (t : ty) : ty := fold_left (fun t r => rw r t) rs t.

End Rewriters.

(* DEFAULT_REWRITER, read from the source-derived constants *)
Definition rewriter_of_spec (s : string * list nat) : option rewriter :=
  let '(name, args) := s in
  if String.eqb name "RemoveEmptyContainers" then Some RRemoveEmpty
  else if String.eqb name "RewriteConfigDict" then Some RConfigDict
  else if String.eqb name "RewriteLargeUnion" then
         Some (RLargeUnion (match args with [n] => n | _ => large_union_default_max end))
  else if String.eqb name "RewriteGenerator" then Some RGenerator
  else if String.eqb name "RewriteMostSpecificCommonBase" then Some RCommonBase
  else if String.eqb name "NoOpRewriter" then Some RNoOp
  else None.

Fixpoint all_some {A} (l : list (option A)) : option (list A) :=
  match l with
  | [] => Some []
  | Some x :: r => option_map (cons x) (all_some r)
  | None :: _ => None
  end.

Definition default_chain : option (list rewriter) := all_some (map rewriter_of_spec default_rewriter_spec).
