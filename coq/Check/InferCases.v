(* Check/InferCases.v — verdicts for the inference correspondence (C04; C05 and C06 add theirs).
   verdict: 0 ok, 1 correspondence mismatch (model vs implementation),
            2 property predicate false on the implementation's own output. *)
From MT Require Export Infer Common.

Record icase := ICase { ik : nat; ivs : list value; iimpl : ty }.

Definition model_of (c : icase) : option ty := infer (ik c) (ivs c).

(* 3 = the case violates the theorem's premise (harness bug, never the code's fault) *)
Definition verdict_c04 (h : hierarchy) (c : icase) : nat :=
  if negb (forallb wf_valueb (ivs c)) then 3 else
  if negb (forallb (fun v => member false (subclass h) v (iimpl c)) (ivs c)) then 2
  else match model_of c with
       | Some t => if corrb t (iimpl c) then 0 else 1
       | None => 1
       end.
