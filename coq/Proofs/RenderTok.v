(* Proofs/RenderTok.v — token-level resolution of rendered annotations (C11).
   rast t is the expression an annotation text is meant to be; evt t is what Python's evaluation of that
   expression yields (typing's constructors re-normalise unions; Optional[...] puts None last).
   Main result: for every type, in every namespace that binds the names of the rendering,
   ev ns (rast t) = Some (evt t). *)
From MT Require Import Types Render TypesFacts.
From Coq Require Import Lia.

Open Scope string_scope.
Open Scope nat_scope.
Open Scope list_scope.

Definition not_none (t : ty) : bool := negb (is_none_ty t).

(* ---- what evaluation yields ---- *)
Fixpoint evt_r (t : ty) : ty :=
  match t with
  | TType x => TType (evt_r x)
  | TList x => TList (evt_r x)
  | TSet x => TSet (evt_r x)
  | TIterator x => TIterator (evt_r x)
  | TTupleVar x => TTupleVar (evt_r x)
  | TDict k v => TDict (evt_r k) (evt_r v)
  | TDefaultDict k v => TDefaultDict (evt_r k) (evt_r v)
  | TTuple ts => TTuple (map evt_r ts)
  | TGenerator a b c => TGenerator (evt_r a) (evt_r b) (evt_r c)
  | TUnion ts =>
      match ts with
      | [a; b] => if is_none_ty a then union_mk [evt_r b; tnone]
                  else if is_none_ty b then union_mk [evt_r a; tnone]
                  else union_mk (map evt_r ts)
      | _ => union_mk (map evt_r ts)
      end
  | _ => t
  end.

Fixpoint evt (t : ty) : ty :=
  match t with
  | TType _ | TIterator _ | TDefaultDict _ _ => evt_r t
  | TList x => TList (evt x)
  | TSet x => TSet (evt x)
  | TTupleVar x => TTupleVar (evt x)
  | TDict k v => TDict (evt k) (evt v)
  | TTuple ts => TTuple (map evt ts)
  | TGenerator a b c => TGenerator (evt a) (evt b) (evt c)
  | TUnion ts =>
      if existsb is_none_ty ts then
        let others := map snd (filter (fun p => negb (fst p)) (map (fun x => (is_none_ty x, evt x)) ts)) in
        union_mk [match others with [x] => x | _ => union_mk others end; tnone]
      else union_mk (map evt ts)
  | _ => t
  end.

(* ---- which types the statement is about ---- *)
(* repr route: no TypedDict, no forward reference; unions are non-empty *)
Fixpoint ok_r (t : ty) : bool :=
  match t with
  | TAny | TCls _ | TCallable => true
  | TFwd _ | TTypedDict _ _ => false
  | TType x | TList x | TSet x | TIterator x | TTupleVar x => ok_r x
  | TDict k v | TDefaultDict k v => ok_r k && ok_r v
  | TTuple ts => forallb ok_r ts
  | TGenerator a b c => ok_r a && ok_r b && ok_r c
  | TUnion ts => negb (Nat.eqb (List.length ts) 0) && forallb ok_r ts
  end.

(* structural route: no TypedDict (they have been replaced by forward references); an Optional union has
   a member besides None *)
Fixpoint ok (t : ty) : bool :=
  match t with
  | TAny | TCls _ | TCallable | TFwd _ => true
  | TTypedDict _ _ => false
  | TType _ | TIterator _ | TDefaultDict _ _ => ok_r t
  | TList x | TSet x | TTupleVar x => ok x
  | TDict k v => ok k && ok v
  | TTuple ts => forallb ok ts
  | TGenerator a b c => ok a && ok b && ok c
  | TUnion ts => existsb not_none ts && forallb ok ts
  end.

Fixpoint tcls (t : ty) : list cls :=
  match t with
  | TCls c => [c]
  | TAny | TCallable | TFwd _ => []
  | TType x | TList x | TSet x | TIterator x | TTupleVar x => tcls x
  | TDict k v | TDefaultDict k v => tcls k ++ tcls v
  | TTuple ts | TUnion ts => flat_map tcls ts
  | TGenerator a b c => tcls a ++ tcls b ++ tcls c
  | TTypedDict r o => flat_map (fun f => tcls (snd f)) r ++ flat_map (fun f => tcls (snd f)) o
  end.

Section Tok.
Variable ct : ctable.
Variable ns : namespace.

(* the namespace binds None, Ellipsis and the typing names to themselves (no user name shadows them) ... *)
Definition binds_base : Prop :=
  lookup_s "None" ns = Some NsNone /\ lookup_s "Ellipsis" ns = Some NsEllipsis
  /\ forall k, In k typing_names -> lookup_s k ns = Some (NsTyp k).
(* ... and the dotted path of every class of t, relative to its root, to that class *)
Definition binds_cls (t : ty) : Prop :=
  forall c, In c (tcls t) -> c <> cNone -> resolve_path ct ns (split_dot (cqual ct c)) = Some (NsCls c).

Hypothesis Hbase : binds_base.

Lemma typ_path k : In k typing_names -> resolve_path ct ns [k] = Some (NsTyp k).
Proof. intros H. destruct Hbase as (_ & _ & Ht). cbn. rewrite (Ht k H). reflexivity. Qed.

Ltac typ_in := cbn; tauto.

Lemma ev_cls c : (c <> cNone -> resolve_path ct ns (split_dot (cqual ct c)) = Some (NsCls c)) ->
  ev ct ns (cls_ast ct c) = Some (TCls c).
Proof.
  intros H. unfold cls_ast. destruct (N.eqb c cNone) eqn:E.
  - apply N.eqb_eq in E. subst. destruct Hbase as (Hn & _). cbn. rewrite Hn. reflexivity.
  - apply N.eqb_neq in E. cbn [ev]. rewrite (H E). reflexivity.
Qed.

Lemma all_some_map {A B} (f : A -> option B) (g : A -> B) l :
  Forall (fun x => f x = Some (g x)) l -> all_some (map f l) = Some (map g l).
Proof. induction 1; cbn; [reflexivity|]. rewrite H, IHForall. reflexivity. Qed.

(* the top of a rendering is never `()` and never denotes Ellipsis *)
Definition plain_arg (e : aexpr) : Prop := e <> AEmpty /\ is_ellipsis_arg ct ns e = false.

Lemma cls_ast_plain c : (c <> cNone -> resolve_path ct ns (split_dot (cqual ct c)) = Some (NsCls c)) ->
  plain_arg (cls_ast ct c).
Proof.
  intros H. unfold cls_ast, plain_arg. destruct (N.eqb c cNone) eqn:E.
  - split; [discriminate|]. destruct Hbase as (Hn & _). cbn. rewrite Hn. reflexivity.
  - apply N.eqb_neq in E. split; [discriminate|]. cbn. rewrite (H E). reflexivity.
Qed.

Lemma name_plain k : In k typing_names -> plain_arg (AName [k]).
Proof.
  intros H. split; [discriminate|]. cbn [is_ellipsis_arg]. rewrite (typ_path k H). reflexivity.
Qed.

Lemma sub_plain p args : plain_arg (ASub p args).
Proof. split; [discriminate | reflexivity]. Qed.

Lemma rast_r_plain t : binds_cls t -> ok_r t = true -> plain_arg (rast_r ct t).
Proof.
  intros Hc Hok. destruct t; cbn [rast_r]; try apply sub_plain; try discriminate.
  - apply name_plain; typ_in.
  - apply cls_ast_plain. intros Hn. apply Hc; [cbn; tauto | exact Hn].
  - apply name_plain; typ_in.
  - destruct ts; apply sub_plain.
  - destruct ts as [|a [|b [|c r]]]; try apply sub_plain.
    destruct (is_none_ty a); [apply sub_plain|]. destruct (is_none_ty b); apply sub_plain.
Qed.

Lemma rast_plain t : binds_cls t -> ok t = true -> plain_arg (rast ct t).
Proof.
  intros Hc Hok. destruct t; try (apply rast_r_plain; assumption); cbn [rast]; try apply sub_plain; try discriminate.
  - apply name_plain; typ_in.
  - apply cls_ast_plain. intros Hn. apply Hc; [cbn; tauto | exact Hn].
  - apply name_plain; typ_in.
  - destruct ts; apply sub_plain.
  - destruct (existsb is_none_ty ts); apply sub_plain.
  - split; [discriminate | reflexivity].
Qed.

(* evaluation of Tuple[...] on plain arguments *)
Lemma ev_tuple args : args <> [] -> Forall plain_arg args ->
  ev ct ns (ASub ["Tuple"] args) = option_map TTuple (all_some (map (ev ct ns) args)).
Proof.
  intros Hne Hp. cbn [ev]. rewrite (typ_path "Tuple") by typ_in.
  cbn [String.eqb Ascii.eqb Bool.eqb andb].
  destruct args as [|a [|b [|c r]]]; [congruence| | |destruct a; reflexivity].
  - inversion Hp as [|? ? [Ha _] _]; subst. destruct a; try reflexivity. congruence.
  - inversion Hp as [|? ? _ Hp']; subst. inversion Hp' as [|? ? [_ Hb] _]; subst.
    destruct a; rewrite Hb; reflexivity.
Qed.

Lemma ev_sub1 k x v : In k ["List"; "Set"; "Iterator"; "Type"] ->
  ev ct ns x = Some v ->
  ev ct ns (ASub [k] [x]) =
  Some (if String.eqb k "List" then TList v else if String.eqb k "Set" then TSet v
        else if String.eqb k "Iterator" then TIterator v else TType v).
Proof.
  intros Hk Hx. cbn [ev]. rewrite (typ_path k) by (cbn in Hk |- *; intuition).
  cbn [map all_some]. rewrite Hx.
  cbn in Hk. destruct Hk as [<-|[<-|[<-|[<-|[]]]]]; reflexivity.
Qed.

Lemma ev_sub2 k x y vx vy : In k ["Dict"; "DefaultDict"] ->
  ev ct ns x = Some vx -> ev ct ns y = Some vy ->
  ev ct ns (ASub [k] [x; y]) = Some (if String.eqb k "Dict" then TDict vx vy else TDefaultDict vx vy).
Proof.
  intros Hk Hx Hy. cbn [ev]. rewrite (typ_path k) by (cbn in Hk |- *; intuition).
  cbn [map all_some]. rewrite Hx, Hy.
  cbn in Hk. destruct Hk as [<-|[<-|[]]]; reflexivity.
Qed.

Lemma ev_gen x y z vx vy vz :
  ev ct ns x = Some vx -> ev ct ns y = Some vy -> ev ct ns z = Some vz ->
  ev ct ns (ASub ["Generator"] [x; y; z]) = Some (TGenerator vx vy vz).
Proof.
  intros Hx Hy Hz. cbn [ev]. rewrite (typ_path "Generator") by typ_in.
  cbn [map all_some]. rewrite Hx, Hy, Hz. reflexivity.
Qed.

Lemma ev_union args vs : vs <> [] -> all_some (map (ev ct ns) args) = Some vs ->
  ev ct ns (ASub ["Union"] args) = Some (union_mk vs).
Proof.
  intros Hne H. cbn [ev]. rewrite (typ_path "Union") by typ_in.
  cbn [String.eqb Ascii.eqb Bool.eqb andb]. rewrite H. destruct vs; [congruence | reflexivity].
Qed.

Lemma ev_optional x v : ev ct ns x = Some v ->
  ev ct ns (ASub ["Optional"] [x]) = Some (union_mk [v; tnone]).
Proof.
  intros H. cbn [ev]. rewrite (typ_path "Optional") by typ_in.
  cbn [map all_some]. rewrite H. reflexivity.
Qed.

Lemma binds_cls_sub (t : ty) (l : list cls) :
  (forall c, In c l -> In c (tcls t)) -> binds_cls t ->
  forall c, In c l -> c <> cNone -> resolve_path ct ns (split_dot (cqual ct c)) = Some (NsCls c).
Proof. intros Hs Hb c Hc. apply Hb. apply Hs. exact Hc. Qed.

Definition binds_cls_l (l : list cls) : Prop :=
  forall c, In c l -> c <> cNone -> resolve_path ct ns (split_dot (cqual ct c)) = Some (NsCls c).

Lemma bl_app_l a b : binds_cls_l (a ++ b) -> binds_cls_l a.
Proof. intros H c Hc. apply H. apply in_or_app. now left. Qed.
Lemma bl_app_r a b : binds_cls_l (a ++ b) -> binds_cls_l b.
Proof. intros H c Hc. apply H. apply in_or_app. now right. Qed.
Lemma bl_flat (f : ty -> list cls) ts : binds_cls_l (flat_map f ts) -> Forall (fun x => binds_cls_l (f x)) ts.
Proof.
  induction ts; intros H; constructor.
  - cbn in H. eapply bl_app_l; exact H.
  - apply IHts. cbn in H. eapply bl_app_r; exact H.
Qed.

(* ---- repr route ---- *)
Lemma resolves_r : forall t, binds_cls_l (tcls t) -> ok_r t = true -> ev ct ns (rast_r ct t) = Some (evt_r t).
Proof.
  induction t using ty_ind'; intros Hb Hok; cbn [rast_r evt_r]; cbn [ok_r tcls] in *; try discriminate.
  - cbn. destruct Hbase as (_ & _ & Ht). rewrite (Ht "Any") by typ_in. reflexivity.
  - apply ev_cls. intros Hn. apply Hb; [cbn; tauto | exact Hn].
  - rewrite (ev_sub1 "Type" _ (evt_r t)); [reflexivity | typ_in | auto].
  - cbn. destruct Hbase as (_ & _ & Ht). rewrite (Ht "Callable") by typ_in. reflexivity.
  - rewrite (ev_sub1 "List" _ (evt_r t)); [reflexivity | typ_in | auto].
  - rewrite (ev_sub1 "Set" _ (evt_r t)); [reflexivity | typ_in | auto].
  - rewrite (ev_sub1 "Iterator" _ (evt_r t)); [reflexivity | typ_in | auto].
  - apply andb_prop in Hok as [H1 H2].
    rewrite (ev_sub2 "Dict" _ _ (evt_r t1) (evt_r t2)); [reflexivity | typ_in | |].
    + apply IHt1; [eapply bl_app_l; exact Hb | exact H1].
    + apply IHt2; [eapply bl_app_r; exact Hb | exact H2].
  - apply andb_prop in Hok as [H1 H2].
    rewrite (ev_sub2 "DefaultDict" _ _ (evt_r t1) (evt_r t2)); [reflexivity | typ_in | |].
    + apply IHt1; [eapply bl_app_l; exact Hb | exact H1].
    + apply IHt2; [eapply bl_app_r; exact Hb | exact H2].
  - (* Tuple *)
    assert (HF : Forall (fun x => ev ct ns (rast_r ct x) = Some (evt_r x)) ts).
    { apply bl_flat in Hb. rewrite forallb_forall in Hok. rewrite Forall_forall in *.
      intros x Hx. apply H; [exact Hx | apply Hb; exact Hx | apply Hok; exact Hx]. }
    destruct ts as [|a r].
    + cbn [ev]. rewrite (typ_path "Tuple") by typ_in. reflexivity.
    + rewrite ev_tuple.
      * rewrite map_map. rewrite (all_some_map _ evt_r) by exact HF. reflexivity.
      * discriminate.
      * apply bl_flat in Hb. rewrite forallb_forall in Hok. rewrite Forall_forall in *.
        intros e He. apply in_map_iff in He as (x & <- & Hx). apply rast_r_plain.
        -- intros c Hc. apply (Hb x Hx c Hc).
        -- apply Hok; exact Hx.
  - (* Tuple[x, ...] *)
    cbn [ev]. rewrite (typ_path "Tuple") by typ_in. cbn [String.eqb Ascii.eqb Bool.eqb andb is_ellipsis_arg].
    rewrite (IHt Hb Hok). destruct (rast_r ct t); reflexivity.
  - apply andb_prop in Hok as [H12 H3]. apply andb_prop in H12 as [H1 H2].
    apply ev_gen.
    + apply IHt1; [eapply bl_app_l; exact Hb | exact H1].
    + apply IHt2; [eapply bl_app_l; eapply bl_app_r; exact Hb | exact H2].
    + apply IHt3; [eapply bl_app_r; eapply bl_app_r; exact Hb | exact H3].
  - (* Union *)
    apply andb_prop in Hok as [Hlen Hok].
    assert (HF : Forall (fun x => ev ct ns (rast_r ct x) = Some (evt_r x)) ts).
    { apply bl_flat in Hb. rewrite forallb_forall in Hok. rewrite Forall_forall in *.
      intros x Hx. apply H; [exact Hx | apply Hb; exact Hx | apply Hok; exact Hx]. }
    assert (Hgen : ev ct ns (ASub ["Union"] (map (rast_r ct) ts)) = Some (union_mk (map evt_r ts))).
    { apply ev_union.
      - destruct ts; [discriminate Hlen | discriminate].
      - rewrite map_map. apply all_some_map. exact HF. }
    destruct ts as [|a [|b [|c r]]]; try exact Hgen.
    inversion HF as [|? ? Ha HF']; subst. inversion HF' as [|? ? Hb' _]; subst.
    destruct (is_none_ty a); [apply ev_optional; exact Hb'|].
    destruct (is_none_ty b); [apply ev_optional; exact Ha|]. exact Hgen.
Qed.

Lemma filter_flag {A} (f : ty -> A) ts :
  map snd (filter (fun p : bool * A => negb (fst p)) (map (fun x => (is_none_ty x, f x)) ts))
  = map f (filter not_none ts).
Proof.
  induction ts as [|a r IH]; cbn; [reflexivity|]. unfold not_none at 1.
  destruct (is_none_ty a); cbn; rewrite IH; reflexivity.
Qed.

(* ---- structural route: the token-level theorem ---- *)
Lemma resolves : forall t, binds_cls_l (tcls t) -> ok t = true -> ev ct ns (rast ct t) = Some (evt t).
Proof.
  induction t using ty_ind'; intros Hb Hok;
    try (apply resolves_r; assumption); cbn [rast evt]; cbn [ok tcls] in *; try discriminate.
  - cbn. destruct Hbase as (_ & _ & Ht). rewrite (Ht "Any") by typ_in. reflexivity.
  - apply ev_cls. intros Hn. apply Hb; [cbn; tauto | exact Hn].
  - cbn. destruct Hbase as (_ & _ & Ht). rewrite (Ht "Callable") by typ_in. reflexivity.
  - rewrite (ev_sub1 "List" _ (evt t)); [reflexivity | typ_in | auto].
  - rewrite (ev_sub1 "Set" _ (evt t)); [reflexivity | typ_in | auto].
  - apply andb_prop in Hok as [H1 H2].
    rewrite (ev_sub2 "Dict" _ _ (evt t1) (evt t2)); [reflexivity | typ_in | |].
    + apply IHt1; [eapply bl_app_l; exact Hb | exact H1].
    + apply IHt2; [eapply bl_app_r; exact Hb | exact H2].
  - (* Tuple *)
    assert (HF : Forall (fun x => ev ct ns (rast ct x) = Some (evt x)) ts).
    { apply bl_flat in Hb. rewrite forallb_forall in Hok. rewrite Forall_forall in *.
      intros x Hx. apply H; [exact Hx | apply Hb; exact Hx | apply Hok; exact Hx]. }
    destruct ts as [|a r].
    + cbn [ev]. rewrite (typ_path "Tuple") by typ_in. reflexivity.
    + rewrite ev_tuple.
      * rewrite map_map. rewrite (all_some_map _ evt) by exact HF. reflexivity.
      * discriminate.
      * apply bl_flat in Hb. rewrite forallb_forall in Hok. rewrite Forall_forall in *.
        intros e He. apply in_map_iff in He as (x & <- & Hx). apply rast_plain.
        -- intros c Hc. apply (Hb x Hx c Hc).
        -- apply Hok; exact Hx.
  - (* Tuple[x, Ellipsis] *)
    cbn [ev]. rewrite (typ_path "Tuple") by typ_in. cbn [String.eqb Ascii.eqb Bool.eqb andb is_ellipsis_arg].
    destruct Hbase as (_ & He & _). cbn [resolve_path]. rewrite He. cbn [resolve_attrs].
    rewrite (IHt Hb Hok). destruct (rast ct t); reflexivity.
  - apply andb_prop in Hok as [H12 H3]. apply andb_prop in H12 as [H1 H2].
    apply ev_gen.
    + apply IHt1; [eapply bl_app_l; exact Hb | exact H1].
    + apply IHt2; [eapply bl_app_l; eapply bl_app_r; exact Hb | exact H2].
    + apply IHt3; [eapply bl_app_r; eapply bl_app_r; exact Hb | exact H3].
  - (* Union *)
    apply andb_prop in Hok as [Hex Hok].
    assert (HF : Forall (fun x => ev ct ns (rast ct x) = Some (evt x)) ts).
    { apply bl_flat in Hb. rewrite forallb_forall in Hok. rewrite Forall_forall in *.
      intros x Hx. apply H; [exact Hx | apply Hb; exact Hx | apply Hok; exact Hx]. }
    assert (Hne : ts <> []) by (destruct ts; [discriminate Hex | discriminate]).
    destruct (existsb is_none_ty ts).
    + rewrite !filter_flag.
      assert (HF' : Forall (fun x => ev ct ns (rast ct x) = Some (evt x)) (filter not_none ts)).
      { rewrite Forall_forall in *. intros x Hx. apply filter_In in Hx as [Hx _]. apply HF; exact Hx. }
      assert (Hne' : filter not_none ts <> []).
      { apply existsb_exists in Hex as (x & Hx & Hnn). intros E.
        assert (Hin : In x (filter not_none ts)) by (apply filter_In; split; assumption).
        rewrite E in Hin. exact Hin. }
      apply ev_optional.
      destruct (filter not_none ts) as [|a [|b r]] eqn:E; [congruence | |].
      * cbn. inversion HF'; subst. assumption.
      * cbn [map] in *. apply ev_union; [discriminate|].
        change (rast ct a :: rast ct b :: map (rast ct) r) with (map (rast ct) (a :: b :: r)).
        rewrite map_map. change (evt a :: evt b :: map evt r) with (map evt (a :: b :: r)).
        apply all_some_map. exact HF'.
    + apply ev_union.
      * destruct ts; [congruence | discriminate].
      * rewrite map_map. apply all_some_map. exact HF.
  - reflexivity.
Qed.

End Tok.

(* text level, given that the stripped text parses back to the token-level rendering *)
Lemma resolves_text ct ns mods t :
  binds_base ns -> binds_cls_l ct ns (tcls t) -> ok t = true ->
  parse_anno (strip_mods mods (ra ct t)) = Some (rast ct t) ->
  eval_text ct ns (strip_mods mods (ra ct t)) = Some (evt t).
Proof.
  intros Hb Hc Hok Hp. unfold eval_text. rewrite Hp. exact (resolves ct ns Hb t Hc Hok).
Qed.

(* ---- evaluation returns the type itself when it has no union ---- *)
Fixpoint union_free (t : ty) : bool :=
  match t with
  | TAny | TCls _ | TCallable | TFwd _ => true
  | TUnion _ => false
  | TType x | TList x | TSet x | TIterator x | TTupleVar x => union_free x
  | TDict k v | TDefaultDict k v => union_free k && union_free v
  | TTuple ts => forallb union_free ts
  | TGenerator a b c => union_free a && union_free b && union_free c
  | TTypedDict r o => forallb (fun f => union_free (snd f)) r && forallb (fun f => union_free (snd f)) o
  end.

Lemma map_id_on {A} (f : A -> A) l : Forall (fun x => f x = x) l -> map f l = l.
Proof. induction 1; cbn; congruence. Qed.

Lemma evt_r_union_free : forall t, union_free t = true -> evt_r t = t.
Proof.
  induction t using ty_ind'; intros Hu; cbn [evt_r union_free] in *; try reflexivity; try discriminate;
    repeat match goal with H : _ && _ = true |- _ => apply andb_prop in H as [? ?] end;
    try (f_equal; auto; fail).
  f_equal. apply map_id_on. rewrite forallb_forall in Hu. rewrite Forall_forall in *. auto.
Qed.

Lemma evt_union_free : forall t, union_free t = true -> evt t = t.
Proof.
  induction t using ty_ind'; intros Hu; try (apply evt_r_union_free; assumption);
    cbn [evt union_free] in *; try reflexivity; try discriminate;
    repeat match goal with H : _ && _ = true |- _ => apply andb_prop in H as [? ?] end;
    try (f_equal; auto; fail).
  f_equal. apply map_id_on. rewrite forallb_forall in Hu. rewrite Forall_forall in *. auto.
Qed.
