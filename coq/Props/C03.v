(* C03 — tracing never changes what the traced program does  (PARTIAL: see C03_full_informal below).
   What is proved is about lists and tags REGENERATED FROM THE SOURCE on every run (Gen/EffectsConstants.v,
   Gen/TracerConstants.v): which primitive operations the tracer applies to the program's objects, the try/except
   of the profiler callback, and the finally block of the tracing context.  The classification of primitives into
   hook-free / hook-invoking is an assumption about CPython, validated by the tripwire differential runs.
   A primitive is (op, on, arg, guard, gon): WHAT is applied (callee / method / iteration / truth test) to WHICH object
   (its origin: a parameter, an attribute chain, the result of a call, an element of an iteration ...), under which
   exact-type guard on which object - independent of the names of locals, of helper functions and of statement order
   (Model/Effects.v, harness/extract_effects.py).  The lists are generated sorted and without duplicates: they are SETS,
   and get_type_prims now also contains what get_dict_type and private helpers do (they are walked through). *)
From MT Require Import Types Effects EffectsFacts.

(* "computes the same results and output with and without tracing" for arbitrary programs is a statement about
   CPython and is not expressible here; it is exercised by the differential runs.  Kept visible: *)
Definition C03_full_informal : Prop :=
  forallb hook_free_prim get_type_prims = true
  /\ forallb hook_free_lookup lookup_prims = true                 (* FALSE today: kf_lookup_getattr *)
  /\ (forall h, callback h = ONormal)                             (* false for BaseException, by design *)
  /\ (forall body fl, trace_calls_exit body fl = Ctx 0 1 body).

(* Type collection applies only hook-free primitives to traced values: type(), issubclass on results of type(), the
   container protocol (iteration, len, keys/values/items and iteration of those views) under an exact-builtin-type guard
   ON THE VERY OBJECT, truth tests of builtin bool / int results only.  No isinstance, getattr, hash, ==, bool, repr. *)
Theorem get_type_runs_no_user_code_partial :
  forallb hook_free_prim get_type_prims = true.
Proof. exact get_type_prims_hook_free. Qed.
Print Assumptions get_type_runs_no_user_code_partial.

(* Function lookup: every primitive is hook-free EXCEPT exactly the known sites (finding kf_lookup_getattr): the two
   getattr calls of _has_code (__code__, __wrapped__) on each of the eight kinds of lookup candidate, and the three
   isinstance tests on the class attribute found by getattr_static (Effects.known_hooking_sites, spelled out in
   ex_c03_nonvacuous below). *)
Theorem lookup_hooks_only_at_known_sites_partial :
  filter (fun p => negb (hook_free_lookup p)) lookup_prims = known_hooking_sites.
Proof. exact lookup_hooking_prims_exactly. Qed.
Print Assumptions lookup_hooks_only_at_known_sites_partial.

(* Containment: whatever Exception type collection, lookup or logger.log raise inside the profiler callback,
   the callback returns normally (and returns itself, so the profiler stays installed). *)
Theorem tracer_contains_failures :
  forall h, (forall e, h = ORaises e -> e = EExceptionSub) -> callback h = ONormal.
Proof. exact callback_contains. Qed.
Print Assumptions tracer_contains_failures.

(* Exit discipline: however the traced block ends (normally or with any exception) and whether or not flush
   fails with an Exception: the previous profiler is back, flush was called exactly once, and the block's own
   outcome is what the program sees. *)
Theorem trace_calls_exit_discipline :
  forall body fl, (forall e, fl = ORaises e -> e = EExceptionSub) -> trace_calls_exit body fl = Ctx 0 1 body.
Proof. exact exit_discipline. Qed.
Print Assumptions trace_calls_exit_discipline.

Theorem trace_calls_always_restores_and_flushes_once :
  forall body fl, profiler (trace_calls_exit body fl) = 0 /\ flushes (trace_calls_exit body fl) = 1.
Proof. exact exit_restores_always. Qed.
Print Assumptions trace_calls_always_restores_and_flushes_once.

Example ex_c03_nonvacuous :
  callback (ORaises EExceptionSub) = ONormal /\ callback (ORaises EBaseOnly) = ORaises EBaseOnly
  /\ trace_calls_exit (ORaises EExceptionSub) (ORaises EExceptionSub) = Ctx 0 1 (ORaises EExceptionSub)
  /\ hook_free_prim ("builtin:isinstance", "param:obj", "builtin:list", "", "") = false
  /\ hook_free_prim ("iter", "param:obj", "", "", "") = false
  /\ hook_free_prim ("iter", "param:obj", "", "list", "param:obj") = true
  /\ hook_free_prim ("iter", "elem(param:obj)", "", "list", "param:obj") = false      (* a guard on another object *)
  /\ hook_free_prim ("builtin:len", "param:obj", "", "", "") = false
  /\ hook_free_prim ("builtin:issubclass", "param:obj", "", "", "") = false           (* not a result of type() *)
  /\ hook_free_prim ("builtin:tuple", "param:obj", "", "", "") = false
  /\ hook_free_prim ("truth", "param:obj", "", "", "") = false
  /\ hook_free_prim ("()", "param:obj.default_factory", "", "defaultdict", "param:obj") = false
  /\ hook_free_lookup ("builtin:isinstance", "elem(call(param:frame.f_globals.values))", "builtin:type", "", "") = false
  /\ hook_free_lookup ("truth", "call(param:frame.f_locals.get)", "", "", "") = false
  /\ hook_free_lookup (".values", "param:frame.f_globals", "", "", "") = true
  (* the known sites, spelled out; the lists are of non-trivial size and do contain the container protocol *)
  /\ known_hooking_sites =
  [("builtin:getattr", "call(builtin:getattr)", "'__code__'", "", "");
   ("builtin:getattr", "call(builtin:getattr)", "'__wrapped__'", "", "");
   ("builtin:getattr", "call(import:inspect.getattr_static).__func__", "'__code__'", "", "");
   ("builtin:getattr", "call(import:inspect.getattr_static).__func__", "'__wrapped__'", "", "");
   ("builtin:getattr", "call(import:inspect.getattr_static).func", "'__code__'", "", "");
   ("builtin:getattr", "call(import:inspect.getattr_static).func", "'__wrapped__'", "", "");
   ("builtin:getattr", "call(import:typing.cast)", "'__code__'", "", "");
   ("builtin:getattr", "call(import:typing.cast)", "'__wrapped__'", "", "");
   ("builtin:getattr", "call(param:frame.f_globals.get)", "'__code__'", "", "");
   ("builtin:getattr", "call(param:frame.f_globals.get)", "'__wrapped__'", "", "");
   ("builtin:getattr", "elem(call(<loop>.f_back.f_locals.values))", "'__code__'", "", "");
   ("builtin:getattr", "elem(call(<loop>.f_back.f_locals.values))", "'__wrapped__'", "", "");
   ("builtin:getattr", "elem(call(param:frame.f_back.f_locals.values))", "'__code__'", "", "");
   ("builtin:getattr", "elem(call(param:frame.f_back.f_locals.values))", "'__wrapped__'", "", "");
   ("builtin:getattr", "elem(call(param:frame.f_locals.values))", "'__code__'", "", "");
   ("builtin:getattr", "elem(call(param:frame.f_locals.values))", "'__wrapped__'", "", "");
   ("builtin:isinstance", "call(import:inspect.getattr_static)", "(builtin:classmethod,builtin:staticmethod)", "", "");
   ("builtin:isinstance", "call(import:inspect.getattr_static)", "builtin:property", "", "");
   ("builtin:isinstance", "call(import:inspect.getattr_static)", "import:monkeytype.compat.cached_property", "", "")]
  /\ 30 <= List.length get_type_prims /\ 40 <= List.length lookup_prims
  /\ existsb (fun p => String.eqb (p_op p) "iter" && String.eqb (p_on p) "param:obj") get_type_prims = true
  /\ existsb (fun p => String.eqb (p_op p) "builtin:len" && String.eqb (p_on p) "param:obj") get_type_prims = true.
Proof. vm_compute. repeat split; repeat constructor. Qed.
