(* Proofs/EffectsFacts.v — C03 *)
From MT Require Import Types Effects.

(* every primitive that get_type (and what it walks through: get_dict_type, private helpers) applies is hook-free
   (regenerated list, checked by computation: the list is finite and concrete) *)
Lemma get_type_prims_hook_free : forallb hook_free_prim get_type_prims = true.
Proof. vm_compute. reflexivity. Qed.

(* function lookup: the ONLY hook-invoking primitives are the known ones (finding kf_lookup_getattr) *)
Lemma lookup_hooking_prims_exactly :
  filter (fun p => negb (hook_free_lookup p)) lookup_prims = known_hooking_sites.
Proof. vm_compute. reflexivity. Qed.

Lemma callback_contains h : (forall e, h = ORaises e -> e = EExceptionSub) -> callback h = ONormal.
Proof.
  intros H. destruct h as [|e]; [reflexivity|]. rewrite (H e eq_refl). reflexivity.
Qed.

Lemma exit_discipline body fl :
  (forall e, fl = ORaises e -> e = EExceptionSub) ->
  trace_calls_exit body fl = Ctx 0 1 body.
Proof.
  intros H. unfold trace_calls_exit. destruct fl as [|e]; [reflexivity|].
  rewrite (H e eq_refl). reflexivity.
Qed.

(* even a BaseException out of flush leaves the old profiler in place and flush called once *)
Lemma exit_restores_always body fl :
  profiler (trace_calls_exit body fl) = 0 /\ flushes (trace_calls_exit body fl) = 1.
Proof. destruct fl as [|[|]]; split; reflexivity. Qed.
