"""C12 generators: (a) Python source of fixture modules — functions and methods of every kind, every combination of the
five parameter kinds, 0..8 parameters, None / other defaults, long names that force wrapping at 120 columns, classes
one and two levels deep, coroutine functions, generators, async generators; (b) inspect.Signature objects built
directly (exhaustive small scope, random, and an ill-formed stream); (c) token sequences for the grammar check."""
import inspect
import itertools
import unittest.mock

ANY_DEFAULT = unittest.mock.ANY      # a default that compares equal to everything

KINDS = ["PO", "PK", "VP", "KO", "VK"]
SRC_ANNOS = ["int", "str", "List[int]", "Optional[int]", "Dict[str, int]", "'Outer'"]
FLAVOURS = ["plain", "plain", "plain", "coroutine", "generator", "asyncgen"]
# a return annotation longer than 120 columns on its own
LONG_RET = "Dict[str, " * 12 + "int" + "]" * 12


def very_long_name(rnd, base, idx):
    """a name that alone pushes `def name()` past column 120, so even an empty parameter list must wrap"""
    return f"{base}{idx}_" + "".join(rnd.choice("abcdefghijklmnopqrstuvwxyz_") for _ in range(rnd.randrange(118, 132)))


class PSpec:
    def __init__(self, name, kind, default=None, anno=None):
        self.name, self.kind, self.default, self.anno = name, kind, default, anno   # default: None | "None" | "other"

    def src(self):
        s = {"VP": "*", "VK": "**"}.get(self.kind, "") + self.name
        if self.anno:
            s += ": " + self.anno
        if self.default:
            s += (" = " if self.anno else "=") + {"None": "None", "ANY": "ANY"}.get(self.default, "3")
        return s


class FSpec:
    def __init__(self, name, params, path, fkind, flavour, ret_anno=None):
        self.name, self.params, self.path, self.fkind, self.flavour, self.ret_anno = name, params, path, fkind, flavour, ret_anno

    @property
    def qualname(self):
        return ".".join(self.path + [self.name])

    def is_coroutine(self):
        return self.flavour == "coroutine"

    def src(self, ind):
        lines = []
        dec = {"CLASS": "@classmethod", "STATIC": "@staticmethod", "PROPERTY": "@property"}.get(self.fkind)
        if dec:
            lines.append(ind + dec)
        for _ in range(getattr(self, "wraps", 0)):
            lines.append(ind + "@" + getattr(self, "deco", "_deco"))   # stacked decorators (functools.wraps or hand-written)
        parts = []
        prev = None
        for p in self.params:
            if prev == "PO" and p.kind != "PO":
                parts.append("/")
            if p.kind == "KO" and prev not in ("VP", "KO"):
                parts.append("*")
            parts.append(p.src())
            prev = p.kind
        if prev == "PO":
            parts.append("/")
        head = ("async " if self.flavour in ("coroutine", "asyncgen") else "") + "def " + self.name
        ret = f" -> {self.ret_anno}" if self.ret_anno else ""
        lines.append(f"{ind}{head}({', '.join(parts)}){ret}:")
        lines.append(ind + ("    yield 1" if self.flavour in ("generator", "asyncgen") else "    return None"))
        return "\n".join(lines)


def mk_name(rnd, base, idx, long_):
    if long_:
        return f"{base}{idx}_" + "".join(rnd.choice("abcdefghijklmnopqrstuvwxyz_") for _ in range(rnd.randrange(18, 38)))
    return f"{base}{idx}"


RECEIVER_NAMES = {"INSTANCE": ["self", "self", "self", "this", "me", "_", "s"],
                  "CLASS": ["cls", "cls", "klass", "mcs", "this"],
                  "PROPERTY": ["self", "self", "this", "me", "_"]}


def receiver_name(rnd, fkind):
    """the receiver is whatever comes FIRST in a method, classmethod or property, whatever it is called"""
    names = RECEIVER_NAMES.get(fkind)
    return rnd.choice(names) if names else None


def gen_params(rnd, present, total, long_names, receiver=None, annotate=0.2):
    """a valid parameter list using exactly the kinds in `present` (plus the receiver), about `total` parameters"""
    present = set(present)
    counts = {k: 0 for k in KINDS}
    for k in present:
        counts[k] = 1
    budget = max(0, total - sum(counts.values()))
    multi = [k for k in ("PO", "PK", "KO") if k in present]
    for _ in range(budget):
        if not multi:
            break
        counts[rnd.choice(multi)] += 1
    ps = []
    idx = 0
    if receiver:
        rk = "PO" if counts["PO"] else "PK"
        ps.append(PSpec(receiver, rk))
    npos = counts["PO"] + counts["PK"]
    first_default = rnd.randrange(0, npos + 1) if rnd.random() < 0.7 else npos
    for j in range(npos):
        kind = "PO" if j < counts["PO"] else "PK"
        dflt = rnd.choice(["None", "other", "other", "ANY"]) if j >= first_default else None
        ps.append(PSpec(mk_name(rnd, "p", idx, long_names and rnd.random() < 0.8), kind, dflt))
        idx += 1
    if counts["VP"]:
        ps.append(PSpec(mk_name(rnd, "args", idx, long_names and rnd.random() < 0.5), "VP"))
        idx += 1
    for _ in range(counts["KO"]):
        dflt = rnd.choice([None, "None", "other", "ANY"])
        ps.append(PSpec(mk_name(rnd, "k", idx, long_names and rnd.random() < 0.8), "KO", dflt))
        idx += 1
    if counts["VK"]:
        ps.append(PSpec(mk_name(rnd, "kw", idx, long_names and rnd.random() < 0.5), "VK"))
    named = [p for p in ps if p.kind in ("PO", "PK", "KO") and p.name != receiver]
    if named and rnd.random() < 0.3:
        if not receiver:
            named[0].name = rnd.choice(["self", "cls"])        # a function / staticmethod whose FIRST parameter is `self`
        elif receiver not in ("self", "cls"):
            named[-1].name = rnd.choice(["self", "cls"])       # `def m(this, ..., self)`: only position 0 is the receiver
    for p in ps:
        if rnd.random() < annotate and p.name != receiver:
            p.anno = rnd.choice(SRC_ANNOS)
    if receiver and rnd.random() < 0.05:
        ps[0].anno = "'Outer'"          # a source that annotates its receiver (kept under REPLICATE)
    return ps


PLACEMENTS = [
    ([], "MODULE"),
    (["Outer"], "INSTANCE"), (["Outer"], "CLASS"), (["Outer"], "STATIC"), (["Outer"], "PROPERTY"),
    (["Zeta"], "INSTANCE"), (["Alpha"], "STATIC"),
    (["Outer", "Inner"], "INSTANCE"), (["Outer", "Inner"], "CLASS"), (["Outer", "Inner"], "STATIC"),
    (["Outer", "Inner"], "PROPERTY"), (["Zeta", "Deep"], "INSTANCE"),
]


def gen_module_specs(rnd, subsets, n_extra, n_edge=3, modname=None):
    """One module: each kind-subset in `subsets` gives one function in a rotating placement; n_extra more random."""
    specs = []
    used = set()

    def add(present, placement, total=None, long_names=None):
        path, fkind = placement
        receiver = receiver_name(rnd, fkind)
        if fkind == "PROPERTY":
            params = [PSpec(receiver, "PK")]
            flavour = "plain"
        else:
            total = rnd.randrange(0, 9) if total is None else total
            long_names = (rnd.random() < 0.35) if long_names is None else long_names
            params = gen_params(rnd, present, total, long_names, receiver)
            flavour = rnd.choice(FLAVOURS)
        base = {"MODULE": "fn", "INSTANCE": "meth", "CLASS": "cmeth", "STATIC": "smeth", "PROPERTY": "prop"}[fkind]
        name = mk_name(rnd, base, len(specs), rnd.random() < 0.15)
        if (tuple(path), name) in used:
            return
        used.add((tuple(path), name))
        ret = rnd.choice([None, None, None, "int"])
        specs.append(FSpec(name, params, list(path), fkind, flavour, ret))

    for i, present in enumerate(subsets):
        add(present, PLACEMENTS[(i + rnd.randrange(len(PLACEMENTS))) % len(PLACEMENTS)])
    # the wrap with nothing (or one thing) to put on the wrapped lines: no / one parameter and a very long name or a
    # very long return annotation
    edge = [
        ("fnw", [], "MODULE", [], "name"), ("fnw", [], "MODULE", [], "ret"), ("fnw", [], "MODULE", ["PK"], "name"),
        ("fnw", [], "MODULE", ["VK"], "ret"), ("smethw", ["Outer"], "STATIC", [], "name"),
        ("smethw", ["Alpha"], "STATIC", [], "ret"), ("methw", ["Outer"], "INSTANCE", [], "name"),
        ("cmethw", ["Zeta"], "CLASS", [], "ret"), ("smethw", ["Outer"], "STATIC", ["KO"], "name"),
    ]
    for base, path, fkind, present, how in rnd.sample(edge, n_edge):
        receiver = receiver_name(rnd, fkind)
        params = gen_params(rnd, present, len(present), False, receiver, annotate=0.0)
        name = very_long_name(rnd, base, len(specs)) if how == "name" else f"{base}{len(specs)}"
        flavour = rnd.choice(["plain", "plain", "coroutine"])
        specs.append(FSpec(name, params, list(path), fkind, flavour, LONG_RET if how == "ret" else None))
    for _ in range(n_extra):
        present = [k for k in KINDS if rnd.random() < 0.5]
        add(present, rnd.choice(PLACEMENTS))
    specs += wrapped_async_specs(rnd, len(specs))
    specs += annotated_defaulted_specs(rnd, len(specs))
    specs += module_named_specs(rnd, len(specs), modname)
    specs += same_named_nested_specs(rnd, len(specs))
    return specs


def wrapped_async_specs(rnd, base):
    """coroutine functions / async methods (and a few others) under two or three stacked functools.wraps decorators,
    and async methods that sort last in their class or are the only method of their class"""
    out = []
    places = [([], "MODULE"), (["Outer"], "INSTANCE"), (["Outer"], "CLASS"), (["Outer"], "STATIC"), (["Zeta"], "INSTANCE")]
    for j, (path, fkind) in enumerate(rnd.sample(places, 3)):
        s = make_spec(rnd, f"wrapped{base + j}", path, fkind, max_params=3)
        s.flavour = "coroutine" if j < 2 else rnd.choice(FLAVOURS)
        s.wraps = rnd.choice([2, 3])
        out.append(s)
    # hand-written decorators that set __wrapped__ but keep their own __name__ / __qualname__
    for j, (path, fkind, flavour) in enumerate([([], "MODULE", "plain"), ([], "MODULE", "coroutine"),
                                                 (["Outer"], "INSTANCE", rnd.choice(["plain", "coroutine"])),
                                                 (["Zeta"], "INSTANCE", "plain")]):
        if rnd.random() < 0.6:
            s = make_spec(rnd, f"handwrapped{base + j}", path, fkind, max_params=3)
            s.flavour = flavour
            s.wraps = rnd.choice([1, 2])
            s.deco = "_plain_deco"
            out.append(s)
    last = make_spec(rnd, "zz_sorts_last", rnd.choice([["Outer"], ["Zeta"]]), rnd.choice(["INSTANCE", "CLASS", "STATIC"]), 2)
    last.flavour = "coroutine"
    out.append(last)
    only = make_spec(rnd, "only_method", ["Solo"], "INSTANCE", 2)
    only.flavour = "coroutine"
    out.append(only)
    return out


def annotated_defaulted_specs(rnd, base):
    """source parameters that are both ANNOTATED and DEFAULTED in every position kind (what OMIT / IGNORE / REPLICATE
    each have to carry over: the default stays whatever happens to the annotation)"""
    out = []
    for j, (path, fkind) in enumerate(rnd.sample([([], "MODULE"), (["Outer"], "INSTANCE"), (["Outer"], "STATIC"),
                                                  (["Zeta"], "CLASS")], 2)):
        receiver = receiver_name(rnd, fkind)
        params = [PSpec(receiver, "PK")] if receiver else []
        shape = rnd.choice([["PO", "PK", "KO"], ["PK", "PK", "VP", "KO", "KO", "VK"], ["PO", "PO", "PK", "KO"], ["PK", "KO"]])
        if receiver and "PO" in shape:
            params[0].kind = "PO"
        for i, k in enumerate(shape):
            if k in ("VP", "VK"):
                params.append(PSpec(f"v{i}", k, None, rnd.choice([None, "int"])))
            else:
                params.append(PSpec(f"d{i}", k, rnd.choice(["None", "other"]), rnd.choice(SRC_ANNOS[:5])))
        out.append(FSpec(f"annd{base + j}", params, list(path), fkind, rnd.choice(["plain", "coroutine"]),
                         rnd.choice([None, "int"])))
    return out


def module_named_specs(rnd, base, modname):
    """parameters and functions NAMED like (or prefixed by) a module the same signature imports a type from: the module
    prefix stripping of FunctionStub.render must leave them alone"""
    out = []
    s = FSpec(f"to_cents{base}", [PSpec("decimal", "PK"), PSpec("decimal_places", "PK", "None"), PSpec("typing", "KO", "other")],
              [], "MODULE", "plain")
    s.force = {"decimal": "Decimal", "decimal_places": "Optional[int]", "typing": "List[int]", "return": "Decimal"}
    out.append(s)
    s = FSpec("fractions", [PSpec("fractions", "PO"), PSpec("uuid", "PK", "None"), PSpec("typing_extra", "VP")],
              [], "MODULE", rnd.choice(["plain", "coroutine"]))
    s.force = {"fractions": "List[Fraction]", "uuid": "UUID", "typing_extra": "Optional[str]", "return": "Fraction"}
    out.append(s)
    if modname:
        # the fixture module's own name is in strip_modules whenever a signature mentions one of its classes
        s = FSpec(modname, [PSpec(modname, "PK"), PSpec(modname + "_x", "KO", "None")], ["Outer"], "STATIC", "plain")
        s.force = {modname: "Outer", modname + "_x": "Outer", "return": "Outer"}
        out.append(s)
    return rnd.sample(out, 2) if len(out) > 2 else out


def same_named_nested_specs(rnd, base):
    """nested classes with the same simple name in different outer classes, a top-level class of that name, and
    same-named methods in all of them"""
    if rnd.random() < 0.5:
        return []
    out = []
    for path in (["Shapes", "Meta"], ["Colors", "Meta"], ["Meta"]):
        for name in ("describe", f"only_{path[0].lower()}"):
            fkind = rnd.choice(["INSTANCE", "INSTANCE", "STATIC", "CLASS"])
            out.append(make_spec(rnd, name, path, fkind, max_params=3))
    return out


def make_spec(rnd, name, path, fkind, max_params=6):
    """one function of the given name / placement / kind with a fresh random parameter list and flavour"""
    receiver = receiver_name(rnd, fkind)
    if fkind == "PROPERTY":
        return FSpec(name, [PSpec(receiver, "PK")], list(path), fkind, "plain", rnd.choice([None, "int"]))
    present = [k for k in KINDS if rnd.random() < 0.45]
    params = gen_params(rnd, present, rnd.randrange(0, max_params + 1), rnd.random() < 0.2, receiver)
    return FSpec(name, params, list(path), fkind, rnd.choice(FLAVOURS), rnd.choice([None, None, "int"]))


def history_specs(rnd, n=8):
    """two versions of one module: same function names in the same classes; in the second version most functions have
    another kind (method <-> classmethod <-> staticmethod <-> property), another flavour (plain <-> coroutine <->
    generator) and another parameter list"""
    v1, v2 = [], []
    for i in range(n):
        path = rnd.choice([[], ["Outer"], ["Outer"], ["Zeta"]])
        kinds = ["MODULE"] if not path else ["INSTANCE", "CLASS", "STATIC", "PROPERTY"]
        k1 = rnd.choice(kinds)
        s1 = make_spec(rnd, f"h{i}", path, k1)
        if rnd.random() < 0.8:
            k2 = rnd.choice([k for k in kinds if k != k1] or kinds) if rnd.random() < 0.7 else k1
            s2 = make_spec(rnd, f"h{i}", path, k2)
        else:
            s2 = s1
        v1.append(s1)
        v2.append(s2)
    return v1, v2


def module_source(specs):
    out = ["import functools", "from typing import Dict, List, Optional", "from unittest.mock import ANY", "", "",
           "def _deco(f):", "    @functools.wraps(f)", "    def wrapper(*args, **kwargs):", "        return f(*args, **kwargs)",
           "    return wrapper", "", "",
           "def _plain_deco(f):", "    def wrapper(*args, **kwargs):", "        return f(*args, **kwargs)",
           "    wrapper.__wrapped__ = f      # hand-written: no functools.wraps, the wrapper keeps its own __qualname__",
           "    return wrapper", "", ""]
    for s in specs:
        if not s.path:
            out.append(s.src(""))
            out.append("")
    tops = []
    for s in specs:
        if s.path and s.path[0] not in tops:
            tops.append(s.path[0])
    for top in tops:
        out.append(f"class {top}:")
        for s in specs:
            if s.path == [top]:
                out.append(s.src("    "))
                out.append("")
        inners = []
        for s in specs:
            if len(s.path) == 2 and s.path[0] == top and s.path[1] not in inners:
                inners.append(s.path[1])
        for inner in inners:
            out.append(f"    class {inner}:")
            for s in specs:
                if s.path == [top, inner]:
                    out.append(s.src("        "))
                    out.append("")
        out.append("    _pad = 0")
        out.append("")
    return "\n".join(out) + "\n"


def all_kind_subsets():
    out = []
    for r in range(6):
        out += [list(c) for c in itertools.combinations(KINDS, r)]
    return out


# ------------------------------------------------------------------------------------------------
# inspect.Signature objects built directly
# ------------------------------------------------------------------------------------------------
PK_ = {"PO": inspect.Parameter.POSITIONAL_ONLY, "PK": inspect.Parameter.POSITIONAL_OR_KEYWORD,
       "VP": inspect.Parameter.VAR_POSITIONAL, "KO": inspect.Parameter.KEYWORD_ONLY,
       "VK": inspect.Parameter.VAR_KEYWORD}


def valid_kind_sequences(max_len):
    """every kind sequence a function can have (non-decreasing, at most one VP and one VK)"""
    out = []
    for n in range(max_len + 1):
        for seq in itertools.product(KINDS, repeat=n):
            if list(seq) == sorted(seq, key=KINDS.index) and seq.count("VP") <= 1 and seq.count("VK") <= 1:
                out.append(list(seq))
    return out


def anno_objects():
    from typing import Any, Dict, List, Optional, Tuple, Union
    return [int, str, List[int], Optional[int], Dict[str, Any], Tuple[int, ...], Union[int, str], type(None)]


def make_signature(rnd, kinds, long_names=False, anno_p=0.4, validate=True, defaults_mode="valid"):
    annos = anno_objects()
    params = []
    npos = sum(1 for k in kinds if k in ("PO", "PK"))
    first_default = rnd.randrange(0, npos + 1)
    j = 0
    for i, k in enumerate(kinds):
        name = mk_name(rnd, "a", i, long_names and rnd.random() < 0.8)
        default = inspect.Parameter.empty
        if k in ("PO", "PK"):
            if defaults_mode == "valid":
                if j >= first_default:
                    default = rnd.choice([None, 3, "x", ANY_DEFAULT])
            elif rnd.random() < 0.5:
                default = rnd.choice([None, 3])
            j += 1
        elif k == "KO" and rnd.random() < 0.5:
            default = rnd.choice([None, 3, "x", ANY_DEFAULT])
        anno = rnd.choice(annos) if rnd.random() < anno_p else inspect.Parameter.empty
        params.append(inspect.Parameter(name, PK_[k], default=default, annotation=anno))
    ret = rnd.choice(annos) if rnd.random() < 0.4 else inspect.Signature.empty
    return inspect.Signature(params, return_annotation=ret, __validate_parameters__=validate)


# ------------------------------------------------------------------------------------------------
# grammar stream: parameter lists, mostly ungrammatical
# ------------------------------------------------------------------------------------------------
GRAMMAR_ALPHABET = ["/", "*", "*NAME", "**NAME", "NAME", "NAME=", "NAME:", "NAME:=", "*NAME:", "**NAME:", "*NAME=", "**NAME="]


def grammar_item(sym, i):
    """(text, [coq tokens]) of one comma-separated entry"""
    name = f"n{i}"
    toks, text = [], ""
    body = sym
    if body.startswith("**"):
        toks.append("TStarStar"); text += "**"; body = body[2:]
    elif body.startswith("*") and body != "*":
        toks.append("TStar"); text += "*"; body = body[1:]
    if body == "/":
        return "/", ["TSlash"]
    if body == "*":
        return "*", ["TStar"]
    toks.append(f'(TName "{name}"%string)'); text += name
    rest = body[len("NAME"):]
    if rest.startswith(":"):
        toks += ["TColon", '(TAnno "int"%string)']; text += ": int"
        rest = rest[1:]
    if rest.startswith("="):
        toks += ["TEq", "TEllipsis"]; text += " = ..."
    return text, toks


def grammar_case(symbols, layout_newlines=False):
    texts, toks = [], ["TLParen"]
    for i, s in enumerate(symbols):
        t, ts = grammar_item(s, i)
        texts.append(t)
        if i:
            toks.append("TComma")
            if layout_newlines:
                toks.append('(TLayout " "%string)')
        toks += ts
    toks.append("TRParen")
    sep = ",\n    " if layout_newlines else ", "
    return "(" + sep.join(texts) + ")", toks
