(* Model/Effects.v — C03: what the tracer does to the PROGRAM'S objects, and how failures and exits are handled.
   (1) a classification of the primitive operations that harness/extract_effects.py reads off the source on every
       run (Gen/EffectsConstants.v) into hook-free and hook-invoking;
   (2) the profiler callback's containment of failures (CallTracer.__call__);
   (3) the exit discipline of the tracing context (trace_calls' finally block, interpreted from the extracted tags).
   Executable definitions only. *)
From MT Require Export Types TracerConstants EffectsConstants.
Open Scope string_scope.
Open Scope list_scope.

Definition str_in (s : string) (l : list string) : bool := existsb (String.eqb s) l.

(* ---- (1) primitives ----
   The classification is an ASSUMPTION about CPython (validated, not proved, by the tripwire runs):
   - type(o), `is`, issubclass between real type objects of builtin metaclass, callable(o): never run user code;
   - iteration / len / keys / values / items of an object whose EXACT type is a builtin container (the @guard):
     the builtin's own slots run, never a subclass override;
   - inspect.getattr_static: designed not to trigger descriptors / __getattr__;
   - frame.f_globals / f_locals are real dicts;
   - isinstance(o, T): falls back to o.__class__ (attribute hook) when type(o) is not a subclass of T;
   - getattr(o, name, default): runs __getattribute__ / __getattr__ / descriptors of o. *)
Definition exact_guards : list string := ["list"; "set"; "dict"; "defaultdict"; "tuple"].

(* MonkeyType's own functions and pure helpers: they touch program objects only through the primitives listed for
   them (get_type / get_dict_type / shrink_types / make_typed_dict work on type objects) *)
Definition internal_calls : list string :=
  ["get_type"; "get_dict_type"; "shrink_types"; "make_typed_dict"; "tuple"; "all"; "cast"].
Definition hook_free_anywhere : list string := ["type"; "issubclass"; "callable"; "inspect.getattr_static"].
Definition container_protocol : list string :=
  ["iter(obj)"; "iter(dct)"; "len"; "obj.keys"; "obj.values"; "obj.items"; "dct.keys"; "dct.values"; "dct.items"].

Fixpoint split_at (c : Ascii.ascii) (s : string) : string * option string :=
  match s with
  | EmptyString => (EmptyString, None)
  | String a r => if Ascii.eqb a c then (EmptyString, Some r)
                  else let '(h, t) := split_at c r in (String a h, t)
  end.

(* prim = callee[@guard] *)
Definition hook_free_prim (p : string) : bool :=
  let '(callee, guard) := split_at "@"%char p in
  str_in callee hook_free_anywhere
  || (str_in callee internal_calls)
  || (str_in callee container_protocol && match guard with Some g => str_in g exact_guards | None => false end).

(* lookup primitives carry the function they occur in:  fn:callee *)
Definition lookup_callee (p : string) : string :=
  match split_at ":"%char p with (_, Some c) => c | (c, None) => c end.
Definition frame_dict_ops : list string :=
  ["frame.f_globals.get"; "frame.f_locals.get"; "frame.f_globals.values"; "previous_frame.f_locals.values"].
Definition lookup_internal : list string :=
  ["_has_code"; "get_func_in_mro"; "get_locals_from_previous_frames"; "get_previous_frames"; "cast"].
Definition hook_free_lookup (p : string) : bool :=
  let c := lookup_callee p in
  str_in c hook_free_anywhere || str_in c frame_dict_ops || str_in c lookup_internal.

(* ---- (2) containment in the profiler callback ---- *)
Inductive exn := EExceptionSub | EBaseOnly.       (* an Exception subclass | KeyboardInterrupt/SystemExit/GeneratorExit *)
Inductive outcome := ONormal | ORaises (e : exn).

(* `try: handler except <tr_call_catches>: log` *)
Definition catches (cls : string) (e : exn) : bool :=
  match e with
  | EExceptionSub => String.eqb cls "Exception" || String.eqb cls "BaseException"
  | EBaseOnly => String.eqb cls "BaseException"
  end.
Definition callback (handler : outcome) : outcome :=
  match handler with
  | ONormal => ONormal
  | ORaises e => if catches tr_call_catches e then ONormal else ORaises e
  end.

(* ---- (3) the tracing context: trace_calls ---- *)
Record ctx := Ctx { profiler : nat; flushes : nat; pending : outcome }.   (* profiler ids: 0 = old, 1 = CallTracer *)

(* one statement of the finally block *)
Definition fin_step (flush_outcome : outcome) (tag : string) (c : ctx) : ctx * bool (* keep going? *) :=
  if String.eqb tag "restore" then (Ctx 0 (flushes c) (pending c), true)
  else if String.eqb tag "flush" then
    match flush_outcome with
    | ONormal => (Ctx (profiler c) (S (flushes c)) (pending c), true)
    | ORaises e => (Ctx (profiler c) (S (flushes c)) (ORaises e), false)      (* replaces the pending outcome *)
    end
  else match split_at ":"%char tag with
       | ("flush_contained", Some cls) =>
           match flush_outcome with
           | ONormal => (Ctx (profiler c) (S (flushes c)) (pending c), true)
           | ORaises e => if catches cls e then (Ctx (profiler c) (S (flushes c)) (pending c), true)
                          else (Ctx (profiler c) (S (flushes c)) (ORaises e), false)
           end
       | _ => (c, true)
       end.
Fixpoint run_finally (flush_outcome : outcome) (tags : list string) (c : ctx) : ctx :=
  match tags with
  | [] => c
  | t :: r => let '(c', go) := fin_step flush_outcome t c in if go then run_finally flush_outcome r c' else c'
  end.
(* with trace_calls(...): body   — profiler 1 is installed, the body ends with `body`, the finally block runs *)
Definition trace_calls_exit (body flush_outcome : outcome) : ctx :=
  run_finally flush_outcome tr_exit_finally (Ctx 1 0 body).
