(* Check/FilterCases.v — correspondence verdicts for C17.
     0 ok · 1 model <> implementation, property predicate holds on the implementation's answer ·
     2 property predicate false on the implementation's own answer · 3 malformed case (harness bug) *)
From Coq Require Export List Bool Arith String Ascii.
From MT Require Export Filter Common.
Export ListNotations.
Open Scope list_scope.

(* ------------------------------------------------------------------------------------------ *)
(* small equalities                                                                            *)
(* ------------------------------------------------------------------------------------------ *)
Definition opt_eqb {A} (eqb : A -> A -> bool) (a b : option A) : bool :=
  match a, b with
  | Some x, Some y => eqb x y
  | None, None => true
  | _, _ => false
  end.

Fixpoint list_eqb {A} (eqb : A -> A -> bool) (a b : list A) : bool :=
  match a, b with
  | [], [] => true
  | x :: a', y :: b' => eqb x y && list_eqb eqb a' b'
  | _, _ => false
  end.

Definition trace_eqb (a b : trace) : bool :=
  opt_eqb String.eqb (tr_module a) (tr_module b) && String.eqb (tr_qualname a) (tr_qualname b).

Fixpoint has_slash (s : string) : bool :=
  match s with
  | EmptyString => false
  | String c r => Ascii.eqb c "/" || has_slash r
  end.

(* a resolved absolute path: the anchor "/" first, then non-empty components without "/" *)
Definition wf_abs (p : path) : bool :=
  match p with
  | a :: r => String.eqb a "/" && forallb (fun c => negb (str_empty c) && negb (has_slash c)) r
  | [] => false
  end.

(* ------------------------------------------------------------------------------------------ *)
(* default_code_filter                                                                         *)
(* ------------------------------------------------------------------------------------------ *)
Record fcase := FCase {
  fc_raw : string;                      (* code.co_filename *)
  fc_resolved : option path;            (* os.path.realpath of it, split by the harness; None = resolve() raised *)
  fc_env : option string;               (* MONKEYTYPE_TRACE_MODULES *)
  fc_names : option (list string);      (* Python's own env.split(",") *)
  fc_impl : option bool                 (* answer of the real default_code_filter; None = it raised *)
}.

Definition spec_answer (roots : list path) (c : fcase) : option bool :=
  match fc_resolved c with
  | Some file => Some (spec_b roots (fc_names c) (fc_raw c) file)
  | None => if real_source_b (fc_raw c) then None else Some false
  end.

Definition verdict_filter (roots : list path) (c : fcase) : nat :=
  if negb (forallb wf_abs roots && match fc_resolved c with Some f => wf_abs f | None => true end
           && match fc_env c, fc_names c with Some _, Some _ | None, None => true | _, _ => false end)
  then 3
  else if negb (opt_eqb Bool.eqb (fc_impl c) (spec_answer roots c)) then 2
  else if negb (opt_eqb Bool.eqb (fc_impl c)
                        (default_filter roots (allow_of_env (fc_env c)) (fc_raw c) (fc_resolved c))
                && opt_eqb (list_eqb String.eqb) (allow_of_env (fc_env c)) (fc_names c))
  then 1 else 0.

(* ------------------------------------------------------------------------------------------ *)
(* CallTraceStoreLogger                                                                        *)
(* ------------------------------------------------------------------------------------------ *)
Record lcase := LCase {
  lc_ops : list lop;
  lc_added : list (list trace);         (* the batches the recording store received *)
  lc_buf : list trace                   (* logger.traces at the end *)
}.

Definition verdict_logger (c : lcase) : nat :=
  let want := filter (fun t => negb (is_main t)) (logged_of (lc_ops c)) in
  let got := List.concat (lc_added c) ++ lc_buf c in
  if negb (list_eqb trace_eqb got want && forallb (fun t => negb (is_main t)) got) then 2
  else let m := lrun slogger0 (lc_ops c) in
       if list_eqb (list_eqb trace_eqb) (added m) (lc_added c) && list_eqb trace_eqb (buf m) (lc_buf c)
       then 0 else 1.

(* ------------------------------------------------------------------------------------------ *)
(* end to end: trace(config) / `monkeytype run` into a SQLite store                            *)
(* ------------------------------------------------------------------------------------------ *)
Inductive efilter :=
| ECustom (admitted : list nat)                                    (* code ids the custom filter accepts *)
| EDefault (env : option string) (files : list (string * option path)).  (* DefaultConfig: co_filename, resolved, per code id *)

Record ecase := ECase {
  ec_funcs : list (option trace);       (* code id -> the function get_func resolves it to *)
  ec_filter : efilter;
  ec_skip : list nat;                   (* code ids the tracer skips by name (co_name == "trace_types"), if the source still does *)
  ec_history : list (evkind * nat * nat);   (* (event, code id, frame id) of the generated program's own code *)
  ec_rows : list trace                  (* (module, qualname) of the rows in the store, in rowid order *)
}.

Definition e_resolve (c : ecase) (i : nat) : option trace := nth i (ec_funcs c) None.

Definition e_admits (roots : list path) (c : ecase) (i : nat) : bool :=
  match ec_filter c with
  | ECustom ids => existsb (Nat.eqb i) ids
  | EDefault env files =>
      match nth_error files i with
      | Some (raw, res) => match default_filter roots (allow_of_env env) raw res with Some b => b | None => false end
      | None => false
      end
  end.

(* the property, read off the history: every completed call of admitted code outside __main__, in order of completion *)
Definition e_expected (roots : list path) (c : ecase) : list trace :=
  flat_map (fun e => match e with
                     | (KReturn, i, _) =>
                         if e_admits roots c i
                         then match e_resolve c i with
                              | Some t => if is_main t then [] else [t]
                              | None => []
                              end
                         else []
                     | _ => []
                     end) (ec_history c).

Definition e_model (roots : list path) (c : ecase) : list trace :=
  pipeline_rows (e_resolve c) (fun i => existsb (Nat.eqb i) (ec_skip c)) (Some (e_admits roots c))
             (map (fun e => match e with (k, i, f) => Build_event k i f end) (ec_history c)).

(* call/return events are balanced per frame and every code id is in the table *)
Fixpoint wf_hist (live : list nat) (h : list (evkind * nat * nat)) : bool :=
  match h with
  | [] => match live with [] => true | _ => false end
  | (KCall, _, f) :: r => negb (existsb (Nat.eqb f) live) && wf_hist (f :: live) r
  | (KReturn, _, f) :: r => match live with g :: l => Nat.eqb f g && wf_hist l r | [] => false end
  | (KOther, _, _) :: r => wf_hist live r
  end.

Definition verdict_e2e (roots : list path) (c : ecase) : nat :=
  if negb (wf_hist [] (ec_history c)
           && forallb (fun e => match e with (_, i, _) => i <? List.length (ec_funcs c) end) (ec_history c))
  then 3
  else if negb (list_eqb trace_eqb (ec_rows c) (e_expected roots c)) then 2
  else if negb (list_eqb trace_eqb (ec_rows c) (e_model roots c)) then 1 else 0.
