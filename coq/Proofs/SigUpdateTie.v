(* Proofs/SigUpdateTie.v — C13: the property predicate the correspondence check evaluates (written with the
   DOCUMENTED member names, receiver kinds) coincides with the table-driven spec_sig whenever the regenerated
   tables say what the documentation says; hence it holds of the model's output. *)
From MT Require Import Types Infer TypesFacts Constants SigUpdate SigUpdateFacts SigUpdateSpec SigUpdateCases.
Local Open Scope list_scope.

Lemma spec_params_with_ext ok1 ok2 hs args :
  (forall b a t o, ok1 b a t o = ok2 b a t o) ->
  forall src idx out, spec_params_with ok1 hs args idx src out = spec_params_with ok2 hs args idx src out.
Proof.
  intros E. induction src as [|p ps IH]; intros idx [|o os]; cbn [spec_params_with]; try reflexivity.
  rewrite E, IH. reflexivity.
Qed.

Lemma spec_sig_with_ext ok1 ok2 hs sg tr out :
  (forall b a t o, ok1 b a t o = ok2 b a t o) ->
  spec_sig_with ok1 hs sg tr out = spec_sig_with ok2 hs sg tr out.
Proof. intros E. unfold spec_sig_with. rewrite (spec_params_with_ext ok1 ok2 hs _ E), E. reflexivity. Qed.

Lemma doc_self_agrees kind : In kind (map fst function_kinds) -> doc_self kind = has_self kind.
Proof.
  cbn. intros [<-|[<-|[<-|[<-|[<-|[<-|[]]]]]]]; reflexivity.
Qed.

Lemma mode_agrees name s : In name ["REPLICATE"; "OMIT"; "IGNORE"]%string -> is_strat name s = true ->
  forall b a t o, allowed_m (mode_of_name name) b a t o = allowed s b a t o.
Proof.
  intros [<-|[<-|[<-|[]]]] H b a t o; unfold allowed_m, allowed, mode_of_name; cbn [mR mO mI String.eqb Ascii.eqb Bool.eqb].
  - destruct (strat_replicate s H) as [-> ->]. rewrite H. reflexivity.
  - destruct (strat_omit s H) as [-> ->]. rewrite H. reflexivity.
  - destruct (strat_ignore s H) as [-> ->]. rewrite H. reflexivity.
Qed.

Lemma checked_predicate_is_spec name s kind sg tr out :
  In name ["REPLICATE"; "OMIT"; "IGNORE"]%string -> is_strat name s = true -> In kind (map fst function_kinds) ->
  spec_sig_with (allowed_m (mode_of_name name)) (doc_self kind) sg tr out = spec_sig s kind sg tr out.
Proof.
  intros N S K. unfold spec_sig. rewrite (doc_self_agrees kind K).
  apply spec_sig_with_ext. apply mode_agrees; assumption.
Qed.

Lemma known_of_name name s : In name ["REPLICATE"; "OMIT"; "IGNORE"]%string -> is_strat name s = true -> known_strat s = true.
Proof.
  unfold known_strat. intros [<-|[<-|[<-|[]]]] ->; rewrite ?orb_true_r; reflexivity.
Qed.

Lemma checked_predicate_holds_of_model name s kind sg tr :
  In name ["REPLICATE"; "OMIT"; "IGNORE"]%string -> is_strat name s = true -> In kind (map fst function_kinds) ->
  wf_sig sg -> wf_traced tr ->
  spec_sig_with (allowed_m (mode_of_name name)) (doc_self kind) sg tr (update_sig s kind sg tr) = true.
Proof.
  intros N S K Ws Wt. rewrite (checked_predicate_is_spec name s kind _ _ _ N S K).
  apply update_meets_spec; [eapply known_of_name; eassumption|exact Ws|exact Wt].
Qed.

(* the documented flag meaning is what the regenerated flag table implements *)
Lemma doc_flags_agree :
  forall parser flags, In parser ["group"; "apply_parser"]%string ->
    In flags [[]; ["--ignore-existing-annotations"]; ["--omit-existing-annotations"];
              ["--ignore-existing-annotations"; "--omit-existing-annotations"];
              ["--omit-existing-annotations"; "--ignore-existing-annotations"]]%string ->
    match doc_flags parser flags with
    | Some name => exists s, cli_strategy parser flags = CliStrategy s /\ is_strat name s = true
    | None => cli_strategy parser flags = CliUsageError
    end.
Proof.
  intros parser flags [<-|[<-|[]]] [<-|[<-|[<-|[<-|[<-|[]]]]]]; cbn;
    try reflexivity; try (eexists; split; reflexivity).
Qed.
