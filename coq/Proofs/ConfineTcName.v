(* Proofs/ConfineTcName.v — C16: the name TYPE_CHECKING is imported in the leading import block of the result,
   hence bound before every module-level `if TYPE_CHECKING:`. *)
From Coq Require Import List Bool Arith String Ascii Lia.
From MT Require Import Confine ConfineEmb ConfineItems.
Import ListNotations.
Open Scope list_scope.

(* an import statement that makes the leading block "ready" *)
Definition gives_tc (i : imp) : bool :=
  match i with
  | IStar md => String.eqb md "typing"
  | IFrom md ns => String.eqb md "typing" && existsb (name_eqb tc_name) ns
  | IImport _ => false
  end.

Lemma ready_body_iff m : tc_ready_body m = existsb gives_tc (top_block m).
Proof.
  unfold tc_ready_body, typing_star, typing_has_tc. induction (top_block m) as [|i r IH]; [reflexivity|].
  simpl. rewrite <- IH. destruct i; simpl.
  - reflexivity.
  - destruct (String.eqb md "typing" && existsb (name_eqb tc_name) ns); simpl;
      destruct (existsb _ r); simpl; reflexivity.
  - destruct (String.eqb md "typing"); simpl; [reflexivity|].
    destruct (existsb _ r); reflexivity.
Qed.

(* ---------------------------------------------------------------- add_tc makes the block ready *)
Lemma add_first_ready m :
  typing_from (top_block m) = true -> existsb gives_tc (top_block (add_first m)) = true.
Proof.
  induction m as [|s r IH]; simpl; [discriminate|].
  destruct s; simpl; try discriminate.
  destruct i; simpl.
  - intro H. now rewrite IH.
  - destruct (String.eqb md "typing") eqn:E; simpl.
    + intros _. rewrite E. reflexivity.
    + intro H. rewrite E. simpl. now apply IH.
  - intro H. rewrite IH; [apply orb_true_r | exact H].
Qed.

Lemma insert_after_block_ready m :
  existsb gives_tc (top_block (insert_after_block (SImp (IFrom "typing" [tc_name])) m)) = true.
Proof.
  induction m as [|s r IH]; simpl; [reflexivity|].
  destruct s; simpl; try reflexivity. rewrite IH. apply orb_true_r.
Qed.

Lemma add_tc_body_ready m : tc_ready_body (add_tc_body m) = true.
Proof.
  unfold add_tc_body. destruct (typing_star (top_block m) || typing_has_tc (top_block m)) eqn:E; [exact E|].
  rewrite ready_body_iff. destruct (typing_from (top_block m)) eqn:F.
  - now apply add_first_ready.
  - apply insert_after_block_ready.
Qed.

Lemma add_tc_ready m : tc_ready (add_tc m) = true.
Proof.
  unfold add_tc. destruct m as [|s r]; [reflexivity|].
  destruct s; try reflexivity.
  - simpl. apply add_tc_body_ready.
  - pose proof (add_tc_body_ready (SImp i :: r)) as H. destruct (add_tc_body (SImp i :: r)) as [|s' r'] eqn:E; [exact H|].
    destruct s'; try exact H.
    (* add_tc_body of a list that starts with an import starts with an import *)
    exfalso. unfold add_tc_body in E. destruct (_ || _); [discriminate|]. destruct (typing_from _).
    + simpl in E; destruct i; try discriminate; destruct (String.eqb md "typing"); discriminate.
    + simpl in E. discriminate.
Qed.

(* ---------------------------------------------------------------- removal keeps it (typing items are never moved) *)
Lemma rm_imp_gives moved i :
  (forall it, In it moved -> String.eqb (i_mod it) "typing" = false) ->
  gives_tc i = true -> exists i', rm_imp moved i = Some i' /\ gives_tc i' = true.
Proof.
  intros Hm H. destruct i as [ns | md ns | md]; simpl in H; [discriminate | | ].
  - apply andb_true_iff in H as [Hmd Hn]. apply String.eqb_eq in Hmd. subst md.
    simpl. apply existsb_exists in Hn as [n [Hn He]]. apply name_eqb_eq in He. subst n.
    assert (K : In tc_name (filter (keep_from moved "typing") ns)).
    { apply filter_In. split; [assumption|]. unfold keep_from. simpl.
      destruct (memb _ moved) eqn:E; [|reflexivity]. apply memb_In in E. apply Hm in E. discriminate. }
    destruct (filter (keep_from moved "typing") ns) eqn:F; [destruct K|].
    eexists. split; [reflexivity|]. unfold gives_tc. rewrite String.eqb_refl. cbn [andb].
    apply existsb_exists. exists tc_name. split; [exact K | now apply name_eqb_eq].
  - eexists. split; [reflexivity | exact H].
Qed.

Lemma remove_top_block moved m i i' :
  In i (top_block m) -> rm_imp moved i = Some i' -> In i' (top_block (remove moved m)).
Proof.
  induction m as [|s r IH]; simpl; [intros []|].
  destruct s; simpl; try (intros H; contradiction).
  intros [<- | Hin] E.
  - rewrite E. simpl. now left.
  - destruct (rm_imp moved i0); simpl; [right|]; now apply IH.
Qed.

Lemma remove_ready_body moved m :
  (forall it, In it moved -> String.eqb (i_mod it) "typing" = false) ->
  tc_ready_body m = true -> tc_ready_body (remove moved m) = true.
Proof.
  intros Hm H. rewrite ready_body_iff in *. apply existsb_exists in H as [i [Hi Hg]].
  destruct (rm_imp_gives moved i Hm Hg) as [i' [E Hg']].
  apply existsb_exists. exists i'. split; [|exact Hg']. eapply remove_top_block; eauto.
Qed.

Lemma remove_ready moved m :
  (forall it, In it moved -> String.eqb (i_mod it) "typing" = false) ->
  tc_ready m = true -> tc_ready (remove moved m) = true.
Proof.
  intros Hm H. destruct m as [|s r]; [exact H|].
  destruct s.
  - simpl in *. now apply remove_ready_body.
  - pose proof (remove_ready_body moved (SImp i :: r) Hm H) as X.
    destruct (remove moved (SImp i :: r)) as [|s' r'] eqn:E; [exact X|].
    destruct s'; try exact X.
    (* a docstring cannot come first after removal: then the leading block would be empty *)
    unfold tc_ready_body in X. simpl in X. discriminate.
  - unfold tc_ready, tc_ready_body in H. simpl in H. discriminate.
  - unfold tc_ready, tc_ready_body in H. simpl in H. discriminate.
  - unfold tc_ready, tc_ready_body in H. simpl in H. discriminate.
  - unfold tc_ready, tc_ready_body in H. simpl in H. discriminate.
Qed.

(* ---------------------------------------------------------------- the block goes after the leading imports *)
Lemma no_simp_top_block m : existsb is_simp m = false -> top_block m = [].
Proof. destruct m as [|s r]; [reflexivity|]. destruct s; simpl; try reflexivity. discriminate. Qed.

Lemma insert_go_top_block b m : top_block (insert_after_last_go (SIfTC b) m) = top_block m.
Proof.
  induction m as [|s r IH]; simpl; [reflexivity|].
  destruct (existsb is_simp r) eqn:E.
  - destruct s; simpl; try reflexivity. now rewrite IH.
  - destruct s; simpl; try reflexivity. now rewrite (no_simp_top_block r E).
Qed.

Lemma tc_ready_top m :
  tc_ready m = match m with
               | SDoc _ :: r => existsb gives_tc (top_block r)
               | _ => existsb gives_tc (top_block m)
               end.
Proof. unfold tc_ready. destruct m as [|s r]; [apply ready_body_iff|]. destruct s; apply ready_body_iff. Qed.

Lemma insert_block_ready moved m : tc_ready m = true -> tc_ready (insert_block moved m) = true.
Proof.
  intro H. unfold insert_block. destruct moved as [|it0 mv]; [exact H|].
  set (x := SIfTC (render (it0 :: mv))). unfold insert_after_last.
  destruct (existsb is_simp m) eqn:E.
  - destruct m as [|s r]; [discriminate|].
    pose proof (insert_go_top_block (render (it0 :: mv)) (s :: r)) as T. fold x in T.
    rewrite tc_ready_top in *. simpl insert_after_last_go in *.
    destruct (existsb is_simp r) eqn:E'.
    + destruct s; try exact (eq_trans (f_equal (existsb gives_tc) T) H).
      unfold x. now rewrite insert_go_top_block.
    + destruct s; try exact (eq_trans (f_equal (existsb gives_tc) T) H).
      rewrite (no_simp_top_block r E') in H. discriminate.
  - rewrite tc_ready_top in H. destruct m as [|s r]; [discriminate|].
    destruct s; simpl in E; simpl in H; try discriminate.
    rewrite (no_simp_top_block r E) in H. discriminate.
Qed.

Theorem confine_tc_ready moved applied :
  (forall it, In it moved -> String.eqb (i_mod it) "typing" = false) ->
  tc_ready (confine_with moved applied) = true.
Proof.
  intro Hm. unfold confine_with. apply insert_block_ready. apply remove_ready; [exact Hm|]. apply add_tc_ready.
Qed.

(* ---------------------------------------------------------------- ready implies bound before every block *)
Lemma gives_binds i : gives_tc i = true -> binds_tc i = true.
Proof.
  destruct i as [ns | md ns | md]; simpl; [discriminate | | ].
  - intro H. apply andb_true_iff in H as [_ H]. apply existsb_exists in H as [n [Hn He]].
    apply name_eqb_eq in He. subst n. unfold binds_tc. apply orb_true_iff. left. apply smemb_In. simpl.
    apply in_map_iff. exists tc_name. split; [reflexivity | exact Hn].
  - intro H. unfold binds_tc. simpl. exact H.
Qed.

Lemma tc_before_seen m : tc_before_go true m = true.
Proof. induction m as [|s r IH]; simpl; [reflexivity|]. destruct s; simpl; exact IH. Qed.

Lemma ready_body_before seen m : existsb gives_tc (top_block m) = true -> tc_before_go seen m = true.
Proof.
  revert seen. induction m as [|s r IH]; intro seen; simpl; [discriminate|].
  destruct s; simpl; try discriminate.
  destruct (gives_tc i) eqn:G; simpl.
  - intros _. rewrite (gives_binds i G), orb_true_r. apply tc_before_seen.
  - intro H. now apply IH.
Qed.

Theorem tc_ready_before m : tc_ready m = true -> tc_before m = true.
Proof.
  unfold tc_ready, tc_before. destruct m as [|s r]; [discriminate|].
  destruct s; rewrite ready_body_iff; intro H.
  - simpl. now apply ready_body_before.
  - now apply ready_body_before.
  - simpl in H. discriminate.
  - simpl in H. discriminate.
  - simpl in H. discriminate.
  - simpl in H. discriminate.
Qed.
