"""C02 — every completed call yields exactly one faithful call trace."""
from harness import common, tracer_cases

COQ_TARGETS = ["Check/TracerCases.vo"]
TRUSTED_BASE = [
    "CPython 3.12's delivery of profile events, f_lasti and the opcode there (wf_history / consistent): assumed, "
    "validated on every recorded stream by the Coq predicate env_ok",
    "get_func's lookup heuristics enter the model as a per-code oracle (what the real get_func answered at the first "
    "call event); attribution is checked against the program's own registry code -> function",
    "harness/extract_tracer.py (control-flow skeleton of tracing.py -> Gen/TracerConstants.v)",
    "the generated programs' self-recorded ground truth (harness/tracer_prog.py: R.enter / R.act)",
]
ASSUMPTIONS = ["get_type of the recorded values is the real get_type (C04 covers it); union_mk models typing.Union"]
PARTIAL = ["the theorems are about Model/Tracer.v; that CPython only produces well-formed, opcode-consistent histories is "
           "checked per recorded stream, not proved"]


def what_of(code, c):
    s = c["stats"]
    if code == 5:
        return ("exception thrown into a suspended generator (close/throw/drop): recorded as a yield of None, call "
                f"never logged, frame kept (program {c['prog']}, seed-derived)")
    if code == 7:
        return f"async generator traced with wrong yield type (program {c['prog']})"
    return (f"logged traces / residue differ from the ground truth of program {c['prog']} "
            f"(rate={s['rate']}, k={s['k']}, rejected={s['rejected']}); see term in the replay file")


def run(ctx):
    n = 640 if ctx.tier == "quick" else 6000
    cases = tracer_cases.collect(ctx, "c02", n, salt=2)
    bad = tracer_cases.evaluate(ctx, "c02", cases)
    failures, mismatches = tracer_cases.split_results(cases, bad, "C02", what_of)
    nontrivial = len({common.digest(c["term"]) for c in cases if c["stats"]["frames"] >= 5 and c["stats"]["logged"] >= 3})
    return {
        "evaluations": len(cases), "distinct_nontrivial": nontrivial,
        "rule": "generated programs (module functions with every parameter kind, instance/class/static methods, properties, "
                "inheritance with super(), closures, functools.wraps, recursion, a function named trace_types, generators "
                "interleaved and driven by next/send/close/throw/list/drop, delegating with `yield from`, coroutines that really suspend; exits by "
                "constant / expression / implicit None / exception caught or not) run under a recording profiler that "
                "forwards to the real CallTracer; non-trivial = >= 5 frames and >= 3 logged traces; distinct by hash",
        "samples": [{"program": c["prog"], "stats": c["stats"]} for c in cases[:3]],
        "distribution": tracer_cases.summarise(cases),
        "failures": failures, "mismatches": mismatches,
        "relation": "rev (logged (run rate H)) = real logger.log calls /\\ keys (live (run rate H)) = CallTracer.traces",
    }


def replay(ctx, payload):
    print(payload.get("what"))
    print(payload.get("term", "")[:4000])
    return 0


CLAIM = {
    "text": "Coq state-machine model of CallTracer (__call__/handle_call/handle_return; opcode tables, coroutine guard and "
            "guard order regenerated from tracing.py on every run) and theorems for every well-formed event history and any "
            "interleaving of frames: tracer_log_faithful (per call: exactly the trace the ground truth prescribes - function, "
            "argument types at the first call event, return type iff it returned, union of yields, awaits not counted), "
            "tracer_logs_at_most_once, tracer_no_residue, tracer_refines_monitor, tracer_log_append_only, tracer_log_in_completion_order (read oldest first the log IS the sequence of completion events of the history, each finished traceable call once with its faithful trace, in the order in which the calls finished), tracer_logs_each_frame_once, tracer_table_is_the_pending_frames, tracer_keeps_nothing_when_all_finished; the known defect "
            "class kf_raise_at_yield is refuted in Refuted/C02.v and excluded by wf_history. Tie: generated programs run "
            "under a recording profiler that forwards to the real CallTracer; verdicts (environment assumption, property "
            "against ground truth, model = implementation) evaluated in Coq.",
    "note": "Partial: CPython's event discipline is an assumption validated per run, not proved; get_func is an oracle. "
            "Trusted: Coq kernel + vm_compute, harness recorder and program generator, extract_tracer.py.",
    "technique": "Coq proof (invariant + per-frame projection over event histories) + source-regenerated constants + "
                 "vm_compute differential correspondence on recorded event streams",
    "ref": "4/C02",
}
