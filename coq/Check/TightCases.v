(* Check/TightCases.v — C05 verdict: tightness evaluated on the implementation's own output. *)
From MT Require Export InferCases Tight.

Definition verdict_c05 (c : icase) : nat :=
  if negb (forallb wf_valueb (ivs c)) then 3 else
  if negb (tightb (iimpl c) (ivs c)) then 2
  else match model_of c with
       | Some t => if corrb t (iimpl c) then 0 else 1
       | None => 1
       end.
