(* Model/Effects.v — C03: what the tracer does to the PROGRAM'S objects, and how failures and exits are handled.
   (1) a classification of the primitive operations that harness/extract_effects.py reads off the source on every
       run (Gen/EffectsConstants.v) into hook-free and hook-invoking;
   (2) the profiler callback's containment of failures (CallTracer.__call__);
   (3) the exit discipline of the tracing context (trace_calls' finally block, interpreted from the extracted tags).
   Executable definitions only. *)
From MT Require Export Types TracerConstants EffectsConstants.
Open Scope string_scope.
Open Scope list_scope.

Definition str_in (s : string) (l : list string) : bool := existsb (String.eqb s) l.

Fixpoint prefix (p s : string) : bool :=
  match p, s with
  | EmptyString, _ => true
  | String a p', String b s' => Ascii.eqb a b && prefix p' s'
  | _, _ => false
  end.

Fixpoint split_at (c : Ascii.ascii) (s : string) : string * option string :=
  match s with
  | EmptyString => (EmptyString, None)
  | String a r => if Ascii.eqb a c then (EmptyString, Some r)
                  else let '(h, t) := split_at c r in (String a h, t)
  end.

(* ---- (1) primitives ----
   A primitive (harness/extract_effects.py) says WHAT is applied to WHICH object, independently of the names of locals,
   of the function the statement lives in and of the order of statements:
     op     a statically resolved callee (builtin:type, import:inspect.getattr_static, func:shrink_types ...), ".m" (call
            of attribute m of `on`), "()" (call of `on`), "iter" (iteration of `on`), "truth" (`on` as a truth value)
     on     the origin of the object: param:obj, param:obj.f_globals, call(<callee>), elem(<iterated>), gen(<yielded>) ...
     arg    attribute name / class given to getattr / isinstance
     guard  "list" when the operation is only reached under `type(G) is list`, and gon = the origin of that G.
   The classification is an ASSUMPTION about CPython (validated, not proved, by the tripwire runs):
   - type(o), `is`, callable(o), issubclass between real type objects (results of type()): never run user code;
   - iteration / len / keys / values / items of an object whose EXACT type is a builtin container (the guard is on
     that very object: on = gon), and iteration of the views so obtained: the builtin's own slots run, never a
     subclass override;
   - all / tuple / shrink_types consume a generator expression of the tracer itself (gen(...)); iterating such a
     generator runs tracer code only, whose own primitives are in the list;
   - the truth value of the result of isinstance / issubclass / callable / all / len is that of a builtin bool / int;
   - inspect.getattr_static: designed not to trigger descriptors / __getattr__;  typing.cast returns its argument;
   - frame.f_globals / f_locals (of the frame and of its f_back chain) are real dicts;
   - isinstance(o, T): falls back to o.__class__ (attribute hook) when type(o) is not a subclass of T;
   - getattr(o, name, default): runs __getattribute__ / __getattr__ / descriptors of o;
   - bool(o) of anything else: __bool__ / __len__ of o. *)
Definition prim := (string * string * string * string * string)%type.
Definition p_op (p : prim) : string := let '(o, _, _, _, _) := p in o.
Definition p_on (p : prim) : string := let '(_, o, _, _, _) := p in o.

Definition exact_guards : list string := ["list"; "set"; "dict"; "defaultdict"; "tuple"].
Definition mapping_guards : list string := ["dict"; "defaultdict"].
Definition view_methods : list string := [".keys"; ".values"; ".items"].
Definition builtin_results : list string :=
  ["call(builtin:isinstance)"; "call(builtin:issubclass)"; "call(builtin:callable)"; "call(builtin:all)";
   "call(builtin:len)"].
Definition call_of (recv meth : string) : string := String.append "call(" (String.append recv (String.append meth ")")).
Definition view_of (gon on : string) : bool := existsb (fun m => String.eqb on (call_of gon m)) view_methods.
Definition real_type (on : string) : bool := String.eqb on "call(builtin:type)".

(* type collection: get_type and everything it walks through (get_dict_type, private helpers) *)
Definition hook_free_prim (p : prim) : bool :=
  let '(op, on, _, g, gon) := p in
  String.eqb op "builtin:type"
  || (String.eqb op "builtin:issubclass" && real_type on)
  || (str_in op ["builtin:all"; "builtin:tuple"; "func:shrink_types"] && prefix "gen(" on)
  || String.eqb op "func:get_type"                       (* the recursion: its own primitives are this very list *)
  || (String.eqb op "func:make_typed_dict" && String.eqb on "")
  || (str_in op ["iter"; "builtin:len"] && str_in g exact_guards && String.eqb on gon)
  || (str_in op view_methods && str_in g mapping_guards && String.eqb on gon)
  || (String.eqb op "iter" && str_in g mapping_guards && view_of gon on)
  || (String.eqb op "truth" && str_in on builtin_results).

(* function lookup: get_func and everything it walks through *)
Definition frames : list string := ["param:frame"; "param:frame.f_back"; "<loop>.f_back"].
Definition frame_dicts : list string :=
  flat_map (fun f => [String.append f ".f_globals"; String.append f ".f_locals"]) frames.
Definition hook_free_lookup (p : prim) : bool :=
  let '(op, on, _, _, _) := p in
  str_in op ["builtin:type"; "builtin:callable"; "import:inspect.getattr_static"; "import:typing.cast"]
  || (String.eqb op "builtin:issubclass" && real_type on)
  || (str_in op [".get"; ".values"] && str_in on frame_dicts)
  || (String.eqb op "iter" && (prefix "gen(" on || existsb (fun d => String.eqb on (call_of d ".values")) frame_dicts))
  || (String.eqb op "truth" && (str_in on builtin_results || String.eqb on "import:monkeytype.compat.cached_property")).

(* The hook-invoking primitives of function lookup that exist today (finding kf_lookup_getattr): the two getattr
   calls of _has_code (`__code__`, and `__wrapped__` to follow decorators), applied to every kind of lookup candidate,
   and the three isinstance tests of get_func_in_mro on the class attribute found by inspect.getattr_static. *)
Definition lookup_candidates : list string :=
  ["call(builtin:getattr)";                                   (* what a candidate's __wrapped__ led to *)
   "call(import:inspect.getattr_static).__func__";            (* classmethod / staticmethod found on the first argument / a global class *)
   "call(import:inspect.getattr_static).func";                (* cached_property *)
   "call(import:typing.cast)";                                (* the attribute itself, or a property's fget *)
   "call(param:frame.f_globals.get)";                         (* the module global named like the code object *)
   "elem(call(<loop>.f_back.f_locals.values))";               (* callable locals of the outer frames *)
   "elem(call(param:frame.f_back.f_locals.values))";
   "elem(call(param:frame.f_locals.values))"].
Definition known_hooking_sites : list prim :=
  flat_map (fun o => [("builtin:getattr", o, "'__code__'", "", ""); ("builtin:getattr", o, "'__wrapped__'", "", "")])
           lookup_candidates
  ++ map (fun c => ("builtin:isinstance", "call(import:inspect.getattr_static)", c, "", ""))
         ["(builtin:classmethod,builtin:staticmethod)"; "builtin:property"; "import:monkeytype.compat.cached_property"].

(* ---- (2) containment in the profiler callback ---- *)
Inductive exn := EExceptionSub | EBaseOnly.       (* an Exception subclass | KeyboardInterrupt/SystemExit/GeneratorExit *)
Inductive outcome := ONormal | ORaises (e : exn).

(* `try: handler except <tr_call_catches>: log` *)
Definition catches (cls : string) (e : exn) : bool :=
  match e with
  | EExceptionSub => String.eqb cls "Exception" || String.eqb cls "BaseException"
  | EBaseOnly => String.eqb cls "BaseException"
  end.
Definition callback (handler : outcome) : outcome :=
  match handler with
  | ONormal => ONormal
  | ORaises e => if catches tr_call_catches e then ONormal else ORaises e
  end.

(* ---- (3) the tracing context: trace_calls ---- *)
Record ctx := Ctx { profiler : nat; flushes : nat; pending : outcome }.   (* profiler ids: 0 = old, 1 = CallTracer *)

(* one statement of the finally block *)
Definition fin_step (flush_outcome : outcome) (tag : string) (c : ctx) : ctx * bool (* keep going? *) :=
  if String.eqb tag "restore" then (Ctx 0 (flushes c) (pending c), true)
  else if String.eqb tag "flush" then
    match flush_outcome with
    | ONormal => (Ctx (profiler c) (S (flushes c)) (pending c), true)
    | ORaises e => (Ctx (profiler c) (S (flushes c)) (ORaises e), false)      (* replaces the pending outcome *)
    end
  else match split_at ":"%char tag with
       | ("flush_contained", Some cls) =>
           match flush_outcome with
           | ONormal => (Ctx (profiler c) (S (flushes c)) (pending c), true)
           | ORaises e => if catches cls e then (Ctx (profiler c) (S (flushes c)) (pending c), true)
                          else (Ctx (profiler c) (S (flushes c)) (ORaises e), false)
           end
       | _ => (c, true)
       end.
Fixpoint run_finally (flush_outcome : outcome) (tags : list string) (c : ctx) : ctx :=
  match tags with
  | [] => c
  | t :: r => let '(c', go) := fin_step flush_outcome t c in if go then run_finally flush_outcome r c' else c'
  end.
(* with trace_calls(...): body   — profiler 1 is installed, the body ends with `body`, the finally block runs *)
Definition trace_calls_exit (body flush_outcome : outcome) : ctx :=
  run_finally flush_outcome tr_exit_finally (Ctx 1 0 body).
