(* Proofs/EncodeSort.v — facts about sort_kv (json.dumps' sort_keys on one object): it permutes,
   commutes with maps on the values, and the sorted form of a key-duplicate-free list is unique. *)
From MT Require Import Types TypesFacts Encode.
From Coq Require Import Lia Permutation.

Section Sort.
Context {A : Type}.

Lemma insert_kv_perm k (v : A) l : Permutation (insert_kv k v l) ((k, v) :: l).
Proof.
  induction l as [|kv r IH]; cbn [insert_kv]; [apply Permutation_refl|].
  destruct (String.leb k (fst kv)); [apply Permutation_refl|].
  eapply Permutation_trans; [apply perm_skip; exact IH|apply perm_swap].
Qed.

Lemma sort_kv_perm (l : list (string * A)) : Permutation (sort_kv l) l.
Proof.
  induction l as [|[k v] r IH]; cbn [sort_kv fst snd]; [constructor|].
  eapply Permutation_trans; [apply insert_kv_perm|]. apply perm_skip. exact IH.
Qed.

Lemma sort_kv_length (l : list (string * A)) : List.length (sort_kv l) = List.length l.
Proof. apply Permutation_length. apply sort_kv_perm. Qed.

Lemma sort_kv_keys_perm (l : list (string * A)) : Permutation (map fst (sort_kv l)) (map fst l).
Proof. apply Permutation_map. apply sort_kv_perm. Qed.

Lemma sort_kv_In x (l : list (string * A)) : In x (sort_kv l) <-> In x l.
Proof. split; apply Permutation_in; [|apply Permutation_sym]; apply sort_kv_perm. Qed.

Lemma sort_kv_Forall (P : string * A -> Prop) l : Forall P l -> Forall P (sort_kv l).
Proof. rewrite !Forall_forall. intros H x Hx. apply H. apply sort_kv_In. exact Hx. Qed.
End Sort.

(* sorting looks at keys only, so it commutes with any map on the values *)
Lemma insert_kv_map {A B} (g : A -> B) k v (l : list (string * A)) :
  insert_kv k (g v) (map (fun f => (fst f, g (snd f))) l) = map (fun f => (fst f, g (snd f))) (insert_kv k v l).
Proof.
  induction l as [|kv r IH]; cbn [insert_kv map fst snd]; [reflexivity|].
  destruct (String.leb k (fst kv)); cbn [map fst snd]; [reflexivity|]. rewrite IH. reflexivity.
Qed.

Lemma sort_kv_map {A B} (g : A -> B) (l : list (string * A)) :
  sort_kv (map (fun f => (fst f, g (snd f))) l) = map (fun f => (fst f, g (snd f))) (sort_kv l).
Proof.
  induction l as [|kv r IH]; cbn [sort_kv map fst snd]; [reflexivity|].
  rewrite IH. apply insert_kv_map.
Qed.

(* ---------- nodup_strb <-> NoDup ---------- *)
Lemma nodup_strb_NoDup l : nodup_strb l = true <-> NoDup l.
Proof.
  induction l as [|s r IH]; cbn [nodup_strb]; split; intros H; try constructor; try reflexivity.
  - apply andb_prop in H. destruct H as [H1 H2]. intros Hin.
    apply negb_true_iff in H1. assert (E : existsb (String.eqb s) r = true).
    { apply existsb_exists. exists s. split; [exact Hin|apply String.eqb_refl]. }
    congruence.
  - apply IH. apply andb_prop in H. apply H.
  - inversion H as [|? ? Hn Hr]; subst. apply andb_true_intro. split; [|apply IH; exact Hr].
    apply negb_true_iff. destruct (existsb (String.eqb s) r) eqn:E; [|reflexivity].
    apply existsb_exists in E. destruct E as [x [Hx E]]. apply String.eqb_eq in E. subst. contradiction.
Qed.

Lemma nodup_strb_perm l l' : Permutation l l' -> nodup_strb l = true -> nodup_strb l' = true.
Proof. intros P H. apply nodup_strb_NoDup. eapply Permutation_NoDup; [exact P|]. apply nodup_strb_NoDup. exact H. Qed.

(* ---------- the order on keys ---------- *)
Lemma ascii_compare_lt_trans a b c :
  Ascii.compare a b = Lt -> Ascii.compare b c = Lt -> Ascii.compare a c = Lt.
Proof. unfold Ascii.compare. rewrite !N.compare_lt_iff. apply N.lt_trans. Qed.

Lemma ascii_compare_refl a : Ascii.compare a a = Eq.
Proof. unfold Ascii.compare. apply N.compare_refl. Qed.

Lemma string_compare_lt_trans : forall a b c,
  String.compare a b = Lt -> String.compare b c = Lt -> String.compare a c = Lt.
Proof.
  induction a as [|x a IH]; intros [|y b] [|z c]; cbn [String.compare]; intros H1 H2;
    try discriminate; try reflexivity.
  destruct (Ascii.compare x y) eqn:Exy; try discriminate H1.
  - apply Ascii.compare_eq_iff in Exy. subst y.
    destruct (Ascii.compare x z) eqn:Exz; try discriminate H2; [|reflexivity].
    eapply IH; eassumption.
  - destruct (Ascii.compare y z) eqn:Eyz; try discriminate H2.
    + apply Ascii.compare_eq_iff in Eyz. subst z. rewrite Exy. reflexivity.
    + rewrite (ascii_compare_lt_trans _ _ _ Exy Eyz). reflexivity.
Qed.

Lemma string_compare_refl a : String.compare a a = Eq.
Proof. induction a as [|x a IH]; cbn [String.compare]; [reflexivity|]. rewrite ascii_compare_refl. exact IH. Qed.

Lemma leb_lt_or_eq a b : String.leb a b = true -> String.compare a b = Lt \/ a = b.
Proof.
  unfold String.leb. destruct (String.compare a b) eqn:E; intros H; try discriminate.
  - right. apply String.compare_eq_iff. exact E.
  - left. reflexivity.
Qed.

Lemma leb_trans a b c : String.leb a b = true -> String.leb b c = true -> String.leb a c = true.
Proof.
  intros H1 H2. destruct (leb_lt_or_eq _ _ H1) as [L1| ->]; [|exact H2].
  destruct (leb_lt_or_eq _ _ H2) as [L2| ->]; [|exact H1].
  unfold String.leb. rewrite (string_compare_lt_trans _ _ _ L1 L2). reflexivity.
Qed.

Lemma leb_refl a : String.leb a a = true.
Proof. unfold String.leb. rewrite string_compare_refl. reflexivity. Qed.

(* ---------- sorted lists ---------- *)
Section Sorted.
Context {A : Type}.

Fixpoint sorted (l : list (string * A)) : Prop :=
  match l with
  | [] => True
  | kv :: r => Forall (fun x => String.leb (fst kv) (fst x) = true) r /\ sorted r
  end.

Lemma insert_kv_sorted k (v : A) l : sorted l -> sorted (insert_kv k v l).
Proof.
  induction l as [|kv r IH]; cbn [insert_kv sorted]; intros H.
  - split; [constructor|exact I].
  - destruct H as [H1 H2]. destruct (String.leb k (fst kv)) eqn:E; cbn [sorted fst].
    + split; [|split; assumption]. constructor; [exact E|].
      rewrite Forall_forall in H1 |- *. intros x Hx. eapply leb_trans; [exact E|apply H1; exact Hx].
    + split; [|apply IH; exact H2].
      assert (E' : String.leb (fst kv) k = true).
      { destruct (String.leb_total k (fst kv)) as [T|T]; [congruence|exact T]. }
      rewrite Forall_forall in H1 |- *. intros x Hx.
      apply (Permutation_in _ (insert_kv_perm k v r)) in Hx. destruct Hx as [<- |Hx]; [exact E'|apply H1; exact Hx].
Qed.

Lemma sort_kv_sorted (l : list (string * A)) : sorted (sort_kv l).
Proof. induction l as [|kv r IH]; cbn [sort_kv]; [exact I|]. apply insert_kv_sorted. exact IH. Qed.

(* two sorted lists with the same elements and pairwise distinct keys are the same list *)
Lemma sorted_perm_eq : forall (l l' : list (string * A)),
  sorted l -> sorted l' -> NoDup (map fst l) -> Permutation l l' -> l = l'.
Proof.
  induction l as [|x r IH]; intros l' S S' ND P.
  - apply Permutation_nil in P. subst. reflexivity.
  - destruct l' as [|y r']; [apply Permutation_sym, Permutation_nil in P; discriminate P|].
    cbn [sorted] in S, S'. destruct S as [Sx Sr], S' as [Sy Sr'].
    cbn [map] in ND. inversion ND as [|? ? Hn ND']; subst.
    assert (Exy : x = y).
    { assert (Hx : In x (y :: r')) by (eapply Permutation_in; [exact P|left; reflexivity]).
      assert (Hy : In y (x :: r)) by (eapply Permutation_in; [apply Permutation_sym; exact P|left; reflexivity]).
      destruct Hx as [-> |Hx]; [reflexivity|]. destruct Hy as [-> |Hy]; [reflexivity|].
      rewrite Forall_forall in Sx, Sy. pose proof (Sx _ Hy) as L1. pose proof (Sy _ Hx) as L2.
      pose proof (String.leb_antisym _ _ L1 L2) as Ek.
      exfalso. apply Hn. rewrite Ek. apply in_map. exact Hy. }
    subst y. f_equal. apply IH; try assumption. eapply Permutation_cons_inv. exact P.
Qed.

Lemma sort_kv_unique (l l' : list (string * A)) :
  NoDup (map fst l) -> Permutation l l' -> sort_kv l = sort_kv l'.
Proof.
  intros ND P. apply sorted_perm_eq; try apply sort_kv_sorted.
  - eapply Permutation_NoDup; [apply Permutation_sym; apply sort_kv_keys_perm|exact ND].
  - eapply Permutation_trans; [apply sort_kv_perm|]. eapply Permutation_trans; [exact P|].
    apply Permutation_sym. apply sort_kv_perm.
Qed.
End Sorted.
