(* Proofs/StubSetEquiv.v — C14: two types equal "up to union order / duplication / TypedDict field order"
   (equivb) admit exactly the same values; equivb is reflexive. *)
From MT Require Import Types StubSet TypesFacts.
From Coq Require Import Lia.

(* ---------- unfolding lemmas for equivb ---------- *)
Definition fsubE (xs ys : list (string * ty)) : bool :=
  forallb (fun f => match lookup_f (fst f) ys with Some y => equivb (snd f) y | None => false end) xs.

Lemma equivb_TTuple xs ys : equivb (TTuple xs) (TTuple ys) = forallb2 equivb xs ys.
Proof.
  cbn [equivb]. revert ys. induction xs as [|x r IH]; intros [|y ys]; try reflexivity.
  cbn [forallb2]. rewrite <- IH. reflexivity.
Qed.

Lemma equivb_TUnion xs ys :
  equivb (TUnion xs) (TUnion ys) =
  forallb (fun x => existsb (equivb x) ys) xs && forallb (fun y => existsb (fun x => equivb x y) xs) ys.
Proof.
  reflexivity.
Qed.

Lemma equivb_TTypedDict r o r' o' :
  equivb (TTypedDict r o) (TTypedDict r' o') =
  Nat.eqb (List.length r) (List.length r') && fsubE r r'
  && Nat.eqb (List.length o) (List.length o') && fsubE o o'.
Proof.
  cbn [equivb]. unfold fsubE.
  assert (E : forall xs ys,
    (fix fsub (xs0 ys0 : list (string * ty)) {struct xs0} : bool :=
       match xs0 with
       | [] => true
       | f :: xs' => match lookup_f (fst f) ys0 with Some y => equivb (snd f) y | None => false end && fsub xs' ys0
       end) xs ys
    = forallb (fun f => match lookup_f (fst f) ys with Some y => equivb (snd f) y | None => false end) xs).
  { induction xs as [|x xs IH]; intros ys; [reflexivity|]. cbn [forallb]. rewrite <- IH. reflexivity. }
  rewrite !E. reflexivity.
Qed.

Lemma fsubE_keys xs ys : fsubE xs ys = true -> incl (map fst xs) (map fst ys).
Proof.
  unfold fsubE. rewrite forallb_forall. intros H s Hs.
  apply in_map_iff in Hs. destruct Hs as [f [<- Hf]]. specialize (H f Hf).
  destruct (lookup_f (fst f) ys) eqn:E; [|discriminate]. eapply lookup_f_Some_key. exact E.
Qed.

(* ---------- reflexivity ---------- *)
Lemma equivb_refl t : wf_ty t -> equivb t t = true.
Proof.
  induction t as [ | c | x IH | | x IH | x IH | x IH | k v0 IHk IHv | k v0 IHk IHv | xs IH | x IH
                 | a1 a2 a3 IH1 IH2 IH3 | xs IH | r o IHr IHo | s ] using ty_ind';
    intros W; cbn [equivb]; try reflexivity; try (apply IH; exact W).
  - apply N.eqb_refl.
  - cbn [wf_ty] in W. destruct W. rewrite IHk, IHv by assumption. reflexivity.
  - cbn [wf_ty] in W. destruct W. rewrite IHk, IHv by assumption. reflexivity.
  - change (equivb (TTuple xs) (TTuple xs) = true). rewrite equivb_TTuple.
    apply wf_TTuple in W. induction xs as [|x xs IHxs]; [reflexivity|].
    inversion IH; subst. inversion W; subst. cbn [forallb2]. apply andb_true_intro. split; auto.
  - cbn [wf_ty] in W. destruct W as [? [? ?]]. rewrite IH1, IH2, IH3 by assumption. reflexivity.
  - change (equivb (TUnion xs) (TUnion xs) = true). rewrite equivb_TUnion.
    apply wf_TUnion in W. rewrite Forall_forall in IH, W.
    apply andb_true_intro; split; apply forallb_forall; intros x Hx; apply existsb_exists; exists x; auto.
  - change (equivb (TTypedDict r o) (TTypedDict r o) = true). rewrite equivb_TTypedDict.
    apply wf_TTypedDict in W. destruct W as [ND [Wr Wo]].
    rewrite !Nat.eqb_refl. cbn [andb]. rewrite andb_true_r.
    rewrite Forall_forall in IHr, IHo, Wr, Wo.
    apply andb_true_intro; split; unfold fsubE; apply forallb_forall; intros [s ft] Hf; cbn [fst snd].
    + rewrite (lookup_f_NoDup s ft r); [|eapply NoDup_app_l; exact ND|exact Hf].
      apply (IHr _ Hf). apply (Wr _ Hf).
    + rewrite (lookup_f_NoDup s ft o); [|eapply NoDup_app_r; exact ND|exact Hf].
      apply (IHo _ Hf). apply (Wo _ Hf).
  - apply String.eqb_refl.
Qed.

(* ---------- equivb is symmetric and transitive on well-formed types ---------- *)
Lemma keys_back (r r' : list (string * ty)) :
  NoDup (map fst r) -> List.length r = List.length r' -> incl (map fst r) (map fst r') ->
  incl (map fst r') (map fst r).
Proof.
  intros ND L I. apply NoDup_length_incl; [exact ND| |exact I]. rewrite !map_length. lia.
Qed.

Lemma forallb2_sym_in (xs : list ty) : forall ys,
  Forall (fun x => forall b, wf_ty x -> wf_ty b -> equivb x b = true -> equivb b x = true) xs ->
  Forall wf_ty xs -> Forall wf_ty ys -> forallb2 equivb xs ys = true -> forallb2 equivb ys xs = true.
Proof.
  induction xs as [|x xs IHxs]; intros [|y ys] IH Wa Wb E; cbn [forallb2] in *; try discriminate E; [reflexivity|].
  apply andb_prop in E. destruct E as [E1 E2].
  inversion IH; subst. inversion Wa; subst. inversion Wb; subst.
  apply andb_true_intro; split; auto.
Qed.

Lemma fsubE_sym r r' :
  Forall (fun f => forall b, wf_ty (snd f) -> wf_ty b -> equivb (snd f) b = true -> equivb b (snd f) = true) r ->
  NoDup (map fst r) -> NoDup (map fst r') -> List.length r = List.length r' ->
  Forall (fun f => wf_ty (snd f)) r -> Forall (fun f => wf_ty (snd f)) r' ->
  fsubE r r' = true -> fsubE r' r = true.
Proof.
  intros IH ND ND' L W W' E.
  pose proof (keys_back _ _ ND L (fsubE_keys _ _ E)) as I'.
  unfold fsubE in *. rewrite forallb_forall in E. rewrite Forall_forall in IH, W, W'.
  apply forallb_forall. intros [s ft'] Hf'. cbn [fst snd].
  assert (Hk : In s (map fst r)) by (apply I'; apply (in_map fst) in Hf'; exact Hf').
  apply in_map_iff in Hk. destruct Hk as [[s0 ft] [Es Hf]]. cbn [fst] in Es. subst s0.
  rewrite (lookup_f_NoDup s ft r ND Hf).
  pose proof (E _ Hf) as E1. cbn [fst snd] in E1.
  rewrite (lookup_f_NoDup s ft' r' ND' Hf') in E1.
  apply (IH _ Hf); cbn [snd]; [apply (W _ Hf)|apply (W' _ Hf')|exact E1].
Qed.

Lemma equivb_sym a : forall b, wf_ty a -> wf_ty b -> equivb a b = true -> equivb b a = true.
Proof.
  induction a as [ | c | x IH | | x IH | x IH | x IH | k v0 IHk IHv | k v0 IHk IHv | xs IH | x IH
                 | a1 a2 a3 IH1 IH2 IH3 | xs IH | r o IHr IHo | s ] using ty_ind';
    intros b Wa Wb E; destruct b; cbn [equivb] in E; try discriminate E; cbn [equivb]; try reflexivity;
    try (apply IH; assumption).
  - rewrite N.eqb_sym. exact E.
  - cbn [wf_ty] in *. destruct Wa, Wb. apply andb_prop in E. destruct E.
    rewrite IHk, IHv by assumption. reflexivity.
  - cbn [wf_ty] in *. destruct Wa, Wb. apply andb_prop in E. destruct E.
    rewrite IHk, IHv by assumption. reflexivity.
  - change (equivb (TTuple xs) (TTuple ts) = true) in E. change (equivb (TTuple ts) (TTuple xs) = true).
    rewrite equivb_TTuple in *. apply wf_TTuple in Wa. apply wf_TTuple in Wb.
    apply forallb2_sym_in; assumption.
  - cbn [wf_ty] in *. destruct Wa as [? [? ?]], Wb as [? [? ?]].
    apply andb_prop in E. destruct E as [E E3]. apply andb_prop in E. destruct E as [E1 E2].
    rewrite IH1, IH2, IH3 by assumption. reflexivity.
  - change (equivb (TUnion xs) (TUnion ts) = true) in E. change (equivb (TUnion ts) (TUnion xs) = true).
    rewrite equivb_TUnion in *. apply wf_TUnion in Wa. apply wf_TUnion in Wb.
    apply andb_prop in E. destruct E as [E1 E2]. rewrite forallb_forall in E1, E2.
    rewrite Forall_forall in IH, Wa, Wb.
    apply andb_true_intro; split; apply forallb_forall; intros z Hz; apply existsb_exists.
    + specialize (E2 z Hz). apply existsb_exists in E2. destruct E2 as [x [Hx Exz]].
      exists x. split; [exact Hx|]. apply (IH x Hx); auto.
    + specialize (E1 z Hz). apply existsb_exists in E1. destruct E1 as [y [Hy Ezy]].
      exists y. split; [exact Hy|]. apply (IH z Hz); auto.
  - change (equivb (TTypedDict r o) (TTypedDict req opt) = true) in E.
    change (equivb (TTypedDict req opt) (TTypedDict r o) = true).
    rewrite equivb_TTypedDict in *.
    apply wf_TTypedDict in Wa. apply wf_TTypedDict in Wb.
    destruct Wa as [NDa [Wr Wo]], Wb as [NDb [Wr' Wo']].
    apply andb_prop in E. destruct E as [E Eo]. apply andb_prop in E. destruct E as [E Elo].
    apply andb_prop in E. destruct E as [Elr Er]. apply Nat.eqb_eq in Elr, Elo.
    rewrite <- Elr, <- Elo, !Nat.eqb_refl. cbn [andb]. rewrite andb_true_r.
    apply andb_true_intro; split.
    + apply fsubE_sym; try assumption; [eapply NoDup_app_l; exact NDa|eapply NoDup_app_l; exact NDb].
    + apply fsubE_sym; try assumption; [eapply NoDup_app_r; exact NDa|eapply NoDup_app_r; exact NDb].
  - rewrite String_eqb_sym. exact E.
Qed.

Lemma forallb2_trans_in (xs : list ty) : forall ys zs,
  Forall (fun x => forall b c, wf_ty x -> wf_ty b -> wf_ty c ->
                               equivb x b = true -> equivb b c = true -> equivb x c = true) xs ->
  Forall wf_ty xs -> Forall wf_ty ys -> Forall wf_ty zs ->
  forallb2 equivb xs ys = true -> forallb2 equivb ys zs = true -> forallb2 equivb xs zs = true.
Proof.
  induction xs as [|x xs IHxs]; intros [|y ys] [|z zs] IH Wa Wb Wc E1 E2; cbn [forallb2] in *;
    try discriminate E1; try discriminate E2; [reflexivity|].
  apply andb_prop in E1. destruct E1 as [E1 E1']. apply andb_prop in E2. destruct E2 as [E2 E2'].
  inversion IH as [|? ? IHx IHr]; subst. inversion Wa; subst. inversion Wb; subst. inversion Wc; subst.
  apply andb_true_intro; split; [apply (IHx y z); assumption|apply (IHxs ys zs); assumption].
Qed.

Lemma fsubE_trans r r' r'' :
  Forall (fun f => forall b c, wf_ty (snd f) -> wf_ty b -> wf_ty c ->
                               equivb (snd f) b = true -> equivb b c = true -> equivb (snd f) c = true) r ->
  Forall (fun f => wf_ty (snd f)) r -> Forall (fun f => wf_ty (snd f)) r' -> Forall (fun f => wf_ty (snd f)) r'' ->
  fsubE r r' = true -> fsubE r' r'' = true -> fsubE r r'' = true.
Proof.
  intros IH W W' W'' E1 E2. unfold fsubE in *. rewrite forallb_forall in E1, E2.
  rewrite Forall_forall in IH, W, W', W''.
  apply forallb_forall. intros [s ft] Hf. cbn [fst snd].
  pose proof (E1 _ Hf) as A. cbn [fst snd] in A.
  destruct (lookup_f s r') as [ft'|] eqn:L'; [|discriminate A].
  pose proof (lookup_f_In _ _ _ L') as Hf'.
  pose proof (E2 _ Hf') as B. cbn [fst snd] in B.
  destruct (lookup_f s r'') as [ft''|] eqn:L''; [|discriminate B].
  pose proof (lookup_f_In _ _ _ L'') as Hf''.
  apply (IH _ Hf ft' ft''); cbn [snd]; [apply (W _ Hf)|apply (W' _ Hf')|apply (W'' _ Hf'')|exact A|exact B].
Qed.

Lemma equivb_trans a : forall b c, wf_ty a -> wf_ty b -> wf_ty c ->
  equivb a b = true -> equivb b c = true -> equivb a c = true.
Proof.
  induction a as [ | c0 | x IH | | x IH | x IH | x IH | k v0 IHk IHv | k v0 IHk IHv | xs IH | x IH
                 | a1 a2 a3 IH1 IH2 IH3 | xs IH | r o IHr IHo | s ] using ty_ind';
    intros b c Wa Wb Wc E1 E2; destruct b; cbn [equivb] in E1; try discriminate E1;
    destruct c; cbn [equivb] in E2; try discriminate E2; cbn [equivb]; try reflexivity;
    try (apply (IH b c); assumption).
  - apply N.eqb_eq in E1, E2. subst. apply N.eqb_refl.
  - cbn [wf_ty] in *. destruct Wa, Wb, Wc. apply andb_prop in E1, E2. destruct E1, E2.
    apply andb_true_intro; split; [apply (IHk b1 c1)|apply (IHv b2 c2)]; assumption.
  - cbn [wf_ty] in *. destruct Wa, Wb, Wc. apply andb_prop in E1, E2. destruct E1, E2.
    apply andb_true_intro; split; [apply (IHk b1 c1)|apply (IHv b2 c2)]; assumption.
  - change (equivb (TTuple xs) (TTuple ts) = true) in E1. change (equivb (TTuple ts) (TTuple ts0) = true) in E2.
    change (equivb (TTuple xs) (TTuple ts0) = true).
    rewrite equivb_TTuple in *. apply wf_TTuple in Wa. apply wf_TTuple in Wb. apply wf_TTuple in Wc.
    apply (forallb2_trans_in xs ts ts0); assumption.
  - cbn [wf_ty] in *. destruct Wa as [? [? ?]], Wb as [? [? ?]], Wc as [? [? ?]].
    apply andb_prop in E1. destruct E1 as [E1 E13]. apply andb_prop in E1. destruct E1 as [E11 E12].
    apply andb_prop in E2. destruct E2 as [E2 E23]. apply andb_prop in E2. destruct E2 as [E21 E22].
    apply andb_true_intro; split; [apply andb_true_intro; split|]; [apply (IH1 b1 c1)|apply (IH2 b2 c2)|apply (IH3 b3 c3)]; assumption.
  - change (equivb (TUnion xs) (TUnion ts) = true) in E1. change (equivb (TUnion ts) (TUnion ts0) = true) in E2.
    change (equivb (TUnion xs) (TUnion ts0) = true).
    rewrite equivb_TUnion in *. apply wf_TUnion in Wa. apply wf_TUnion in Wb. apply wf_TUnion in Wc.
    apply andb_prop in E1. destruct E1 as [A1 A2]. apply andb_prop in E2. destruct E2 as [B1 B2].
    rewrite forallb_forall in A1, A2, B1, B2. rewrite Forall_forall in IH, Wa, Wb, Wc.
    apply andb_true_intro; split; apply forallb_forall; intros u Hu; apply existsb_exists.
    + specialize (A1 u Hu). apply existsb_exists in A1. destruct A1 as [y [Hy Euy]].
      specialize (B1 y Hy). apply existsb_exists in B1. destruct B1 as [z [Hz Eyz]].
      exists z. split; [exact Hz|]. apply (IH u Hu y z); auto.
    + specialize (B2 u Hu). apply existsb_exists in B2. destruct B2 as [y [Hy Eyu]].
      specialize (A2 y Hy). apply existsb_exists in A2. destruct A2 as [x [Hx Exy]].
      exists x. split; [exact Hx|]. apply (IH x Hx y u); auto.
  - change (equivb (TTypedDict r o) (TTypedDict req opt) = true) in E1.
    change (equivb (TTypedDict req opt) (TTypedDict req0 opt0) = true) in E2.
    change (equivb (TTypedDict r o) (TTypedDict req0 opt0) = true).
    rewrite equivb_TTypedDict in *.
    apply wf_TTypedDict in Wa. apply wf_TTypedDict in Wb. apply wf_TTypedDict in Wc.
    destruct Wa as [NDa [Wr Wo]], Wb as [NDb [Wr' Wo']], Wc as [NDc [Wr'' Wo'']].
    apply andb_prop in E1. destruct E1 as [E1 Eo1]. apply andb_prop in E1. destruct E1 as [E1 Elo1].
    apply andb_prop in E1. destruct E1 as [Elr1 Er1]. apply Nat.eqb_eq in Elr1, Elo1.
    apply andb_prop in E2. destruct E2 as [E2 Eo2]. apply andb_prop in E2. destruct E2 as [E2 Elo2].
    apply andb_prop in E2. destruct E2 as [Elr2 Er2]. apply Nat.eqb_eq in Elr2, Elo2.
    rewrite Elr1, Elr2, Elo1, Elo2, !Nat.eqb_refl. cbn [andb]. rewrite andb_true_r.
    apply andb_true_intro; split; [apply (fsubE_trans r req req0)|apply (fsubE_trans o opt opt0)]; assumption.
  - apply String.eqb_eq in E1, E2. subst. apply String.eqb_refl.
Qed.

(* ---------- equivb implies the same members, at every position ---------- *)
Section EquivMember.
Variable anyb : bool.
Variable sub : cls -> cls -> bool.
Notation mem := (member anyb sub).

Lemma forallb_eq_in {A} (f g : A -> bool) l : (forall x, In x l -> f x = g x) -> forallb f l = forallb g l.
Proof. induction l as [|x r IH]; intros H; [reflexivity|]. cbn [forallb].
  rewrite (H x (or_introl eq_refl)), IH; [reflexivity|]. intros y Hy. apply H. right. exact Hy. Qed.

Lemma bool_eq_iff (a b : bool) : (a = true -> b = true) -> (b = true -> a = true) -> a = b.
Proof. destruct a, b; intros H1 H2; try reflexivity; [symmetry; apply H1|apply H2]; reflexivity. Qed.

Lemma member_equivb_aux a : forall b v,
  wf_ty a -> wf_ty b -> equivb a b = true -> mem v a = mem v b.
Proof.
  induction a as [ | c | x IH | | x IH | x IH | x IH | k v0 IHk IHv | k v0 IHk IHv | xs IH | x IH
                 | a1 a2 a3 IH1 IH2 IH3 | xs IH | r o IHr IHo | s ] using ty_ind';
    intros b v Wa Wb E; destruct b; cbn [equivb] in E; try discriminate E; try reflexivity.
  - (* TCls *) apply N.eqb_eq in E. subst. reflexivity.
  - (* TType *) cbn [member]. destruct v; try reflexivity.
    destruct x, b; cbn [equivb] in E; try discriminate E; try reflexivity.
    apply N.eqb_eq in E. subst. reflexivity.
  - (* TList *) cbn [member wf_ty] in *. destruct v; try reflexivity.
    apply forallb_ext'. intros e. apply IH; assumption.
  - (* TSet *) cbn [member wf_ty] in *. destruct v; try reflexivity.
    apply forallb_ext'. intros e. apply IH; assumption.
  - (* TDict *) cbn [member wf_ty] in *. destruct Wa as [Wa1 Wa2], Wb as [Wb1 Wb2].
    apply andb_prop in E. destruct E as [E1 E2].
    destruct v; try reflexivity; apply forallb_ext'; intros kv;
      rewrite (IHk b1 (fst kv)), (IHv b2 (snd kv)) by assumption; reflexivity.
  - (* TDefaultDict *) cbn [member wf_ty] in *. destruct Wa as [Wa1 Wa2], Wb as [Wb1 Wb2].
    apply andb_prop in E. destruct E as [E1 E2].
    destruct v; try reflexivity; apply forallb_ext'; intros kv;
      rewrite (IHk b1 (fst kv)), (IHv b2 (snd kv)) by assumption; reflexivity.
  - (* TTuple *) change (equivb (TTuple xs) (TTuple ts) = true) in E. rewrite equivb_TTuple in E.
    apply wf_TTuple in Wa. apply wf_TTuple in Wb.
    destruct v; try reflexivity. rewrite !member_TTuple.
    revert ts es Wb E. induction xs as [|x xs IHxs]; intros [|y ys] es Wb E; cbn [forallb2] in E; try discriminate E.
    + reflexivity.
    + destruct es as [|e es]; [reflexivity|].
      apply andb_prop in E. destruct E as [E1 E2].
      inversion IH as [|? ? IHx IHxs']; subst. inversion Wa; subst. inversion Wb; subst.
      rewrite (IHx y e) by assumption. f_equal. apply IHxs; assumption.
  - (* TTupleVar *) cbn [member wf_ty] in *. destruct v; try reflexivity.
    apply forallb_ext'. intros e. apply IH; assumption.
  - (* TUnion *) change (equivb (TUnion xs) (TUnion ts) = true) in E. rewrite equivb_TUnion in E.
    apply wf_TUnion in Wa. apply wf_TUnion in Wb.
    rewrite !member_TUnion. apply andb_prop in E. destruct E as [E1 E2].
    rewrite forallb_forall in E1, E2. rewrite Forall_forall in IH, Wa, Wb.
    apply bool_eq_iff; intros M; apply existsb_exists in M; destruct M as [z [Hz Mz]]; apply existsb_exists.
    + specialize (E1 z Hz). apply existsb_exists in E1. destruct E1 as [y [Hy Ezy]].
      exists y. split; [exact Hy|]. rewrite <- (IH z Hz y v); auto.
    + specialize (E2 z Hz). apply existsb_exists in E2. destruct E2 as [x [Hx Exz]].
      exists x. split; [exact Hx|]. rewrite (IH x Hx z v); auto.
  - (* TTypedDict *)
    change (equivb (TTypedDict r o) (TTypedDict req opt) = true) in E. rewrite equivb_TTypedDict in E.
    apply wf_TTypedDict in Wa. apply wf_TTypedDict in Wb.
    destruct Wa as [NDa [Wr Wo]], Wb as [NDb [Wr' Wo']].
    apply andb_prop in E. destruct E as [E Eo]. apply andb_prop in E. destruct E as [E Elo].
    apply andb_prop in E. destruct E as [Elr Er]. apply Nat.eqb_eq in Elr, Elo.
    pose proof (fsubE_keys _ _ Er) as Ir. pose proof (fsubE_keys _ _ Eo) as Io.
    pose proof (keys_back _ _ (NoDup_app_l _ _ NDa) Elr Ir) as Ir'.
    pose proof (keys_back _ _ (NoDup_app_r _ _ NDa) Elo Io) as Io'.
    rewrite !member_TTypedDict. destruct v; try reflexivity.
    rewrite Forall_forall in IHr, IHo, Wr, Wo, Wr', Wo'.
    unfold fsubE in Er, Eo. rewrite forallb_forall in Er, Eo.
    f_equal.
    + (* every item admitted: each key resolves to equivalent field types *)
      apply forallb_ext'. intros [kk vv]. cbn [fst snd]. destruct kk; try reflexivity.
      unfold field_ty.
      destruct (lookup_f s r) as [ft|] eqn:Lr.
      * pose proof (lookup_f_In _ _ _ Lr) as Hin. pose proof (Er _ Hin) as Er1. cbn [fst snd] in Er1.
        destruct (lookup_f s req) as [ft'|] eqn:Lr'; [|discriminate Er1].
        apply (IHr _ Hin); cbn [snd]; auto.
        { apply (Wr _ Hin). } { apply (Wr' (s, ft')). apply lookup_f_In. exact Lr'. }
      * assert (Lr' : lookup_f s req = None).
        { apply lookup_f_None. intros Hc. apply Ir' in Hc. apply lookup_f_None in Lr. apply Lr. exact Hc. }
        rewrite Lr'.
        destruct (lookup_f s o) as [ft|] eqn:Lo.
        -- pose proof (lookup_f_In _ _ _ Lo) as Hin. pose proof (Eo _ Hin) as Eo1. cbn [fst snd] in Eo1.
           destruct (lookup_f s opt) as [ft'|] eqn:Lo'; [|discriminate Eo1].
           apply (IHo _ Hin); cbn [snd]; auto.
           { apply (Wo _ Hin). } { apply (Wo' (s, ft')). apply lookup_f_In. exact Lo'. }
        -- assert (Lo' : lookup_f s opt = None).
           { apply lookup_f_None. intros Hc. apply Io' in Hc. apply lookup_f_None in Lo. apply Lo. exact Hc. }
           rewrite Lo'. reflexivity.
    + (* the required keys are the same set *)
      apply bool_eq_iff; rewrite !forallb_forall; intros MB f' Hf'.
      * assert (Hk : In (fst f') (map fst r)) by (apply Ir'; apply in_map; exact Hf').
        apply in_map_iff in Hk. destruct Hk as [f [Ef Hf]]. rewrite <- Ef. apply MB. exact Hf.
      * assert (Hk : In (fst f') (map fst req)) by (apply Ir; apply in_map; exact Hf').
        apply in_map_iff in Hk. destruct Hk as [f [Ef Hf]]. rewrite <- Ef. apply MB. exact Hf.
Qed.

End EquivMember.

Theorem member_equivb : forall anyb sub a b v,
  wf_ty a -> wf_ty b -> equivb a b = true -> member anyb sub v a = member anyb sub v b.
Proof. intros anyb sub a b v. apply member_equivb_aux. Qed.

Example ex_member_equivb :
  let a := TUnion [TCls cInt; TList (TUnion [TCls cStr; TCls cNone]);
                   TTypedDict [("a"%string, TCls cInt); ("b"%string, TUnion [TCls cInt; TCls cStr])] []] in
  let b := TUnion [TTypedDict [("b"%string, TUnion [TCls cStr; TCls cInt; TCls cStr]); ("a"%string, TCls cInt)] [];
                   TList (TUnion [TCls cNone; TCls cStr]); TCls cInt; TCls cInt] in
  equivb a b = true /\ ty_eqb a b = false /\ equivb a a = true
  /\ equivb a (TUnion [TCls cInt]) = false.
Proof. vm_compute. repeat split; reflexivity. Qed.
