(* Check/ConfineCases.v — C16 correspondence: the confinement model vs the real
   apply_stub_using_libcst(..., confine_new_imports_in_type_checking_block=True), and the property
   predicate evaluated on the implementation's own output. *)
From Coq Require Import List Bool Arith String Ascii.
From MT Require Export Confine.
From MT Require Import Common.
Import ListNotations.
Open Scope list_scope.

Record ccase := CCase {
  c_stub : module;          (* the stub, abstracted like any module *)
  c_src : module;           (* the source *)
  c_applied : module;       (* libcst ApplyTypeAnnotationsVisitor(use_future_annotations=True) output *)
  c_out : module;           (* apply_stub_using_libcst(..., True) output *)
  c_newly : list item;      (* cli.get_newly_imported_items(stub, source) *)
  c_changed : bool;         (* the apply step changed the source text *)
  c_exact : bool            (* false: some line holds several small statements; compared with the specification only *)
}.

Definition imp_eqb (i i' : imp) : bool := imp_leb i i' && imp_leb i' i.
Definition stmt_eqb (s s' : stmt) : bool := stmt_leb s s' && stmt_leb s' s.
Fixpoint list_eqb {A} (e : A -> A -> bool) (a b : list A) : bool :=
  match a, b with
  | [], [] => true
  | x :: r, y :: r' => e x y && list_eqb e r r'
  | _, _ => false
  end.
Definition module_eqb (m m' : module) : bool := list_eqb stmt_eqb m m'.
Definition set_eqb (a b : list item) : bool :=
  forallb (fun x => memb x b) a && forallb (fun x => memb x a) b.

(* ---- the property, on the implementation's output only *)
Definition p_head (c : ccase) : bool := implb (c_changed c) (future_head (c_out c)).
Definition p_under_tc (c : ccase) : bool :=
  forallb (fun it => memb it (tc_items (c_out c)) && negb (memb it (top_items (c_out c))))
          (moved_items (c_stub c) (c_src c)).
Definition p_no_new_runtime (c : ccase) : bool :=
  forallb (allowed_runtime (c_src c)) (run_items (c_out c)).
Definition p_in_place (c : ccase) : bool := embedsb (c_src c) (c_out c).
Definition p_bound (c : ccase) : bool :=
  forallb (fun n => smemb n (runtime_bound (c_out c))) (runtime_bound (c_src c)).
Definition p_needed (c : ccase) : bool :=
  forallb (fun n => smemb n (runtime_bound (c_out c))) (runtime_needed (c_src c) (c_out c)).

(* the inserted block tests a bound name.  A source may test `typing.TYPE_CHECKING` after `import typing` only, so the
   clause is demanded when the result has a block the source did not have (something was moved) *)
Definition p_tc_name (c : ccase) : bool :=
  match moved_items (c_stub c) (c_src c) with
  | [] => true
  | _ => tc_before (c_out c)
  end.

(* an import that a module-level `if TYPE_CHECKING:` block of the source already holds gets no further copy under
   module-level blocks (re-application must not pile up blocks) *)
Definition count_item (it : item) (l : list item) : nat := List.length (filter (item_eqb it) l).
Definition tc_block_items (m : module) : list item := flat_map imp_items (tc_block_imps m).
Definition p_no_second_copy (c : ccase) : bool :=
  forallb (fun it => negb (memb it (already_confined (c_src c)))
                     || Nat.leb (count_item it (tc_block_items (c_out c))) (count_item it (tc_block_items (c_src c))))
          (moved_items (c_stub c) (c_src c)).

(* no empty `if TYPE_CHECKING:` block is added (re-application with nothing left to confine) *)
Definition empty_blocks (m : module) : nat :=
  List.length (filter (fun s => match s with SIfTC [] => true | _ => false end) m).
Definition p_no_empty_block (c : ccase) : bool := Nat.leb (empty_blocks (c_out c)) (empty_blocks (c_src c)).

(* ---- modelled-libcst assumptions of the theorems, checked on every case *)
Definition libcst_ok (c : ccase) : bool :=
  embedsb (c_src c) (c_applied c)
  && implb (c_changed c) (future_head (c_applied c))
  && needed_okb (c_src c) (c_applied c)
  && nested_ok (c_src c) (c_applied c).

Definition model_ok (c : ccase) : bool :=
  set_eqb (newly (c_stub c) (c_src c)) (c_newly c)
  && match confine (c_stub c) (c_src c) (c_applied c) with
     | Some o => module_eqb o (c_out c)
     | None => false
     end.

Definition wf_case (c : ccase) : bool :=
  wf_module (c_stub c) && wf_module (c_src c) && wf_module (c_applied c) && wf_module (c_out c)
  && in_domain (moved_items (c_stub c) (c_src c)).

(* 0 ok; 1 model / libcst assumption differs but the property holds on the output; 2 property false;
   3 malformed; 21 / 22 / 23: property false only in clauses excused by finding class
   kf_shadow (21), kf_apply_extra (22), both (23) *)
Definition verdict (c : ccase) : nat :=
  if negb (wf_case c) then 3 else
  let sh := kf_shadow (c_stub c) (c_src c) in
  let ex := kf_apply_extra (c_stub c) (c_src c) (c_applied c) in
  let hard := p_head c && p_under_tc c && p_needed c && p_tc_name c && p_no_second_copy c && p_no_empty_block c in
  let place := p_in_place c && p_bound c in
  let nonew := p_no_new_runtime c in
  if hard && place && nonew then (if (negb (c_exact c) || model_ok c) && libcst_ok c then 0 else 1)
  else if hard && (place || sh) && (nonew || ex) then
    (if place then 22 else if nonew then 21 else 23)
  else 2.

(* which clauses fail, for the report: head, under_tc, no_new_runtime, in_place, bound, needed *)
Definition clauses (c : ccase) : list bool :=
  [p_head c; p_under_tc c; p_no_new_runtime c; p_in_place c; p_bound c; p_needed c;
   model_ok c; libcst_ok c; kf_shadow (c_stub c) (c_src c); kf_apply_extra (c_stub c) (c_src c) (c_applied c);
   p_tc_name c; p_no_second_copy c; p_no_empty_block c; kf_rebind (c_stub c) (c_src c) (c_applied c)].

(* the clause vector as one number (leading 1, then one bit per clause, first clause = most significant) *)
Definition clause_code (c : ccase) : nat :=
  fold_left (fun acc (b : bool) => 2 * acc + (if b then 1 else 0)) (clauses c) 1.
