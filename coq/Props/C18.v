(* C18 — sampling thins traces without distorting them.  The draw random.randrange(rate) is an input carried by
   each call event (the RNG is not modelled; uniformity is assumed, see the evidence). *)
From MT Require Import Types Tracer TracerFacts TracerOrder TracerSampled.

(* rate unset (None) or 0: no sampling at all — identical to the unsampled run, state and log *)
Theorem rate_unset_traces_all :
  forall rate H, sampling rate = false -> run rate H = run None H.
Proof. exact TracerFacts.rate_unset_traces_all. Qed.
Print Assumptions rate_unset_traces_all.

(* rate 1: randrange(1) only ever returns 0, and then every call is traced exactly as without sampling *)
Theorem rate_one_traces_all :
  forall H, draws_below 1 H = true -> run (Some 1) H = run None H.
Proof. exact TracerFacts.rate_one_traces_all. Qed.
Print Assumptions rate_one_traces_all.

(* a call none of whose call events drew 0 leaves no trace and no residue — for ANY history, well formed or not *)
Theorem unsampled_no_trace_no_residue :
  forall rate H f, sampling rate = true -> no_call_sampled (proj f H) = true ->
    logged_for f (run rate H) = [] /\ lookup f (live (run rate H)) = None.
Proof. exact unsampled_history. Qed.
Print Assumptions unsampled_no_trace_no_residue.

(* the complete decision per call, outside the known finding class kf_resume_sampled_after_skip: the call is
   logged iff its FIRST call event drew 0, and then its trace is exactly the one the unsampled description
   prescribes (argument types of the first call event, all yields, the return) — later draws are irrelevant *)
Theorem sampled_faithful :
  forall rate H f, sampling rate = true -> wf_history H = true ->
    kf_resume_sampled_after_skip rate (proj f H) = false ->
    logged_for f (run rate H) = (if first_taken rate (proj f H) then expected_frame (proj f H) else [])
    /\ (match lookup f (live (run rate H)) with Some _ => true | None => false end)
       = (first_taken rate (proj f H) && pending_frame (proj f H)).
Proof. exact sampled_history. Qed.
Print Assumptions sampled_faithful.

(* ================= global statements under sampling (Proofs/TracerSampled.v) =================
   kf_free rate H: no frame of H is in the finding class kf_resume_sampled_after_skip. *)

(* the sampled log IS the unsampled log restricted to the calls whose first call event was sampled: same traces,
   same order *)
Theorem sampled_log_is_subsequence :
  forall rate H, sampling rate = true -> wf_history H = true -> kf_free rate H = true ->
    rev (logged (run rate H)) = filter (fun p => first_taken rate (proj (fst p) H)) (completion_events H).
Proof. exact TracerSampled.sampled_log_is_subsequence. Qed.
Print Assumptions sampled_log_is_subsequence.

Theorem sampled_log_sublist_of_unsampled :
  forall rate H, sampling rate = true -> wf_history H = true -> kf_free rate H = true ->
    sublist (rev (logged (run rate H))) (rev (logged (run None H))).
Proof. exact TracerSampled.sampled_log_sublist_of_unsampled. Qed.
Print Assumptions sampled_log_sublist_of_unsampled.

(* every logged trace is exactly the unsampled description of a real call, and a call is logged iff its first draw is 0 *)
Theorem sampled_log_entries :
  forall rate H f t, sampling rate = true -> wf_history H = true -> kf_free rate H = true ->
    (In (f, t) (logged (run rate H)) <-> expected_frame (proj f H) = [t] /\ first_draw_zero (proj f H) = true).
Proof. exact TracerSampled.sampled_log_entries. Qed.
Print Assumptions sampled_log_entries.

(* no residue: the tracer's table holds exactly the in-flight calls whose first call event was sampled *)
Theorem sampled_table :
  forall rate H f, sampling rate = true -> wf_history H = true -> kf_free rate H = true ->
    lookup f (live (run rate H)) = if first_taken rate (proj f H) then partial_frame (proj f H) else None.
Proof. exact TracerSampled.sampled_table. Qed.
Print Assumptions sampled_table.

Theorem sampled_table_empty :
  forall rate H, sampling rate = true -> wf_history H = true -> kf_free rate H = true ->
    (forall f, In f (frames_of H) -> first_taken rate (proj f H) = true -> pending_frame (proj f H) = false) ->
    live (run rate H) = [].
Proof. exact TracerSampled.sampled_table_empty. Qed.
Print Assumptions sampled_table_empty.

(* the deterministic half of "about one call in N": the number of logged calls is the number of finished traceable
   calls whose first draw was 0 (with uniform draws from randrange(N), one in N) *)
Theorem sampled_count :
  forall rate H, sampling rate = true -> wf_history H = true -> kf_free rate H = true ->
    List.length (logged (run rate H)) = List.length (sampled_frames H).
Proof. exact TracerSampled.sampled_count. Qed.
Print Assumptions sampled_count.

Example ex_c18_global_nonvacuous : True.
Proof. pose proof TracerSampled.ex_sampled_nonvacuous as _. pose proof TracerSampled.ex_sampled_needs_kf_free as _. exact I. Qed.

Example ex_c18_nonvacuous :
  let g := Code 1 false true (Some 7%N) KGen in
  let p := Code 2 false true (Some 8%N) KPlain in
  let H := [EvCall 10 g [("a"%string, TCls cInt)] 0; EvReturn 10 g SYield op_yield (TCls cInt);
            EvCall 20 p [] 1; EvReturn 20 p SReturn op_retc (TCls cNone);
            EvCall 10 g [("a"%string, TCls cStr)] 1; EvReturn 10 g SReturn op_retv (TCls cNone);
            EvCall 21 p [] 0; EvReturn 21 p SReturn op_retc (TCls cNone)] in
  wf_history H = true /\ sampling (Some 2) = true
  /\ kf_resume_sampled_after_skip (Some 2) (proj 10 H) = false
  /\ logged_for 10 (run (Some 2) H) = [Trace 7 [("a"%string, TCls cInt)] (Some (TCls cNone)) (Some (TCls cInt))]
  /\ logged_for 20 (run (Some 2) H) = [] /\ List.length (logged_for 21 (run (Some 2) H)) = 1.
Proof. vm_compute. repeat split; reflexivity. Qed.
