"""A function that does not live in __main__ (the stock store logger drops __main__ functions): used by the long-run
stock-logger scenario of harness/tripwire_run.py."""


def bump(i):
    return i
