"""C06 — the TypedDict size limit is honoured end to end; zero disables TypedDicts."""
import random
import re

from harness import common, infer_cases
from harness.valgen import ValGen, KEYS

COQ_TARGETS = ["Check/InferCases.vo"]
TRUSTED_BASE = ["typing's Union normalisation / == / hash as modelled (Model/Types.v)",
                "the store round trip and the stub class generation are modelled (Model/Encode.v, Model/Render.v; theorems "
                "td_survives_store, td_bounded_stub_classes) and tied per case: the real decoded type and the key counts of the "
                "class stubs, executed as Python defines them, are judged by the Coq predicate td_boundedb",
                "harness reifiers (values, typing objects) and the class-stub executor in harness/props/C06.py"]
ASSUMPTIONS = ["dict keys of a reified value are pairwise distinct (Python dict invariant)"]
PARTIAL = ["the bound on generated stub classes is proved by class identity (td_bounded_stub_classes) and by class NAME only "
           "under a no-collision side condition (td_bounded_stub_classes_by_name); where two generated classes share a name "
           "the rendered stub does exceed the limit: recorded finding kf_hint_collision",
           "the property quantifies one limit per configuration; for a limit lowered between recording and stub generation "
           "only the top-level merge is covered (td_merge_top_limit: the merge never builds a TypedDict larger than the limit "
           "in force); TypedDicts nested in types that are merely equal pass through unchanged, by design of shrink_types"]

HEADER = infer_cases.HEADER


def extra_values(rnd, n):
    """dicts of 0..12 keys (string / non-string / mixed) nested in every container kind"""
    import collections
    g = ValGen(rnd, max_depth=2)
    out = []
    for _ in range(n):
        nk = rnd.randrange(0, 13)
        mode = rnd.random()
        d = {}
        for i in range(nk):
            if mode < 0.6:
                key = KEYS[i % len(KEYS)]
            elif mode < 0.8:
                key = i if rnd.random() < 0.5 else (i, "t")
            else:
                key = KEYS[i % len(KEYS)] if rnd.random() < 0.7 else i
            d[key] = g.value(1)
        wrap = rnd.choice(["none", "list", "tuple", "dict", "ddict", "set_of_tuple", "listlist"])
        v = {"none": d, "list": [d, dict(d)], "tuple": (d, 1), "dict": {"outer": d},
             "ddict": collections.defaultdict(int, {"o": d}), "set_of_tuple": [{(1, 2)}, d], "listlist": [[d], [d, {}]]}[wrap]
        vs = [v]
        while rnd.random() < 0.5 and len(vs) < 4:
            vs.append(g.mutate(v))
        out.append((rnd.choice([0, 1, 2, 3, 10]), vs))
    # directed: two TypedDicts under the same field name in one type (generated class names collide: recorded finding)
    out.append((2, [{"p": {"f": {"a": 1}}, "q": {"f": {"a": 1, "b": 2}}}, {"p": {"f": {"a": 1, "c": 2}}, "q": {"f": {"a": 1, "b": 2}}}]))
    # directed: keys from which no class name can be derived as they stand (empty key + positional suffix, leading digit)
    out.append((10, [{"": ({"a": 1}, {"b": 2})}]))
    out.append((10, [{"1a": ({"a": 1},)}, {"2": {"a": 1}}]))
    out.append((3, [{"x y": {"a": 1}}, {"9": [{"a": 1}]}]))
    return out


def _structural_counts(stubs):
    """fallback when the class stubs cannot be executed (a dict key that is not an identifier makes the class body invalid
    Python - C11/C01's recorded rendering finding, not a size question): own fields per class, a NonTotal class counted
    with the most recent unpartnered class of its base's name"""
    entries, bad = [], 0
    for s in stubs:
        m = re.match(r"^(\w+)\((\w+)(, total=False)?\)$", s.name)
        if not m:
            bad += 1
            continue
        name, base, nontotal = m.group(1), m.group(2), bool(m.group(3))
        n = len(list(s.attribute_stubs))
        if base == "TypedDict":
            entries.append([name, n, nontotal])
        elif nontotal:
            for e in reversed(entries):
                if e[0] == base and not e[2]:
                    e[1] += n
                    e[2] = True
                    break
            else:
                bad += 1
        else:
            bad += 1
    return [e[1] for e in entries] + [10 ** 6] * bad


def stub_counts(impl):
    """keys of every TypedDict class the generated class stubs DEFINE, as Python defines them: the class stubs are rendered
    by the real machinery and executed one class statement at a time (annotations unevaluated), and each resulting class
    object is asked for its keys - so a `...NonTotal(<base>, total=False)` class counts its base's keys too, and the base
    is whatever class that NAME is bound to at that point.  Returns (counts, collision) where collision says that two
    generated classes share a name (C11's finding kf_hint_collision), in which case a NonTotal class can inherit from the
    wrong base."""
    import ast
    from monkeytype.stubs import ReplaceTypedDictsWithStubs
    _, stubs = ReplaceTypedDictsWithStubs.rewrite_and_get_stubs(impl, "foo")
    stubs = list(stubs)
    if not stubs:
        return [], False
    names = [re.match(r"^(\w+)", s.name).group(1) for s in stubs]
    collision = len(names) != len(set(names))
    # ModuleStub.render emits the class stubs sorted by name (stable): that is the order in which Python defines them
    stubs = sorted(stubs, key=lambda s: s.name)
    text = "\n\n".join(s.render() for s in stubs)
    ns = {}
    exec("from __future__ import annotations\nfrom mypy_extensions import TypedDict\n", ns)
    counts = []
    try:
        tree = ast.parse(text)
    except SyntaxError:
        return _structural_counts(stubs), collision
    for node in tree.body:
        if not isinstance(node, ast.ClassDef):
            counts.append(10 ** 6)
            continue
        src = "from __future__ import annotations\n" + ast.get_source_segment(text, node)
        try:
            exec(compile(src, "<stub>", "exec"), ns)
            counts.append(len(ns[node.name].__annotations__))
        except Exception:
            counts.append(10 ** 6)
    return counts, collision


CLI_FX = '''
def connect(config):
    return None
def listen(config, backlog=None):
    return None
def f(a, b=None):
    return None
class K:
    def m(self, opts):
        return None
def gen(n):
    yield n
def ret(n):
    return n
'''
CLI_CFG = '''
import contextlib
from monkeytype.config import DefaultConfig
from monkeytype.db.sqlite import SQLiteStore
class C(DefaultConfig):
    inside = False
    def trace_store(self):
        return SQLiteStore.make_store({db!r})
    def max_typed_dict_size(self):
        # "ctx" configurations know their limit only while the command runs (state set up in cli_context)
        return {k} if (self.inside or not {ctxdep}) else 10
    @contextlib.contextmanager
    def cli_context(self, command):
        self.inside = True
        try:
            yield
        finally:
            self.inside = False
CONFIG = C()
'''


CLI_CFG_ENV = '''
import os
from monkeytype.config import DefaultConfig
from monkeytype.db.sqlite import SQLiteStore
class C(DefaultConfig):
    """built afresh by every command (`-c c06cfg_env:make()`): limit and database come from the environment of that command"""
    def __init__(self):
        self.k = int(os.environ["C06_K"])
        self.db = os.environ["C06_DB"]
    def trace_store(self):
        return SQLiteStore.make_store(self.db)
    def max_typed_dict_size(self):
        return self.k
def make():
    return C()
'''


def text_counts(stub_text):
    """key counts of every TypedDict class a whole module stub defines, executed in order as Python would"""
    import ast
    tree = ast.parse(stub_text)
    ns = {}
    exec("from __future__ import annotations\nfrom mypy_extensions import TypedDict\n", ns)
    counts, names = [], []
    for node in tree.body:
        if isinstance(node, ast.ClassDef) and "TypedDict" in ast.get_source_segment(stub_text, node).split(":")[0]:
            names.append(node.name)
            try:
                exec(compile("from __future__ import annotations\n" + ast.get_source_segment(stub_text, node), "<stub>", "exec"), ns)
                counts.append(len(ns[node.name].__annotations__))
            except Exception:
                counts.append(10 ** 6)
    return counts, len(names) != len(set(names))


def cli_cases(ctx, rnd):
    """`monkeytype stub` end to end: traces recorded under limit k, stubbed by the real command line with the
    configuration reporting k (constantly, or only inside cli_context), with and without --disable-type-rewriting"""
    import importlib
    import io
    import os
    import sys
    from monkeytype import cli
    from monkeytype.db.sqlite import SQLiteStore
    from monkeytype.tracing import CallTrace
    from monkeytype.typing import get_type
    d = os.path.join(ctx.work, "cli")
    os.makedirs(d, exist_ok=True)
    with open(os.path.join(d, "c06cli_fx.py"), "w") as f:
        f.write(CLI_FX)
    sys.path.insert(0, d)
    out = []
    try:
        fx = importlib.import_module("c06cli_fx")
        n = 36 if ctx.tier == "quick" else 400
        atoms = [1, "x", None, 2.5, True]
        for i in range(n):
            k = rnd.choice([0, 1, 1, 2, 2, 3])
            ctxdep = rnd.random() < 0.4
            flags = ["--disable-type-rewriting"] if rnd.random() < 0.4 else []
            db = os.path.join(d, f"s{i}.sqlite3")
            cfgname = f"c06cfg_{ctx.seed}_{i}"
            with open(os.path.join(d, cfgname + ".py"), "w") as f:
                f.write(CLI_CFG.format(db=db, k=k, ctxdep=ctxdep))
            traces, shapes = [], []
            rec_k = k + rnd.choice([0, 0, 0, 1, 2])      # the limit in force when the traces were RECORDED
            same_param = rnd.random() < 0.5      # connect(config) and listen(config): same parameter name, different shapes
            for fn, pname in ((fx.connect, "config"), (fx.listen, "config") if same_param else (fx.f, "a"), (fx.K.m, "opts")):
                wrap = rnd.choice(["plain", "plain", "list", "opt"])      # one container shape per function, so its calls merge
                if rec_k != k:
                    wrap = "plain"     # a limit lowered after recording reaches top-level positions only (td_merge_top_limit)
                small = rnd.random() < 0.6                                # every call's dict fits the limit on its own
                for _ in range(rnd.choice([1, 2, 3])):
                    nk = (rnd.choice([1, k, max(1, k - 1)]) if small else rnd.choice([1, k, k + 1])) if k > 0 else rnd.randrange(1, 4)
                    if rec_k != k:
                        nk = rnd.randrange(1, rec_k + 1)
                    keys = rnd.sample(["a", "b", "c", "d"], max(1, min(4, nk)))
                    dct = {kk: rnd.choice(atoms) for kk in keys}
                    val = {"plain": dct, "list": [dct], "opt": dct}[wrap]
                    args = {pname: get_type(val, rec_k)}
                    if fn is fx.K.m:
                        pass
                    traces.append(CallTrace(fn, args, type(None)))
                    if wrap == "opt":
                        traces.append(CallTrace(fn, {pname: type(None)}, type(None)))
                    shapes.append((fn.__qualname__, sorted(keys), wrap))
            # dicts in the YIELD and RETURN positions too (one shape per function when recorded under a larger limit)
            for fn, pos in ((fx.gen, "yield"), (fx.ret, "return")):
                for _ in range(rnd.choice([1, 2])):
                    nk = rnd.randrange(1, rec_k + 1) if rec_k != k else (rnd.choice([1, k, k + 1]) if k > 0 else rnd.randrange(1, 4))
                    keys = rnd.sample(["a", "b", "c", "d"], max(1, min(4, nk)))
                    ty = get_type({kk: rnd.choice(atoms) for kk in keys}, rec_k)
                    traces.append(CallTrace(fn, {"n": int}, type(None), ty) if pos == "yield" else CallTrace(fn, {"n": int}, ty))
                    shapes.append((fn.__qualname__ + ":" + pos, sorted(keys), "plain"))
            SQLiteStore.make_store(db).add(traces)
            so, se = io.StringIO(), io.StringIO()
            # a third of the constant-limit cases name ONE configuration factory shared by all of them (same -c text every
            # time, several commands in this process): each command must see the limit / database of its own environment
            envcfg = (not ctxdep) and i % 3 == 0
            cfgarg = f"{cfgname}:CONFIG"
            if envcfg:
                with open(os.path.join(d, "c06cfg_env.py"), "w") as f:
                    f.write(CLI_CFG_ENV)
                os.environ["C06_K"], os.environ["C06_DB"] = str(k), db
                cfgarg = "c06cfg_env:make()"
            try:
                rc = cli.main(["-c", cfgarg] + flags + ["stub", "c06cli_fx"], so, se)
            except Exception as e:
                rc, se = 99, io.StringIO(f"{type(e).__name__}: {e}")
            finally:
                os.environ.pop("C06_K", None)
                os.environ.pop("C06_DB", None)
            stub = so.getvalue()
            rec = {"k": k, "recorded_under": rec_k, "limit_only_inside_cli_context": ctxdep, "shared_factory_config": envcfg, "flags": flags, "shapes": shapes, "rc": rc, "stub": stub[:3000],
                   "stderr": se.getvalue()[-400:]}
            if rc != 0 or not stub.strip():
                rec["counts"], rec["collision"] = [10 ** 6], False
            else:
                try:
                    rec["counts"], rec["collision"] = text_counts(stub)
                except SyntaxError:
                    rec["counts"], rec["collision"] = [10 ** 6], False
            out.append(rec)
    finally:
        sys.path.remove(d)
        sys.modules.pop("c06cli_fx", None)
    return out


def run(ctx):
    from monkeytype.encoding import type_from_json, type_to_json
    rnd = random.Random(ctx.seed + 6)
    n = 1500 if ctx.tier == "quick" else 20000
    extra = extra_values(rnd, n)
    ct, cases = infer_cases.generate(ctx.seed + 6, n // 2, with_small_scope=(ctx.tier == "thorough"), extra_cases=extra)
    terms = []
    dist = {"has_td": 0, "decode_error": 0, "stub_classes": 0}
    for c in cases:
        impl = None
        dec_term = c["impl"]
        counts, collision = [], False
        if c["error"] is None:
            impl = infer_cases.impl_infer(c["vs"], c["k"])
            try:
                dec = type_from_json(type_to_json(impl))
                dec_term = common.reify_type(dec, ct)
            except Exception as e:
                dist["decode_error"] += 1
                dec_term = 'TFwd "?decode-raised"%string'
                c["error"] = f"round trip raised {type(e).__name__}: {e}"
            try:
                counts, collision = stub_counts(impl)
            except Exception as e:
                counts, collision = [10 ** 6], False
                c["error"] = f"stub generation raised {type(e).__name__}: {e}"
        if "TTypedDict" in c["impl"]:
            dist["has_td"] += 1
        dist["stub_classes"] += len(counts)
        c["decoded"] = dec_term
        c["counts"] = counts
        c["collision"] = collision
        terms.append(f"C6Case ({c['term']}) ({dec_term}) {common.coq_list(str(min(x, 100000)) for x in counts)} {common.coq_bool(collision)}")
    header = HEADER % ct.hierarchy()
    outs = common.run_coq_shards(ctx.work, "c06", header, terms, "c6case", "bad verdict_c06 0 cases")
    bad = common.parse_bad(outs)
    failures, mismatches = [], []
    for i, code in bad:
        c = cases[i]
        rec = {"k": c["k"], "values": c["vs_repr"], "impl": c["impl"], "decoded": c["decoded"], "stub_counts": c["counts"],
               "error": c["error"], "term": terms[i]}
        if code == 5:
            rec["finding"] = "kf_hint_collision"
            rec["what"] = (f"two generated TypedDict classes share a name, so a NonTotal class inherits from the wrong base and "
                           f"defines more than k={c['k']} keys: values={c['vs_repr'][:200]} class key counts={c['counts']}")
            failures.append(rec)
        elif code == 2:
            rec["what"] = f"TypedDict size limit k={c['k']} not honoured for values={c['vs_repr'][:200]} (type / decoded type / stub classes)"
            failures.append(rec)
        else:
            mismatches.append(rec)
    # ---- the limit at merge time: types recorded under limit k1, merged under a smaller limit k2 ----
    from monkeytype.typing import get_type, shrink_types
    n2 = 300 if ctx.tier == "quick" else 4000
    m2cases, m2terms = [], []
    atoms = [1, "x", None, 2.5, [1], {"q": 1}, {"q": 1, "r": "s", "t": None}, {"q": {"u": 1, "v": 2}}]
    for _ in range(n2):
        k1 = rnd.choice([1, 2, 3, 10])
        k2 = rnd.choice([x for x in (0, 1, 2, 3) if x < k1])
        same = rnd.random() < 0.5           # every call saw the same dict shape, or overlapping shapes
        base = rnd.sample(KEYS[:5], rnd.randrange(1, min(k1, 4) + 1))
        vs = []
        for _i in range(rnd.choice([1, 1, 2, 3])):
            ks = base if same else rnd.sample(KEYS[:5], rnd.randrange(1, min(k1, 4) + 1))
            fixed = rnd.choice(atoms)
            vs.append({kk: (fixed if same else rnd.choice(atoms)) for kk in ks})
        if rnd.random() < 0.25:
            # directed: a dict within the limit in force whose field holds a dict beyond it (one call, or several calls of
            # which one has the field) -- the merge has to recurse into a field seen with a single value type
            k1, k2 = 10, rnd.choice([1, 2, 3])
            big = {kk: rnd.choice([1, "x", None]) for kk in rnd.sample(KEYS[5:], rnd.randrange(k2 + 1, 6))}
            ks = rnd.sample(KEYS[:5], rnd.randrange(1, k2 + 1))
            vs = [{kk: (big if j == 0 else 1) for j, kk in enumerate(ks)}]
            if len(ks) > 1 and rnd.random() < 0.4:
                vs.append({kk: 1 for kk in ks[1:]})
        if rnd.random() < 0.2:
            vs.append(rnd.choice([1, None, [], {1: 2}]))
        if rnd.random() < 0.3:
            # the same one level down: lists of such dicts next to an empty list (the merge recurses into the element types)
            vs = [[v] if type(v) is dict else v for v in vs] + [[]]
        try:
            impl2 = common.reify_type(shrink_types([get_type(v, k1) for v in vs], k2), ct)
            err = None
        except Exception as e:
            impl2, err = 'TFwd "?raised"%string', f"{type(e).__name__}: {e}"
        m2cases.append({"k1": k1, "k2": k2, "values": repr(vs)[:300], "impl": impl2, "error": err})
        m2terms.append(f"M2Case {k1} {k2} {common.coq_list(common.reify_value(v, ct) for v in vs)} ({impl2})")
    header = HEADER % ct.hierarchy()
    outs2 = common.run_coq_shards(ctx.work, "c06m", header, m2terms, "m2case", "bad verdict_c06_merge 0 cases")
    for i, code in common.parse_bad(outs2):
        c = m2cases[i]
        rec = dict(c)
        rec["term"] = m2terms[i]
        if code == 2:
            rec["what"] = (f"merging TypedDicts recorded under limit {c['k1']} with limit {c['k2']} in force built a TypedDict "
                           f"with more than {c['k2']} fields: values={c['values']} -> {c['impl']}")
            failures.append(rec)
        else:
            rec["what"] = f"model (shrink_top k2 . map (get_type k1)) and implementation differ (verdict {code})"
            mismatches.append(rec)
    dist["merge_under_lower_limit_cases"] = len(m2cases)
    # ---- through the real command line ----
    clis = cli_cases(ctx, rnd)
    cterms = [f"CliCase {c['k']} {common.coq_list(str(min(x, 100000)) for x in c['counts'])} {common.coq_bool(c['collision'])}" for c in clis]
    outs3 = common.run_coq_shards(ctx.work, "c06c", header, cterms, "clicase", "bad verdict_c06_cli 0 cases")
    for i, code in common.parse_bad(outs3):
        c = clis[i]
        rec = dict(c)
        rec["term"] = cterms[i]
        if code == 5:
            rec["finding"] = "kf_hint_collision"
            rec["what"] = (f"`monkeytype stub` (k={c['k']}, flags={c['flags']}): two generated TypedDict classes share a name, a "
                           f"NonTotal class inherits from the wrong base: class key counts {c['counts']}")
        else:
            rec["what"] = (f"`monkeytype stub` with limit k={c['k']} (known only inside cli_context: {c['limit_only_inside_cli_context']}, "
                           f"flags={c['flags']}) defines TypedDict classes with key counts {c['counts']} for traced dict shapes {c['shapes']} "
                           f"(rc={c['rc']} {c['stderr'][-120:]})")
        failures.append(rec)
    dist["cli_stub_cases"] = len(clis)
    dist["cli_stub_classes"] = sum(len(c["counts"]) for c in clis)
    distinct = len({common.digest(t) for t, c in zip(terms, cases) if "VDict" in c["term"]})
    d = infer_cases.distribution(cases)
    d.update(dist)
    return {
        "evaluations": len(cases) + len(m2cases) + len(clis), "distinct_nontrivial": distinct + len({common.digest(t) for t in m2terms}),
        "rule": "dicts of 0..12 keys (string/non-string/mixed) nested in every container kind, near-duplicates merged, "
                "k in {0,1,2,3,10}, plus the C04 random stream; each case goes through get_type+shrink_types, the JSON "
                "round trip and ReplaceTypedDictsWithStubs; non-trivial = contains a dict; distinct by hash of the reified case; plus str-keyed dict collections typed under "
                "limit k1 and merged under a lower limit k2 (theorem td_merge_top_limit); plus stores of dict-carrying traces stubbed by the "
                "real `monkeytype stub` command with the limit reported by the configuration (constantly or only inside "
                "cli_context), with and without --disable-type-rewriting, every class of the stub executed and counted",
        "samples": [{"k": c["k"], "values": c["vs_repr"], "impl_type": c["impl"], "stub_counts": c["counts"]} for c in cases[:3]],
        "distribution": d, "failures": failures, "mismatches": mismatches, "relation": "corrb (infer k vs) impl",
    }


def replay(ctx, payload):
    print(payload)
    return 0

CLAIM = {'note': 'Trusted: Coq kernel + vm_compute; harness reifiers; typing semantics as modelled. Finding '
         'kf_hint_collision (a NonTotal class inheriting from a same-named class of another TypedDict exceeds k '
         'keys) recorded; it is exactly the side condition of the by-name theorem.',
 'ref': '4/C06',
 'technique': 'Coq proof by induction on fuel/values + vm_compute differential correspondence',
 'text': 'Coq theorems for every limit k, every value collection, every merge, the store round trip, every chain of '
         'shipped rewriters and the generated class stubs: k0_no_typeddict, td_bounded_infer, td_bounded_merge, '
         'td_from_str_dicts_only, td_survives_store / no_td_survives_store (what is decoded from the stored JSON '
         'respects the limit; at k = 0 no stored row carries a TypedDict), td_bounded_rewrite(_chain) / '
         'no_td_rewrite(_chain), td_bounded_stub_classes (every generated class, a NonTotal class counted with its '
         'base, has between 1 and k fields; none at k = 0), td_bounded_stub_classes_by_name (the same read by class '
         'NAME, under NoDup of the generated names), k_limit_end_to_end, k0_end_to_end, td_merge_top_limit (the limit '
         'in force at merge time bounds every TypedDict the merge builds, whatever limit the merged types were '
         'recorded under). Tie: per case through '
         'get_type + merge, the JSON round trip and the real class stubs executed as Python defines them; verdicts '
         'in Coq.'}
