(* Proofs/TdBoundedE2EStubs.v — C06 for the TypedDict classes rendered into the stub: the class stubs that
   ReplaceTypedDictsWithStubs (Model/Render.v: rtd) generates from a type whose TypedDict nodes all have between
   1 and k fields have between 1 and k fields each — a `...NonTotal` subclass counted together with the base
   class it extends; a TypedDict-free type generates no class stub and is returned unchanged. *)
From MT Require Import Types Infer TypesFacts UnionFacts TdBounded Render RewriteTrigger RewriteTriggerFacts
                       TdBoundedE2ERewrite.
From Coq Require Import Lia.
Open Scope list_scope.

(* ---------- rtd's two local loops, named ---------- *)
Fixpoint rtd_list (hint : string) (l : list ty) (i : nat) : list ty * list cstub :=
  match l with
  | [] => ([], [])
  | x :: r => let '(x', s) := rtd x (hint_at hint i) in
              let '(r', s') := rtd_list hint r (S i) in (x' :: r', s ++ s')
  end.

Fixpoint rtd_fields (l : list (string * ty)) : list (string * ty) * list cstub :=
  match l with
  | [] => ([], [])
  | f :: r => let '(x', s) := rtd (snd f) (fst f) in
              let '(r', s') := rtd_fields r in ((fst f, x') :: r', s ++ s')
  end.

Lemma rtd_TTuple ts hint :
  rtd (TTuple ts) hint = (TTuple (fst (rtd_list hint ts 0)), snd (rtd_list hint ts 0)).
Proof.
  cbn [rtd].
  match goal with |- context [?F ts 0] =>
    assert (E : forall l i, F l i = rtd_list hint l i)
      by (induction l as [|a l IH]; intros i; [reflexivity|]; cbn [rtd_list]; rewrite <- IH; reflexivity)
  end.
  rewrite E. destruct (rtd_list hint ts 0). reflexivity.
Qed.

Lemma rtd_TUnion ts hint :
  rtd (TUnion ts) hint = (union_mk (fst (rtd_list hint ts 0)), snd (rtd_list hint ts 0)).
Proof.
  cbn [rtd].
  match goal with |- context [?F ts 0] =>
    assert (E : forall l i, F l i = rtd_list hint l i)
      by (induction l as [|a l IH]; intros i; [reflexivity|]; cbn [rtd_list]; rewrite <- IH; reflexivity)
  end.
  rewrite E. destruct (rtd_list hint ts 0). reflexivity.
Qed.

Definition td_cname (hint : string) : string := td_class_name hint.

Lemma rtd_TTypedDict req opt hint :
  rtd (TTypedDict req opt) hint =
  let cname := td_class_name hint in
  let req' := fst (rtd_fields req) in let sr := snd (rtd_fields req) in
  let opt' := fst (rtd_fields opt) in let so := snd (rtd_fields opt) in
  match req, opt with
  | [], [] => (TFwd raise_empty_td, [])
  | _ :: _, [] => (TFwd cname, sr ++ [Build_cstub cname "TypedDict" true req'])
  | [], _ :: _ => (TFwd cname, so ++ [Build_cstub cname "TypedDict" false opt'])
  | _ :: _, _ :: _ =>
      (TFwd (String.append cname "NonTotal"),
       sr ++ [Build_cstub cname "TypedDict" true req']
          ++ so ++ [Build_cstub (String.append cname "NonTotal") cname false opt'])
  end.
Proof.
  cbn [rtd].
  match goal with |- context [?F req] =>
    assert (E : forall l, F l = rtd_fields l)
      by (induction l as [|a l IH]; [reflexivity|]; cbn [rtd_fields]; rewrite <- IH; reflexivity)
  end.
  rewrite E. destruct (rtd_fields req). rewrite E. destruct (rtd_fields opt). destruct req, opt; reflexivity.
Qed.

Lemma rtd_1 (con : ty -> ty) x hint :
  (forall h, rtd (con x) h = let '(x', s) := rtd x h in (con x', s)) ->
  rtd (con x) hint = (con (fst (rtd x hint)), snd (rtd x hint)).
Proof. intros H. rewrite H. destruct (rtd x hint). reflexivity. Qed.

Lemma rtd_TList x hint : rtd (TList x) hint = (TList (fst (rtd x hint)), snd (rtd x hint)).
Proof. apply (rtd_1 TList). reflexivity. Qed.
Lemma rtd_TSet x hint : rtd (TSet x) hint = (TSet (fst (rtd x hint)), snd (rtd x hint)).
Proof. apply (rtd_1 TSet). reflexivity. Qed.
Lemma rtd_TTupleVar x hint : rtd (TTupleVar x) hint = (TTupleVar (fst (rtd x hint)), snd (rtd x hint)).
Proof. apply (rtd_1 TTupleVar). reflexivity. Qed.
Lemma rtd_TDict a b hint :
  rtd (TDict a b) hint = (TDict (fst (rtd a hint)) (fst (rtd b (hint_at hint 1))),
                          snd (rtd a hint) ++ snd (rtd b (hint_at hint 1))).
Proof. cbn [rtd]. destruct (rtd a hint), (rtd b (hint_at hint 1)). reflexivity. Qed.
Lemma rtd_TGenerator a b c hint :
  rtd (TGenerator a b c) hint =
  (TGenerator (fst (rtd a hint)) (fst (rtd b (hint_at hint 1))) (fst (rtd c (hint_at hint 2))),
   snd (rtd a hint) ++ snd (rtd b (hint_at hint 1)) ++ snd (rtd c (hint_at hint 2))).
Proof. cbn [rtd]. destruct (rtd a hint), (rtd b (hint_at hint 1)), (rtd c (hint_at hint 2)). reflexivity. Qed.

(* ================================================================================================
   the generated classes are bounded
   ================================================================================================ *)
Definition nfields (s : cstub) : nat := List.length (cs_attrs s).

Section Stubs.
Variable k : nat.
Notation bd := (td_boundedb k).

(* one generated class, read against the list cs it was generated in: it declares at least one field; a class
   deriving from TypedDict directly has at most k; a `...NonTotal` class (total=False, deriving from a generated
   class) has, together with the base class it extends, at most k — and that base class is in the list, derives from
   TypedDict, is total and is non-empty.  Attribute types keep the bound (they hold TypedDicts only where the
   replacement does not descend: below Type / Iterator / DefaultDict). *)
Definition stub_ok (cs : list cstub) (s : cstub) : Prop :=
  1 <= nfields s
  /\ forallb (fun f => bd (snd f)) (cs_attrs s) = true
  /\ ((cs_base s = "TypedDict"%string /\ nfields s <= k)
      \/ (cs_total s = false /\ cs_name s = String.append (cs_base s) "NonTotal"
          /\ exists b, In b cs /\ cs_name b = cs_base s /\ cs_base b = "TypedDict"%string /\ cs_total b = true
                       /\ 1 <= nfields b /\ nfields b + nfields s <= k)).

Definition stubs_ok (cs : list cstub) : Prop := Forall (stub_ok cs) cs.

Lemma stub_ok_incl cs cs' s : incl cs cs' -> stub_ok cs s -> stub_ok cs' s.
Proof.
  intros I [H1 [H2 H3]]. split; [exact H1|]. split; [exact H2|].
  destruct H3 as [H3|[T [N [b [Hb Rest]]]]]; [left; exact H3|].
  right. split; [exact T|]. split; [exact N|]. exists b. split; [apply I; exact Hb|exact Rest].
Qed.

Lemma stubs_ok_nil : stubs_ok [].
Proof. constructor. Qed.

Lemma stubs_ok_app a b : stubs_ok a -> stubs_ok b -> stubs_ok (a ++ b).
Proof.
  unfold stubs_ok. intros Ha Hb. apply Forall_app. split.
  - eapply Forall_impl; [|exact Ha]. intros s. apply stub_ok_incl. apply incl_appl. apply incl_refl.
  - eapply Forall_impl; [|exact Hb]. intros s. apply stub_ok_incl. apply incl_appr. apply incl_refl.
Qed.

Lemma stubs_ok_snoc a s : stubs_ok a -> stub_ok (a ++ [s]) s -> stubs_ok (a ++ [s]).
Proof.
  unfold stubs_ok. intros Ha Hs. apply Forall_app. split; [|constructor; [exact Hs|constructor]].
  eapply Forall_impl; [|exact Ha]. intros x. apply stub_ok_incl. apply incl_appl. apply incl_refl.
Qed.

Definition rtd_ok (t : ty) : Prop :=
  forall hint, bd t = true -> bd (fst (rtd t hint)) = true /\ stubs_ok (snd (rtd t hint)).

Lemma rtd_list_ok hint l : Forall rtd_ok l -> forall i, forallb bd l = true ->
  forallb bd (fst (rtd_list hint l i)) = true /\ stubs_ok (snd (rtd_list hint l i)).
Proof.
  induction 1 as [|x r Hx _ IH]; intros i B; [split; [reflexivity|apply stubs_ok_nil]|].
  cbn [forallb] in B. apply andb_prop in B. destruct B as [B1 B2].
  cbn [rtd_list]. destruct (Hx (hint_at hint i) B1) as [X1 X2]. destruct (IH (S i) B2) as [R1 R2].
  destruct (rtd x (hint_at hint i)) as [x' s]. destruct (rtd_list hint r (S i)) as [r' s'].
  cbn [fst snd forallb] in *. rewrite X1, R1. split; [reflexivity|apply stubs_ok_app; assumption].
Qed.

Lemma rtd_fields_ok l : Forall (fun f => rtd_ok (snd f)) l -> forallb (fun f => bd (snd f)) l = true ->
  forallb (fun f => bd (snd f)) (fst (rtd_fields l)) = true
  /\ List.length (fst (rtd_fields l)) = List.length l
  /\ stubs_ok (snd (rtd_fields l)).
Proof.
  induction 1 as [|f r Hf _ IH]; intros B; [split; [reflexivity|split; [reflexivity|apply stubs_ok_nil]]|].
  cbn [forallb] in B. apply andb_prop in B. destruct B as [B1 B2].
  cbn [rtd_fields]. destruct (Hf (fst f) B1) as [X1 X2]. destruct (IH B2) as [R1 [R2 R3]].
  destruct (rtd (snd f) (fst f)) as [x' s]. destruct (rtd_fields r) as [r' s'].
  cbn [fst snd forallb List.length] in *. rewrite X1, R1, R2.
  split; [reflexivity|]. split; [reflexivity|apply stubs_ok_app; assumption].
Qed.

Lemma rtd_all_ok t : rtd_ok t.
Proof.
  induction t as [ | c | x IH | | x IH | x IH | x IH | a b IHa IHb | a b IHa IHb | xs IH | x IH
                 | a1 a2 a3 IH1 IH2 IH3 | xs IH | r o IHr IHo | s ] using ty_ind'; intros hint B;
    try (cbn [rtd fst snd]; split; [exact B|apply stubs_ok_nil]).
  - rewrite rtd_TList. cbn [fst snd td_boundedb] in *. apply IH. exact B.
  - rewrite rtd_TSet. cbn [fst snd td_boundedb] in *. apply IH. exact B.
  - rewrite rtd_TDict. cbn [fst snd td_boundedb] in *. apply andb_prop in B. destruct B as [B1 B2].
    destruct (IHa hint B1) as [A1 A2]. destruct (IHb (hint_at hint 1) B2) as [C1 C2].
    rewrite A1, C1. split; [reflexivity|apply stubs_ok_app; assumption].
  - rewrite rtd_TTuple. cbn [fst snd td_boundedb] in *. apply rtd_list_ok; assumption.
  - rewrite rtd_TTupleVar. cbn [fst snd td_boundedb] in *. apply IH. exact B.
  - rewrite rtd_TGenerator. cbn [fst snd td_boundedb] in *.
    apply andb_prop in B. destruct B as [B B3]. apply andb_prop in B. destruct B as [B1 B2].
    destruct (IH1 hint B1) as [A1 A2]. destruct (IH2 (hint_at hint 1) B2) as [C1 C2].
    destruct (IH3 (hint_at hint 2) B3) as [D1 D2]. rewrite A1, C1, D1.
    split; [reflexivity|repeat apply stubs_ok_app; assumption].
  - rewrite rtd_TUnion. cbn [fst snd td_boundedb] in *.
    destruct (rtd_list_ok hint xs IH 0 B) as [L1 L2]. split; [apply union_mk_bd; exact L1|exact L2].
  - rewrite rtd_TTypedDict. apply bd_TTypedDict in B. destruct B as [[L1 L2] [Br Bo]].
    destruct (rtd_fields_ok r IHr Br) as [R1 [R2 R3]]. destruct (rtd_fields_ok o IHo Bo) as [O1 [O2 O3]].
    cbv zeta.
    destruct r as [|f0 r0], o as [|g0 o0]; cbn [fst snd td_boundedb]; (split; [reflexivity|]).
    + cbn [List.length] in L1. lia.
    + (* optional fields only: one class, total=False *)
      apply stubs_ok_snoc; [exact O3|]. split; [unfold nfields; cbn [cs_attrs]; rewrite O2; cbn [List.length]; lia|].
      split; [exact O1|]. left. split; [reflexivity|]. unfold nfields. cbn [cs_attrs]. rewrite O2.
      cbn [List.length] in *. lia.
    + (* required fields only: one class *)
      apply stubs_ok_snoc; [exact R3|]. split; [unfold nfields; cbn [cs_attrs]; rewrite R2; cbn [List.length]; lia|].
      split; [exact R1|]. left. split; [reflexivity|]. unfold nfields. cbn [cs_attrs]. rewrite R2.
      cbn [List.length] in *. lia.
    + (* both: base class + NonTotal subclass *)
      set (cname := td_class_name hint) in *.
      set (rq := f0 :: r0) in *. set (op := g0 :: o0) in *.
      set (base := Build_cstub cname "TypedDict" true (fst (rtd_fields rq))).
      set (nt := Build_cstub (String.append cname "NonTotal") cname false (fst (rtd_fields op))).
      replace (snd (rtd_fields rq) ++ [base] ++ snd (rtd_fields op) ++ [nt])
        with ((snd (rtd_fields rq) ++ [base] ++ snd (rtd_fields op)) ++ [nt])
        by (rewrite <- !app_assoc; reflexivity).
      assert (Lr : 1 <= List.length rq) by (unfold rq; cbn [List.length]; lia).
      assert (Lo : 1 <= List.length op) by (unfold op; cbn [List.length]; lia).
      assert (Kb : stub_ok (snd (rtd_fields rq) ++ [base]) base).
      { split; [unfold nfields, base; cbn [cs_attrs]; rewrite R2; exact Lr|]. split; [exact R1|].
        left. split; [reflexivity|]. unfold nfields, base. cbn [cs_attrs]. rewrite R2. lia. }
      apply stubs_ok_snoc.
      * apply stubs_ok_app; [exact R3|]. apply stubs_ok_app; [|exact O3].
        constructor; [|constructor]. split; [unfold nfields, base; cbn [cs_attrs]; rewrite R2; exact Lr|].
        split; [exact R1|]. left. split; [reflexivity|]. unfold nfields, base. cbn [cs_attrs]. rewrite R2. lia.
      * split; [unfold nfields, nt; cbn [cs_attrs]; rewrite O2; exact Lo|]. split; [exact O1|].
        right. split; [reflexivity|]. split; [reflexivity|]. exists base.
        split; [apply in_or_app; left; apply in_or_app; right; left; reflexivity|].
        split; [reflexivity|]. split; [reflexivity|]. split; [reflexivity|].
        unfold nfields, base, nt. cbn [cs_attrs]. rewrite R2, O2. split; [exact Lr|exact L2].
Qed.

(* C06, the stub classes: a bounded type yields bounded classes and a bounded residual type *)
Theorem rtd_bounded t hint :
  bd t = true -> bd (fst (rtd t hint)) = true /\ stubs_ok (snd (rtd t hint)).
Proof. apply rtd_all_ok. Qed.
End Stubs.

(* ================================================================================================
   no TypedDict, no class stub — and the type comes back unchanged
   ================================================================================================ *)
Definition rtd_id (t : ty) : Prop :=
  forall hint, has_td t = false -> snd (rtd t hint) = [] /\ (normal t = true -> fst (rtd t hint) = t).

Lemma existsb_cons_false {A} (f : A -> bool) x r : existsb f (x :: r) = false -> f x = false /\ existsb f r = false.
Proof. cbn [existsb]. apply orb_false_iff. Qed.

Lemma rtd_list_id hint l : Forall rtd_id l -> forall i, existsb has_td l = false ->
  snd (rtd_list hint l i) = [] /\ (forallb normal l = true -> fst (rtd_list hint l i) = l).
Proof.
  induction 1 as [|x r Hx _ IH]; intros i B; [split; reflexivity|].
  apply existsb_cons_false in B. destruct B as [B1 B2].
  cbn [rtd_list]. destruct (Hx (hint_at hint i) B1) as [X1 X2]. destruct (IH (S i) B2) as [R1 R2].
  destruct (rtd x (hint_at hint i)) as [x' s]. destruct (rtd_list hint r (S i)) as [r' s'].
  cbn [fst snd forallb] in *. subst s s'. split; [reflexivity|].
  intros N. apply andb_prop in N. destruct N as [N1 N2]. rewrite (X2 N1), (R2 N2). reflexivity.
Qed.

Lemma rtd_all_id t : rtd_id t.
Proof.
  induction t as [ | c | x IH | | x IH | x IH | x IH | a b IHa IHb | a b IHa IHb | xs IH | x IH
                 | a1 a2 a3 IH1 IH2 IH3 | xs IH | r o IHr IHo | s ] using ty_ind'; intros hint B;
    try (cbn [rtd fst snd]; split; reflexivity).
  - rewrite rtd_TList. cbn [fst snd has_td normal] in *. destruct (IH hint B) as [E1 E2].
    split; [exact E1|]. intros N. rewrite (E2 N). reflexivity.
  - rewrite rtd_TSet. cbn [fst snd has_td normal] in *. destruct (IH hint B) as [E1 E2].
    split; [exact E1|]. intros N. rewrite (E2 N). reflexivity.
  - rewrite rtd_TDict. cbn [fst snd has_td normal] in *. apply orb_false_iff in B. destruct B as [B1 B2].
    destruct (IHa hint B1) as [A1 A2]. destruct (IHb (hint_at hint 1) B2) as [C1 C2]. rewrite A1, C1.
    split; [reflexivity|]. intros N. apply andb_prop in N. destruct N as [N1 N2]. rewrite (A2 N1), (C2 N2). reflexivity.
  - rewrite rtd_TTuple. cbn [fst snd has_td normal] in *. destruct (rtd_list_id hint xs IH 0 B) as [L1 L2].
    split; [exact L1|]. intros N. rewrite (L2 N). reflexivity.
  - rewrite rtd_TTupleVar. cbn [fst snd has_td normal] in *. destruct (IH hint B) as [E1 E2].
    split; [exact E1|]. intros N. rewrite (E2 N). reflexivity.
  - rewrite rtd_TGenerator. cbn [fst snd has_td normal] in *.
    apply orb_false_iff in B. destruct B as [B B3]. apply orb_false_iff in B. destruct B as [B1 B2].
    destruct (IH1 hint B1) as [A1 A2]. destruct (IH2 (hint_at hint 1) B2) as [C1 C2].
    destruct (IH3 (hint_at hint 2) B3) as [D1 D2]. rewrite A1, C1, D1. split; [reflexivity|].
    intros N. apply andb_prop in N. destruct N as [N N3]. apply andb_prop in N. destruct N as [N1 N2].
    rewrite (A2 N1), (C2 N2), (D2 N3). reflexivity.
  - rewrite rtd_TUnion. cbn [fst snd has_td normal] in *. destruct (rtd_list_id hint xs IH 0 B) as [L1 L2].
    split; [exact L1|]. intros N. apply andb_prop in N. destruct N as [NM N]. rewrite (L2 N).
    apply union_mk_normal_id. exact NM.
  - discriminate B.
Qed.

(* C06 at limit 0 (no TypedDict below t): no class stub is generated, nothing TypedDict-like is left, and a type
   whose unions are in typing's normal form (every inferred / merged / rewritten type: infer_normal, merge_normal,
   rw_chain_normal) is returned unchanged.  Without `normal` the last clause is false: rtd rebuilds a Union through
   Union[...], so e.g. the non-normal TUnion [int] comes back as int. *)
Theorem rtd_no_td t hint :
  has_td t = false ->
  snd (rtd t hint) = [] /\ has_td (fst (rtd t hint)) = false /\ (normal t = true -> fst (rtd t hint) = t).
Proof.
  intros B. destruct (rtd_all_id t hint B) as [E1 E2]. split; [exact E1|]. split; [|exact E2].
  apply bd0_iff_no_td. apply rtd_bounded. apply bd0_iff_no_td. exact B.
Qed.

Example ex_rtd_needs_normal :
  has_td (TUnion [TCls cInt]) = false /\ rtd (TUnion [TCls cInt]) "x" = (TCls cInt, []).
Proof. vm_compute. split; reflexivity. Qed.

(* with limit 0 "bounded" means "no class at all" *)
Lemma stubs_ok_0 cs : stubs_ok 0 cs -> cs = [].
Proof.
  destruct cs as [|s r]; [reflexivity|]. intros H. inversion H as [|? ? [H1 [_ H3]] _]; subst.
  destruct H3 as [[_ H3]|[_ [_ [b [_ [_ [_ [_ [_ H3]]]]]]]]]; lia.
Qed.

(* ================================================================================================
   the same, with the base class of a `...NonTotal` class found BY NAME (as Python / a type checker reads the
   stub), as one boolean over the list of class stubs
   ================================================================================================ *)
Definition is_td_root (s : cstub) : bool := String.eqb (cs_base s) "TypedDict".

Definition cstub_boundedb (k : nat) (cs : list cstub) (s : cstub) : bool :=
  Nat.leb 1 (nfields s)
  && (if is_td_root s then Nat.leb (nfields s) k
      else existsb (fun b => String.eqb (cs_name b) (cs_base s)) cs
           && forallb (fun b => negb (String.eqb (cs_name b) (cs_base s))
                                || (is_td_root b && Nat.leb 1 (nfields b) && Nat.leb (nfields b + nfields s) k)) cs).

Definition cstubs_boundedb (k : nat) (cs : list cstub) : bool := forallb (cstub_boundedb k cs) cs.

Lemma NoDup_name_inj (cs : list cstub) a b :
  NoDup (map cs_name cs) -> In a cs -> In b cs -> cs_name a = cs_name b -> a = b.
Proof.
  induction cs as [|c r IH]; intros ND Ha Hb E; [destruct Ha|].
  cbn [map] in ND. inversion ND as [|? ? Hn ND']; subst.
  destruct Ha as [<-|Ha], Hb as [<-|Hb]; [reflexivity| | |apply IH; assumption].
  - exfalso. apply Hn. rewrite E. apply in_map. exact Hb.
  - exfalso. apply Hn. rewrite <- E. apply in_map. exact Ha.
Qed.

(* outside C11's finding class kf_hint_collision (two generated classes with one name) the by-name reading holds;
   inside it, it can fail: Proofs/TdBoundedE2E.v ex_collision_exceeds_limit *)
Theorem stubs_ok_by_name k cs :
  stubs_ok k cs -> NoDup (map cs_name cs) -> cstubs_boundedb k cs = true.
Proof.
  intros H ND. unfold cstubs_boundedb. apply forallb_forall. intros s Hs.
  unfold stubs_ok in H. rewrite Forall_forall in H. destruct (H s Hs) as [H1 [_ H3]].
  unfold cstub_boundedb. apply andb_true_intro. split; [apply Nat.leb_le; exact H1|].
  destruct (is_td_root s) eqn:R.
  - apply Nat.leb_le. destruct H3 as [[_ H3]|[_ [_ [b [_ [_ [_ [_ [_ H3]]]]]]]]]; lia.
  - destruct H3 as [[H3 _]|[_ [_ [b [Hb [Nb [Rb [_ [Lb Sb]]]]]]]]].
    + unfold is_td_root in R. rewrite H3 in R. discriminate R.
    + apply andb_true_intro. split.
      * apply existsb_exists. exists b. split; [exact Hb|]. rewrite Nb. apply String.eqb_refl.
      * apply forallb_forall. intros b' Hb'. destruct (String.eqb (cs_name b') (cs_base s)) eqn:E; [|reflexivity].
        apply String.eqb_eq in E. assert (b' = b) by (apply (NoDup_name_inj cs); congruence). subst b'.
        cbn [negb orb]. unfold is_td_root. rewrite Rb.
        apply andb_true_intro. split; [apply andb_true_intro; split; [apply String.eqb_refl|]|]; apply Nat.leb_le; assumption.
Qed.

Print Assumptions rtd_bounded.
Print Assumptions rtd_no_td.
Print Assumptions stubs_ok_by_name.
