(* Proofs/RenderTextPx.v — printed expressions (C11).
   px is an annotation expression whose names are still dotted WORDS (strings); ppx prints it the way
   RenderAnnotation lays text out (w[a, b]); to_ae splits the words at dots into the parser's aexpr.
   (1) a delimiter-distributive text function (str.replace, prefix stripping) acts on a printed expression
       word by word;   (2) the tokenizer and parser of Model/Render.v invert the printer. *)
From MT Require Import Types Render RenderTextStr.
From Coq Require Import Lia.

Open Scope string_scope.
Open Scope nat_scope.
Open Scope list_scope.

Inductive px :=
| PName (w : string)
| PStr (s : string)
| PEmpty
| PEll
| PSub (w : string) (args : list px).

Section PxInd.
Variable P : px -> Prop.
Hypothesis HName : forall w, P (PName w).
Hypothesis HStr : forall s, P (PStr s).
Hypothesis HEmpty : P PEmpty.
Hypothesis HEll : P PEll.
Hypothesis HSub : forall w args, Forall P args -> P (PSub w args).
Fixpoint px_ind' (e : px) : P e :=
  match e with
  | PName w => HName w | PStr s => HStr s | PEmpty => HEmpty | PEll => HEll
  | PSub w args => HSub w args ((fix go (l : list px) : Forall P l :=
                      match l with [] => Forall_nil _ | x :: r => Forall_cons x (px_ind' x) (go r) end) args)
  end.
End PxInd.

Fixpoint ppx (e : px) : string :=
  match e with
  | PName w => w
  | PStr s => "'" +++ s +++ "'"
  | PEmpty => "()"
  | PEll => "..."
  | PSub w args => w +++ "[" +++ join ", " (map ppx args) +++ "]"
  end.

Fixpoint mapw (F : string -> string) (e : px) : px :=
  match e with
  | PName w => PName (F w)
  | PStr s => PStr (F s)
  | PEmpty => PEmpty
  | PEll => PEll
  | PSub w args => PSub (F w) (map (mapw F) args)
  end.

Fixpoint to_ae (e : px) : aexpr :=
  match e with
  | PName w => AName (split_dot w)
  | PStr s => AStr s
  | PEmpty => AEmpty
  | PEll => AEll
  | PSub w args => ASub (split_dot w) (map to_ae args)
  end.

(* ------------------------------------------------------------------------------------------ *)
(* (1) word-by-word action                                                                     *)
(* ------------------------------------------------------------------------------------------ *)
Section Distr.
Variable F : string -> string.
Hypothesis HF : ddistr F.

Lemma F_nil : F "" = "".
Proof. exact (proj1 HF). Qed.

Lemma F_sep s d rest : is_delim d = true -> F (s +++ String d rest) = F s +++ String d (F rest).
Proof. apply (proj2 HF). Qed.

Lemma F_head d rest : is_delim d = true -> F (String d rest) = String d (F rest).
Proof.
  intros Hd. change (String d rest) with ("" +++ String d rest). rewrite F_sep, F_nil by exact Hd. reflexivity.
Qed.

Lemma join_distr : forall l rest,
  F (join ", " l +++ String "]" rest) = join ", " (map F l) +++ String "]" (F rest).
Proof.
  induction l as [|x l IH]; intros rest.
  - cbn [join map append]. apply F_head. reflexivity.
  - destruct l as [|y r].
    + cbn [join map]. apply F_sep. reflexivity.
    + change (join ", " (x :: y :: r)) with (x +++ ", " +++ join ", " (y :: r)).
      change (join ", " (map F (x :: y :: r))) with (F x +++ ", " +++ join ", " (map F (y :: r))).
      rewrite !app_assoc_s. cbn [append].
      rewrite F_sep by reflexivity. rewrite F_head by reflexivity. rewrite IH. reflexivity.
Qed.

Hypothesis HEllF : F "..." = "...".

Lemma ppx_distr : forall e, F (ppx e) = ppx (mapw F e).
Proof.
  induction e as [w|s| | |w args IH] using px_ind'; cbn [ppx mapw].
  - reflexivity.
  - cbn [append]. rewrite F_head by reflexivity.
    rewrite F_sep by reflexivity. rewrite F_nil. reflexivity.
  - change "()" with ("" +++ String "(" (String ")" "")). rewrite F_sep by reflexivity.
    rewrite F_head by reflexivity. rewrite F_nil. reflexivity.
  - exact HEllF.
  - cbn [append]. rewrite F_sep by reflexivity.
    replace (join ", " (map ppx args) +++ "]") with (join ", " (map ppx args) +++ String "]" "") by reflexivity.
    rewrite join_distr, F_nil. rewrite !map_map.
    assert (E : map (fun x => F (ppx x)) args = map (fun x => ppx (mapw F x)) args).
    { induction IH as [|x l Hx _ IHl]; cbn [map]; [reflexivity|]. rewrite Hx, IHl. reflexivity. }
    rewrite E. reflexivity.
Qed.
End Distr.

(* mapw with a function that fixes every word *)
Fixpoint words (e : px) : list string :=
  match e with
  | PName w | PStr w => [w]
  | PEmpty | PEll => []
  | PSub w args => w :: flat_map words args
  end.

Lemma mapw_ext F G : forall e, (forall w, In w (words e) -> F w = G w) -> mapw F e = mapw G e.
Proof.
  induction e as [w|s| | |w args IH] using px_ind'; intros H; cbn [mapw words] in *.
  - rewrite H by (left; reflexivity). reflexivity.
  - rewrite H by (left; reflexivity). reflexivity.
  - reflexivity.
  - reflexivity.
  - rewrite (H w) by (left; reflexivity). f_equal.
    assert (H' : forall w', In w' (flat_map words args) -> F w' = G w') by (intros; apply H; right; assumption).
    clear H. induction IH as [|x l Hx _ IHl]; cbn; [reflexivity|].
    rewrite Hx, IHl; [reflexivity| |]; intros w' Hw'; apply H'; cbn; apply in_or_app; tauto.
Qed.

Lemma mapw_id : forall e, mapw (fun w => w) e = e.
Proof.
  induction e as [w|s| | |w args IH] using px_ind'; cbn [mapw]; try reflexivity.
  f_equal. induction IH as [|x l Hx _ IHl]; cbn; [reflexivity|]. rewrite Hx, IHl. reflexivity.
Qed.

Lemma mapw_fix F e : (forall w, In w (words e) -> F w = w) -> mapw F e = e.
Proof. intros H. rewrite (mapw_ext F (fun w => w) e H). apply mapw_id. Qed.

Lemma mapw_mapw F G : forall e, mapw G (mapw F e) = mapw (fun w => G (F w)) e.
Proof.
  induction e as [w|s| | |w args IH] using px_ind'; cbn [mapw]; try reflexivity.
  f_equal. rewrite map_map. induction IH as [|x l Hx _ IHl]; cbn; [reflexivity|]. rewrite Hx, IHl. reflexivity.
Qed.

Lemma words_mapw F : forall e, words (mapw F e) = map F (words e).
Proof.
  induction e as [w|s| | |w args IH] using px_ind'; cbn [mapw words map]; try reflexivity.
  f_equal. induction IH as [|x l Hx _ IHl]; cbn; [reflexivity|]. rewrite map_app, Hx, IHl. reflexivity.
Qed.

(* ------------------------------------------------------------------------------------------ *)
(* (2) tokenizer                                                                               *)
(* ------------------------------------------------------------------------------------------ *)
Definition identc (c : ascii) : bool := is_alnum c || Ascii.eqb c "_".

(* a dotted word: name characters and dots, every dot-separated component non-empty *)
Fixpoint wordb (s : string) (ne : bool) : bool :=
  match s with
  | EmptyString => ne
  | String c r => if Ascii.eqb c "." then ne && wordb r false else identc c && wordb r true
  end.
Definition dotted (w : string) : bool := wordb w false.

Definition nonemp (s : string) : bool := match s with EmptyString => false | _ => true end.

Fixpoint noquote (s : string) : bool :=
  match s with EmptyString => true | String c r => negb (Ascii.eqb c "'") && noquote r end.

Definition dots (cs : list string) : list tok := flat_map (fun c => [TkDot; TkName c]) cs.
Definition interleave (l : list string) : list tok :=
  match l with [] => [] | c :: cs => TkName c :: dots cs end.
Definition wtoks (w : string) : list tok := interleave (split_dot w).

Definition seps : list (list tok) -> list tok :=
  fix go (l : list (list tok)) : list tok :=
    match l with
    | [] => [TkRB]
    | x :: r => x ++ match r with [] => [TkRB] | _ => TkComma :: go r end
    end.

Fixpoint te (e : px) : list tok :=
  match e with
  | PName w => wtoks w
  | PStr s => [TkStr s]
  | PEmpty => [TkLP; TkRP]
  | PEll => [TkEll]
  | PSub w args => wtoks w ++ TkLB :: seps (map te args)
  end.

Fixpoint wfpx (e : px) : bool :=
  match e with
  | PName w => dotted w
  | PStr s => noquote s
  | PEmpty | PEll => true
  | PSub w args => dotted w && negb (Nat.eqb (List.length args) 0) && forallb wfpx args
  end.

(* the text after a name flushes it *)
Definition flushes (rest : string) : bool :=
  match rest with
  | EmptyString => true
  | String c _ => Ascii.eqb c "[" || Ascii.eqb c "]" || Ascii.eqb c ","
  end.

Lemma split_dot_go_ne : forall s cur, exists h t, split_dot_go s cur = h :: t.
Proof.
  induction s as [|c s IH]; intros cur; cbn [split_dot_go]; [eauto|].
  destruct (Ascii.eqb c "."); [eauto | apply IH].
Qed.

Lemma nonemp_app a c : nonemp (a +++ String c "") = true.
Proof. destruct a; reflexivity. Qed.

Lemma flush_ne cur k : nonemp cur = true -> flush cur k = option_map (cons (TkName cur)) k.
Proof. destruct cur; [discriminate | reflexivity]. Qed.

Lemma tokenize_unfold c r cur :
  tokenize (String c r) cur false =
      if is_alnum c || Ascii.eqb c "_" then tokenize r (cur +++ String c "") false
      else if Ascii.eqb c "'" then
             match cur with EmptyString => tokenize r "" true | _ => None end
      else if Ascii.eqb c " " then flush cur (tokenize r "" false)
      else if Ascii.eqb c "[" then flush cur (option_map (cons TkLB) (tokenize r "" false))
      else if Ascii.eqb c "]" then flush cur (option_map (cons TkRB) (tokenize r "" false))
      else if Ascii.eqb c "(" then flush cur (option_map (cons TkLP) (tokenize r "" false))
      else if Ascii.eqb c ")" then flush cur (option_map (cons TkRP) (tokenize r "" false))
      else if Ascii.eqb c "," then flush cur (option_map (cons TkComma) (tokenize r "" false))
      else if Ascii.eqb c "." then
             match r with
             | String c1 (String c2 r2) =>
                 if Ascii.eqb c1 "." && Ascii.eqb c2 "."
                 then flush cur (option_map (cons TkEll) (tokenize r2 "" false))
                 else flush cur (option_map (cons TkDot) (tokenize r "" false))
             | _ => flush cur (option_map (cons TkDot) (tokenize r "" false))
             end
      else None.
Proof. reflexivity. Qed.

Lemma tok_LB r cur : tokenize (String "[" r) cur false = flush cur (option_map (cons TkLB) (tokenize r "" false)).
Proof. reflexivity. Qed.
Lemma tok_RB r cur : tokenize (String "]" r) cur false = flush cur (option_map (cons TkRB) (tokenize r "" false)).
Proof. reflexivity. Qed.
Lemma tok_Comma r cur : tokenize (String "," r) cur false = flush cur (option_map (cons TkComma) (tokenize r "" false)).
Proof. reflexivity. Qed.
Lemma tok_Space r cur : tokenize (String " " r) cur false = flush cur (tokenize r "" false).
Proof. reflexivity. Qed.

Lemma tok_flush cur rest : flushes rest = true -> nonemp cur = true ->
  tokenize rest cur false = option_map (cons (TkName cur)) (tokenize rest "" false).
Proof.
  intros Hf Hc. destruct rest as [|c r].
  - cbn [tokenize]. rewrite flush_ne by exact Hc. reflexivity.
  - cbn [flushes] in Hf. apply orb_prop in Hf as [Hf|Hf]; [apply orb_prop in Hf as [Hf|Hf]|];
      apply Ascii.eqb_eq in Hf; subst c.
    + rewrite !tok_LB, flush_ne by exact Hc. reflexivity.
    + rewrite !tok_RB, flush_ne by exact Hc. reflexivity.
    + rewrite !tok_Comma, flush_ne by exact Hc. reflexivity.
Qed.

Lemma tok_dot c1 R cur : Ascii.eqb c1 "." = false ->
  tokenize (String "." (String c1 R)) cur false
  = flush cur (option_map (cons TkDot) (tokenize (String c1 R) "" false)).
Proof.
  intros H. rewrite tokenize_unfold.
  change (is_alnum "." || Ascii.eqb "." "_") with false. cbv iota.
  change (Ascii.eqb "." "'") with false. change (Ascii.eqb "." " ") with false.
  change (Ascii.eqb "." "[") with false. change (Ascii.eqb "." "]") with false.
  change (Ascii.eqb "." "(") with false. change (Ascii.eqb "." ")") with false.
  change (Ascii.eqb "." ",") with false. change (Ascii.eqb "." ".") with true. cbv iota.
  destruct R as [|c2 r2]; [reflexivity|]. rewrite H. reflexivity.
Qed.

Lemma omap_app {A} (a b : list A) (x : option (list A)) :
  option_map (app a) (option_map (app b) x) = option_map (app (a ++ b)) x.
Proof. destruct x; cbn; [rewrite app_assoc|]; reflexivity. Qed.

Lemma omap_cons {A} (a : A) (x : option (list A)) : option_map (cons a) x = option_map (app [a]) x.
Proof. destruct x; reflexivity. Qed.

Lemma tok_word : forall w cur rest, wordb w (nonemp cur) = true -> flushes rest = true ->
  tokenize (w +++ rest) cur false
  = option_map (app (interleave (split_dot_go w cur))) (tokenize rest "" false).
Proof.
  induction w as [|c w IH]; intros cur rest Hw Hr.
  - cbn [wordb] in Hw. cbn [append split_dot_go interleave dots flat_map].
    rewrite (tok_flush cur rest Hr Hw). apply omap_cons.
  - cbn [wordb] in Hw. cbn [append split_dot_go]. destruct (Ascii.eqb c ".") eqn:Ec.
    + apply Ascii.eqb_eq in Ec. subst c. apply andb_prop in Hw as [Hc Hw].
      destruct w as [|c1 w1]; [discriminate Hw|]. cbn [wordb] in Hw.
      destruct (Ascii.eqb c1 ".") eqn:Ec1; [discriminate Hw|].
      cbn [append]. rewrite (tok_dot c1 (w1 +++ rest) cur Ec1).
      change (String c1 (w1 +++ rest)) with (String c1 w1 +++ rest).
      rewrite (IH "" rest); [|cbn [nonemp wordb]; rewrite Ec1; exact Hw | exact Hr].
      rewrite flush_ne by exact Hc.
      destruct (split_dot_go_ne (String c1 w1) "") as (h & t & E). rewrite E.
      destruct (tokenize rest "" false); reflexivity.
    + apply andb_prop in Hw as [Hc Hw]. rewrite tokenize_unfold. unfold identc in Hc. rewrite Hc.
      apply IH; [rewrite nonemp_app; exact Hw | exact Hr].
Qed.

Lemma tok_str : forall s cur rest, noquote s = true ->
  tokenize (s +++ String "'" rest) cur true = option_map (cons (TkStr (cur +++ s))) (tokenize rest "" false).
Proof.
  induction s as [|c s IH]; intros cur rest H.
  - cbn [append]. rewrite app_nil_r_s. reflexivity.
  - cbn [noquote] in H. apply andb_prop in H as [Hc H]. apply negb_true_iff in Hc.
    cbn [append tokenize]. rewrite Hc. rewrite IH by exact H. rewrite app_assoc_s. reflexivity.
Qed.

Lemma tok_quote r : tokenize (String "'" r) "" false = tokenize r "" true.
Proof. reflexivity. Qed.

Lemma flushes_RB r : flushes (String "]" r) = true. Proof. reflexivity. Qed.
Lemma flushes_Comma r : flushes (String "," r) = true. Proof. reflexivity. Qed.
Lemma flushes_LB r : flushes (String "[" r) = true. Proof. reflexivity. Qed.

Lemma tok_px : forall e, wfpx e = true -> forall rest, flushes rest = true ->
  tokenize (ppx e +++ rest) "" false = option_map (app (te e)) (tokenize rest "" false).
Proof.
  induction e as [w|s| | |w args IH] using px_ind'; intros Hwf rest Hr; cbn [ppx te wfpx] in *.
  - apply (tok_word w "" rest Hwf Hr).
  - rewrite !app_assoc_s. cbn [append]. rewrite tok_quote. rewrite tok_str by exact Hwf. apply omap_cons.
  - cbn [append]. destruct (tokenize rest "" false) eqn:E.
    + change (tokenize (String "(" (String ")" rest)) "" false)
        with (option_map (cons TkLP) (option_map (cons TkRP) (tokenize rest "" false))).
      rewrite E. reflexivity.
    + change (tokenize (String "(" (String ")" rest)) "" false)
        with (option_map (cons TkLP) (option_map (cons TkRP) (tokenize rest "" false))).
      rewrite E. reflexivity.
  - cbn [append].
    change (tokenize (String "." (String "." (String "." rest))) "" false)
      with (option_map (cons TkEll) (tokenize rest "" false)).
    apply omap_cons.
  - apply andb_prop in Hwf as [Hwf Hargs]. apply andb_prop in Hwf as [Hw Hne].
    rewrite !app_assoc_s. cbn [append].
    rewrite (tok_word w "" _ Hw (flushes_LB _)). rewrite tok_LB. cbn [flush].
    change (split_dot_go w "") with (split_dot w). fold (wtoks w).
    assert (G : tokenize (join ", " (map ppx args) +++ String "]" rest) "" false
                = option_map (app (seps (map te args))) (tokenize rest "" false)).
    { clear Hw. destruct args as [|x l]; [discriminate Hne|]. clear Hne.
      revert x IH Hargs. induction l as [|y r IHl]; intros x IH Hargs.
      - inversion IH as [|? ? Hx _]; subst. cbn [forallb] in Hargs. apply andb_prop in Hargs as [Hwx _].
        cbn [map join seps]. rewrite (Hx Hwx _ (flushes_RB rest)). rewrite tok_RB. cbn [flush].
        rewrite omap_cons, omap_app. reflexivity.
      - inversion IH as [|? ? Hx IH']; subst. cbn [forallb] in Hargs. apply andb_prop in Hargs as [Hwx Hargs].
        change (join ", " (map ppx (x :: y :: r))) with (ppx x +++ ", " +++ join ", " (map ppx (y :: r))).
        rewrite !app_assoc_s. cbn [append].
        rewrite (Hx Hwx _ (flushes_Comma _)). rewrite tok_Comma, tok_Space. cbn [flush].
        rewrite (IHl y IH' Hargs).
        change (seps (map te (x :: y :: r))) with (te x ++ TkComma :: seps (map te (y :: r))).
        rewrite omap_cons, !omap_app. rewrite <- app_assoc. reflexivity. }
    rewrite G. rewrite omap_cons, !omap_app. rewrite <- app_assoc. reflexivity.
Qed.

(* ------------------------------------------------------------------------------------------ *)
(* (2) parser                                                                                  *)
(* ------------------------------------------------------------------------------------------ *)
(* what may follow a complete expression: not a dot, not an opening bracket *)
Definition pfollow (rest : list tok) : bool :=
  match rest with TkDot :: _ | TkLB :: _ => false | _ => true end.

Lemma parse_path_dots : forall cs acc rest,
  match rest with TkDot :: _ => False | _ => True end ->
  parse_path (dots cs ++ rest) acc = (acc ++ cs, rest).
Proof.
  induction cs as [|c cs IH]; intros acc rest Hr.
  - cbn [dots flat_map app]. rewrite app_nil_r.
    destruct rest as [|[] r]; try reflexivity. destruct Hr.
  - cbn [dots flat_map app parse_path]. fold (dots cs).
    rewrite (IH (acc ++ [c]) rest Hr). rewrite <- app_assoc. reflexivity.
Qed.

Lemma parse_px : forall e, wfpx e = true -> forall fuel rest,
  2 * List.length (te e) <= fuel -> pfollow rest = true ->
  parse_e fuel (te e ++ rest) = Some (to_ae e, rest).
Proof.
  induction e as [w|s| | |w args IH] using px_ind'; intros Hwf fuel rest Hf Hr; cbn [te to_ae wfpx] in *.
  - unfold wtoks in *. unfold split_dot in *.
    destruct (split_dot_go_ne w "") as (c & cs & E). rewrite E in *. cbn [interleave] in *.
    destruct fuel as [|f]; [cbn in Hf; lia|].
    cbn [app parse_e]. rewrite parse_path_dots by (destruct rest as [|[] ?]; try exact I; discriminate Hr).
    cbn [app]. destruct rest as [|[] ?]; try reflexivity; discriminate Hr.
  - destruct fuel as [|f]; [cbn in Hf; lia|]. reflexivity.
  - destruct fuel as [|f]; [cbn in Hf; lia|]. reflexivity.
  - destruct fuel as [|f]; [cbn in Hf; lia|]. reflexivity.
  - apply andb_prop in Hwf as [Hwf Hargs]. apply andb_prop in Hwf as [Hw Hne].
    unfold wtoks in *. unfold split_dot in *.
    destruct (split_dot_go_ne w "") as (c & cs & E). rewrite E in *. cbn [interleave] in *.
    destruct fuel as [|f]; [cbn in Hf; lia|].
    rewrite <- app_assoc. cbn [app parse_e].
    rewrite parse_path_dots by exact I. cbn [app].
    assert (G : forall f', 2 * List.length (seps (map te args)) <= f' ->
                           parse_args f' (seps (map te args) ++ rest) = Some (map to_ae args, rest)).
    { clear Hf Hw E. destruct args as [|x l]; [discriminate Hne|]. clear Hne.
      revert x IH Hargs. induction l as [|y r IHl]; intros x IH Hargs f' Hf'.
      - inversion IH as [|? ? Hx _]; subst. cbn [forallb] in Hargs. apply andb_prop in Hargs as [Hwx _].
        cbn [map seps] in *. rewrite app_length in Hf'. cbn [List.length] in Hf'.
        destruct f' as [|f']; [lia|]. rewrite <- app_assoc. cbn [app parse_args].
        rewrite (Hx Hwx f' (TkRB :: rest)) by (reflexivity || lia). reflexivity.
      - inversion IH as [|? ? Hx IH']; subst. cbn [forallb] in Hargs. apply andb_prop in Hargs as [Hwx Hargs].
        change (seps (map te (x :: y :: r))) with (te x ++ TkComma :: seps (map te (y :: r))) in *.
        rewrite app_length in Hf'. cbn [List.length] in Hf'.
        destruct f' as [|f']; [lia|]. rewrite <- app_assoc. cbn [app parse_args].
        rewrite (Hx Hwx f' (TkComma :: seps (map te (y :: r)) ++ rest)) by (reflexivity || lia).
        rewrite (IHl y IH' Hargs f') by lia. reflexivity. }
    rewrite G; [reflexivity|].
    cbn [List.length] in Hf. rewrite !app_length in Hf. cbn [List.length] in Hf. lia.
Qed.

Theorem parse_ppx e : wfpx e = true -> parse_anno (ppx e) = Some (to_ae e).
Proof.
  intros Hwf. unfold parse_anno.
  rewrite <- (app_nil_r_s (ppx e)). rewrite (tok_px e Hwf "" eq_refl).
  cbn [tokenize flush option_map]. rewrite app_nil_r.
  rewrite <- (app_nil_r (te e)) at 2.
  rewrite (parse_px e Hwf _ [] ) by (reflexivity || lia). reflexivity.
Qed.
